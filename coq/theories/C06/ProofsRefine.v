(* C06/ProofsRefine.v — refinement without crashes (repaired model): every observable of the file-system log
   equals the abstract gap-free log's: FirstID, LastID, iteration from ANY position, result of every operation,
   Truncate exactly, Trim as the documented relation. *)
From Coq Require Import List NArith ZArith Bool Lia ZifyN ZifyNat ZifyBool.
From BLB Require Import Lib.CRC Lib.CRCFast Gen.Consts C06.Model C06.Spec C06.Proofs C06.ProofsRecover C06.ProofsCrash
  C06.ProofsCache C06.ProofsTrim.
Import ListNotations.
Open Scope N_scope.

(* ---------- acceptance of a batch ---------- *)
Lemma ids_ok_iff : forall rest r0 lastid i,
  Forall id_room (r0 :: rest) ->
  ids_ok lastid i (map to_wire (r0 :: rest)) = (rid r0 =? (lastid + i + 1) mod two64) && gap_free (r0 :: rest).
Proof.
  induction rest as [|r1 rest IH]; intros r0 lastid i Hroom.
  - rewrite ids_ok_cons. cbn [map ids_ok gap_free]. reflexivity.
  - rewrite ids_ok_cons. inversion Hroom as [|? ? Hr0 Hrest]; subst.
    rewrite (IH r1 lastid (i + 1) Hrest). rewrite gap_free_cons2.
    destruct (rid r0 =? (lastid + i + 1) mod two64) eqn:E0; [|reflexivity]. cbn [andb].
    apply N.eqb_eq in E0.
    assert (E : (lastid + (i + 1) + 1) mod two64 = rid r0 + 1).
    { replace (lastid + (i + 1) + 1) with ((lastid + i + 1) + 1) by lia.
      rewrite <- N.add_mod_idemp_l by discriminate. rewrite <- E0. apply N.mod_small. exact Hr0. }
    rewrite E. rewrite (N.eqb_sym (rid r1)). reflexivity.
Qed.

Lemma accepts_iff maxsz l d acked s0 gs0 g r0 rest :
  linv maxsz l d acked s0 (gs0 ++ [g]) -> Forall id_room (r0 :: rest) ->
  ids_ok (append_lastid g r0) 0 (map to_wire (r0 :: rest)) = spec_accepts acked (r0 :: rest).
Proof.
  intros Hinv Hroom. rewrite (ids_ok_iff rest r0 _ 0 Hroom). unfold spec_accepts.
  rewrite andb_comm. f_equal.
  pose proof (li_acked _ _ _ _ _ _ Hinv) as Ha. rewrite concat_app in Ha. cbn [concat] in Ha. rewrite app_nil_r in Ha.
  destruct (clean_shape_parts _ _ (li_clean _ _ _ _ _ _ Hinv)) as [_ Hg].
  unfold append_lastid. destruct g as [|x g].
  - rewrite (Hg eq_refl) in Ha. cbn in Ha. subst acked. cbn [gempty].
    rewrite N.add_0_r. inversion Hroom as [|? ? Hr0 _]; subst. unfold id_room in Hr0.
    pose proof (mod64_pred_succ (rid r0) ltac:(lia)) as E. rewrite N.add_0_r in E. rewrite E. apply N.eqb_refl.
  - cbn [gempty]. rewrite N.add_0_r.
    assert (Hne : acked <> []) by (rewrite <- Ha; destruct (concat gs0); discriminate).
    destruct acked as [|a acked']; [congruence|].
    assert (Hl : last (a :: acked') a = last (x :: g) r0).
    { rewrite <- Ha. rewrite last_app_nonnil by discriminate. apply last_indep. discriminate. }
    rewrite Hl.
    assert (Hin : In (last (x :: g) r0) (a :: acked')).
    { rewrite <- Ha. apply in_or_app. right.
      destruct (exists_last (l := x :: g) ltac:(discriminate)) as (p & q & E). rewrite E, last_last.
      apply in_or_app. right. left. reflexivity. }
    pose proof (li_room _ _ _ _ _ _ Hinv) as Hr. rewrite Forall_forall in Hr. specialize (Hr _ Hin). unfold id_room in Hr.
    rewrite N.mod_small by exact Hr. apply N.eqb_sym.
Qed.

(* result code and oracle of Append follow the abstract log *)
Lemma append_refines maxsz l d acked s0 gs recs :
  linv maxsz l d acked s0 gs -> Forall valid_rec recs -> Forall id_room recs ->
  fst (fst (fst (log_append repaired l d (map to_wire recs)))) = (if spec_accepts acked recs then 0%Z else 1%Z).
Proof.
  intros Hinv Hv Hroom. destruct recs as [|r0 rest]; [reflexivity|].
  assert (Hne : gs <> []) by (destruct (li_clean _ _ _ _ _ _ Hinv) as [->|[H _]]; [discriminate|assumption]).
  destruct (exists_last Hne) as (gs0 & g & ->).
  rewrite <- (accepts_iff maxsz l d acked s0 gs0 g r0 rest Hinv Hroom).
  destruct (ids_ok (append_lastid g r0) 0 (map to_wire (r0 :: rest))) eqn:Hids.
  - destruct (append_step maxsz l d acked s0 gs0 g r0 rest Hinv Hv Hids) as (l' & E & _). rewrite E. reflexivity.
  - destruct (linv_parts _ _ _ _ _ _ _ Hinv) as (Hcur & _ & _).
    unfold log_append. cbn [fx_guard repaired andb map]. rewrite Hcur, cf_empty_cur_of.
    assert (Hlast : (if gempty g then (fst (to_wire r0) + two64 - 1) mod two64 else cf_last (cur_of (s0 + N.of_nat (length gs0)) g))
                    = append_lastid g r0).
    { unfold append_lastid. destruct g as [|x g]; [reflexivity|]. rewrite cur_of_cons. cbn [gempty cf_last].
      f_equal. apply last_indep. discriminate. }
    unfold to_wire at 1. cbn [fst].
    change (if gempty g then (rid r0 + two64 - 1) mod two64 else cf_last (cur_of (s0 + N.of_nat (length gs0)) g))
      with (if gempty g then (fst (to_wire r0) + two64 - 1) mod two64 else cf_last (cur_of (s0 + N.of_nat (length gs0)) g)).
    rewrite Hlast.
    change (to_wire r0 :: map to_wire rest) with (map to_wire (r0 :: rest)).
    rewrite Hids. reflexivity.
Qed.

(* ---------- iteration from any position ---------- *)
Lemma iter_files_rest : forall gs2 gs1 s0 start,
  groups_valid gs2 ->
  iter_files repaired (dir_clean s0 (gs1 ++ gs2))
             (map fi_seq (infos_of (s0 + N.of_nat (length gs1)) gs2)) start false
  = (0%Z, map with_csum (concat gs2)).
Proof.
  induction gs2 as [|g gs2 IH]; intros gs1 s0 start Hv; [reflexivity|].
  inversion Hv as [|? ? Hg Hrest]; subst.
  cbn [infos_of map fi_seq iter_files].
  rewrite fs_get_clean_nth.
  rewrite open_ro_group_clean by assumption.
  pose proof (parse_file_wf g [] Hg torn_tail_nil) as Hp. rewrite app_nil_r in Hp. rewrite Hp.
  cbn [tail_status tail_bad negb orb].
  specialize (IH (gs1 ++ [g]) s0 start Hrest).
  rewrite <- app_assoc in IH. cbn [app] in IH. rewrite app_length in IH. cbn [length] in IH.
  replace (s0 + N.of_nat (length gs1 + 1)) with (s0 + N.of_nat (length gs1) + 1) in IH by lia.
  rewrite IH. cbn [concat]. rewrite map_app. reflexivity.
Qed.

Lemma drop_through_found : forall A rk B,
  (forall x, In x A -> rid x <> rid rk) ->
  drop_through (map with_csum (A ++ rk :: B)) (rid rk) = Some (map with_csum B).
Proof.
  induction A as [|a A IH]; intros rk B Hn.
  - cbn [app map drop_through with_csum]. rewrite N.eqb_refl. reflexivity.
  - cbn [app map drop_through]. unfold with_csum at 1.
    assert (E : (rid a =? rid rk) = false) by (apply N.eqb_neq; apply Hn; left; reflexivity).
    rewrite E. apply IH. intros x Hx. apply Hn. right. exact Hx.
Qed.

Lemma drop_through_none : forall g k,
  (forall x, In x g -> rid x <> k) -> drop_through (map with_csum g) k = None.
Proof.
  induction g as [|a g IH]; intros k Hn; [reflexivity|].
  cbn [map drop_through]. unfold with_csum at 1.
  assert (E : (rid a =? k) = false) by (apply N.eqb_neq; apply Hn; left; reflexivity).
  rewrite E. apply IH. intros x Hx. apply Hn. right. exact Hx.
Qed.

(* in a gap-free run starting at or below k: either the id k is there, or every id is below k *)
Lemma run_find : forall g a k,
  gap_free (a :: g) = true -> rid a <= k ->
  (forall x, In x (a :: g) -> rid x < k) \/ exists A rk B, a :: g = A ++ rk :: B /\ rid rk = k.
Proof.
  induction g as [|b g IH]; intros a k Hg Ha.
  - destruct (N.eq_dec (rid a) k) as [E|Hne].
    + right. exists [], a, []. split; [reflexivity|exact E].
    + left. intros x [<-|[]]. lia.
  - destruct (N.eq_dec (rid a) k) as [E|Hne].
    + right. exists [], a, (b :: g). split; [reflexivity|exact E].
    + rewrite gap_free_cons2 in Hg. apply andb_true_iff in Hg. destruct Hg as [H1 H2]. apply N.eqb_eq in H1.
      destruct (IH b k H2 ltac:(lia)) as [Hall|(A & rk & B & E & Hr)].
      * left. intros x [<-|Hx]; [lia|apply Hall; exact Hx].
      * right. exists (a :: A), rk, B. split; [cbn [app]; rewrite E; reflexivity|exact Hr].
Qed.

Lemma split_sorted A rk B x :
  gap_free (A ++ rk :: B) = true ->
  (In x A -> rid x < rid rk) /\ (In x B -> rid rk < rid x).
Proof.
  intros Hg. split; intros Hx.
  - destruct (in_split _ _ Hx) as (A1 & A2 & EA). rewrite EA, <- app_assoc in Hg.
    apply gap_free_app_r in Hg. cbn [app] in Hg.
    apply (gap_free_lt_hd _ x rk Hg). apply in_or_app. right. left. reflexivity.
  - apply gap_free_app_r in Hg. apply (gap_free_lt_hd _ rk x Hg Hx).
Qed.

Lemma log_iterate_refresh fx l d s : log_iterate fx l d s = log_iterate fx (refresh l) d s.
Proof. unfold log_iterate, gfc. rewrite !refresh_idem. reflexivity. Qed.

(* what the first file of an iteration contributes *)
Lemma first_file_part g start :
  gap_free g = true ->
  let here := if start <=? gfirst g then Some (map with_csum g) else drop_through (map with_csum g) (start - 1) in
  match here with
  | Some rs => rs = map with_csum (filter (fun r => start <=? rid r) g)
  | None => filter (fun r => start <=? rid r) g = []
  end.
Proof.
  intros Hg. cbv zeta.
  destruct (start <=? gfirst g) eqn:E.
  - apply N.leb_le in E. f_equal. symmetry. apply filter_all. intros x Hx. apply N.leb_le.
    destruct g as [|a g]; [contradiction|]. cbn [gfirst] in E.
    destruct Hx as [<-|Hx]; [exact E|]. pose proof (gap_free_lt_hd _ a x Hg Hx). lia.
  - apply N.leb_gt in E.
    destruct g as [|a g]; [reflexivity|]. cbn [gfirst] in E.
    destruct (run_find g a (start - 1) Hg ltac:(lia)) as [Hall|(A & rk & B & Eg & Hr)].
    + rewrite drop_through_none by (intros x Hx; pose proof (Hall x Hx); lia).
      apply filter_none. intros x Hx. apply N.leb_gt. pose proof (Hall x Hx). lia.
    + rewrite Eg in *. rewrite <- Hr.
      rewrite drop_through_found.
      2:{ intros x Hx. destruct (split_sorted A rk B x Hg) as [H1 _]. specialize (H1 Hx). lia. }
      f_equal. change (A ++ rk :: B) with (A ++ [rk] ++ B). rewrite app_assoc, filter_app'.
      rewrite filter_none, filter_all; [reflexivity| |].
      * intros x Hx. apply N.leb_le. destruct (split_sorted A rk B x Hg) as [_ H2]. specialize (H2 Hx). lia.
      * intros x Hx. apply N.leb_gt. apply in_app_or in Hx. destruct Hx as [Hx|[<-|[]]]; [|lia].
        destruct (split_sorted A rk B x Hg) as [H1 _]. specialize (H1 Hx). lia.
Qed.

Lemma before_idx_lt k gs r :
  nonempty_groups gs -> gap_free (concat gs) = true ->
  In r (concat (firstn (gfc_idx k gs) gs)) -> rid r < k \/ (rid r <= k /\ False) \/ rid r < gfirst (nth (gfc_idx k gs) gs []).
Proof.
  intros Hn Hg Hin. right. right. unfold gfc_idx in *.
  destruct (pass k gs) as [|[|q]] eqn:Ep; try (cbn in Hin; contradiction).
  cbn [Nat.pred] in *.
  assert (Hlen : (S q < length gs)%nat) by (pose proof (pass_le_length k gs); lia).
  rewrite (split_nth gs (S q) [] Hlen) in Hg.
  assert (Hne : nth (S q) gs [] <> []).
  { unfold nonempty_groups in Hn. rewrite Forall_forall in Hn. apply Hn. apply nth_In. exact Hlen. }
  destruct (nth (S q) gs []) as [|y g2] eqn:Ey; [congruence|].
  cbn [gfirst]. exact (before_group_lt _ _ _ _ r Hg Hin).
Qed.

Theorem iterate_any maxsz l d acked s0 gs start :
  linv maxsz l d acked s0 gs ->
  log_iterate repaired l d start = (0%Z, map with_csum (filter (fun r => start <=? rid r) acked)).
Proof.
  intros Hinv. rewrite log_iterate_refresh, (li_log _ _ _ _ _ _ Hinv).
  pose proof (li_clean _ _ _ _ _ _ Hinv) as Hc. pose proof (li_gf _ _ _ _ _ _ Hinv) as Hg.
  pose proof (li_valid _ _ _ _ _ _ Hinv) as Hv. pose proof (li_acked _ _ _ _ _ _ Hinv) as Ha.
  assert (Hne : gs <> []) by (destruct Hc as [->|[H _]]; [discriminate|assumption]).
  set (n := gfc_idx start gs).
  pose proof (gfc_idx_lt start gs Hne) as Hn. fold n in Hn.
  unfold log_iterate. rewrite refresh_log_of, gfc_log_of. fold n.
  change (lg_files (log_of s0 gs maxsz)) with (infos_of s0 gs).
  rewrite infos_skipn.
  rewrite (li_fs _ _ _ _ _ _ Hinv), dir_of_clean.
  set (G := firstn n gs). set (gn := nth n gs []). set (D := skipn (S n) gs).
  assert (Egs : gs = G ++ gn :: D) by (apply split_nth; exact Hn).
  assert (Hsk : skipn n gs = gn :: D).
  { rewrite Egs at 1. unfold G. rewrite skipn_app, skipn_all2 by (rewrite firstn_length; lia).
    rewrite firstn_length, Nat.min_l by lia. rewrite Nat.sub_diag. reflexivity. }
  assert (HlenG : length G = n) by (unfold G; rewrite firstn_length; lia).
  rewrite Hsk. cbn [infos_of map fi_seq iter_files].
  pose proof (fs_get_clean_nth G s0 gn D) as Hget. rewrite <- Egs, HlenG in Hget. rewrite Hget.
  assert (Ecat : concat gs = concat G ++ gn ++ concat D).
  { pose proof (f_equal (@concat record) Egs) as E. rewrite concat_app in E. exact E. }
  assert (Hvgn : Forall valid_rec gn).
  { unfold groups_valid in Hv. rewrite Forall_forall in Hv. apply Hv. unfold gn. apply nth_In. exact Hn. }
  assert (HvD : groups_valid D) by (apply groups_valid_skipn; exact Hv).
  assert (Hggn : gap_free gn = true).
  { pose proof Hg as Hg2. rewrite Ecat in Hg2. apply gap_free_app_r in Hg2. apply gap_free_app_l in Hg2. exact Hg2. }
  rewrite open_ro_group_clean by assumption.
  pose proof (parse_file_wf gn [] Hvgn torn_tail_nil) as Hp. rewrite app_nil_r in Hp. rewrite Hp.
  cbn [tail_status tail_bad negb orb].
  (* the files after the first one *)
  pose proof (iter_files_rest D (G ++ [gn]) s0 start HvD) as Hrest.
  rewrite <- app_assoc in Hrest. cbn [app] in Hrest. rewrite app_length in Hrest. cbn [length] in Hrest.
  replace (s0 + N.of_nat (length G + 1)) with (s0 + N.of_nat (length G) + 1) in Hrest by lia.
  rewrite <- Egs, HlenG in Hrest. rewrite Hrest.
  (* the expected result *)
  assert (Hexp : filter (fun r => start <=? rid r) acked = filter (fun r => start <=? rid r) gn ++ concat D).
  { rewrite <- Ha. rewrite Ecat. rewrite !filter_app'.
    rewrite (filter_none _ (concat G)).
    - rewrite (filter_all _ (concat D)); [reflexivity|].
      intros x Hx. apply N.leb_le. pose proof (after_idx_gt start gs x Hc Hg Hx). lia.
    - intros x Hx. apply N.leb_gt.
      destruct Hc as [Hc|[_ Hng]].
      + rewrite Hc in Hn. cbn [length] in Hn. unfold G in Hx. replace n with 0%nat in Hx by lia. contradiction.
      + destruct (before_idx_lt start gs x Hng Hg Hx) as [H|[[_ []]|H]]; [exact H|].
        fold n gn in H.
        (* the first id of the chosen file is <= start when files before it exist *)
        assert (Hpos : (0 < n)%nat).
        { destruct n; [unfold G in Hx; cbn in Hx; contradiction|lia]. }
        assert (Hp1 : pass start gs = S n) by (unfold n, gfc_idx in *; lia).
        pose proof (pass_first gs start n ltac:(lia)). fold gn in H0. lia. }
  rewrite Hexp, map_app.
  pose proof (first_file_part gn start Hggn) as Hff. cbv zeta in Hff.
  destruct (if start <=? gfirst gn then Some (map with_csum gn) else drop_through (map with_csum gn) (start - 1)) as [rs|] eqn:Eh.
  - rewrite Hff. reflexivity.
  - rewrite Hff. reflexivity.
Qed.

(* ---------- Trim is the documented relation ---------- *)
Lemma trim_relation maxsz l d acked s0 gs k :
  linv maxsz l d acked s0 gs ->
  spec_step acked (OTrim k) (concat (skipn (gfc_idx k gs) gs)).
Proof.
  intros Hinv. set (n := gfc_idx k gs).
  pose proof (li_clean _ _ _ _ _ _ Hinv) as Hc. pose proof (li_gf _ _ _ _ _ _ Hinv) as Hg.
  pose proof (li_acked _ _ _ _ _ _ Hinv) as Ha.
  assert (Hne : gs <> []) by (destruct Hc as [->|[H _]]; [discriminate|assumption]).
  pose proof (gfc_idx_lt k gs Hne) as Hn. fold n in Hn.
  cbn [spec_step]. exists (length (concat (firstn n gs))).
  rewrite <- Ha, (concat_firstn_skipn gs n).
  split; [|split].
  - rewrite skipn_app, skipn_all, Nat.sub_diag. reflexivity.
  - rewrite firstn_app, firstn_all, Nat.sub_diag. cbn [firstn]. rewrite app_nil_r.
    rewrite Forall_forall. intros x Hx.
    destruct Hc as [Hc|[_ Hng]].
    + rewrite Hc in Hn. cbn [length] in Hn. replace n with 0%nat in Hx by lia. contradiction.
    + apply (before_idx_le k gs x Hng Hg). exact Hx.
  - intros Hne2.
    destruct Hc as [Hc|[_ Hng]].
    + rewrite <- concat_firstn_skipn in Hne2. rewrite Hc in Hne2. cbn in Hne2. congruence.
    + intros E.
      assert (Hsk : skipn n gs <> []).
      { intros E2. apply (f_equal (@length _)) in E2. rewrite skipn_length in E2. cbn in E2. lia. }
      destruct (skipn n gs) as [|g rest] eqn:Es; [congruence|].
      assert (Hgn : g <> []).
      { unfold nonempty_groups in Hng. rewrite Forall_forall in Hng. apply Hng.
        rewrite <- (firstn_skipn n gs), Es. apply in_or_app. right. left. reflexivity. }
      cbn [concat] in E. destruct g; [congruence|discriminate E].
Qed.

(* ---------- the refinement theorem ---------- *)
Lemma run_linv maxsz ops :
  0 < maxsz -> Forall valid_op ops ->
  let lv := run_ops repaired maxsz (OReopen :: ops) in
  exists l s0 gs, lv_log lv = Some l /\ linv maxsz l (lv_fs lv) (lv_acked lv) s0 gs.
Proof.
  intros Hm Hv lv.
  destruct (live_observables_all maxsz ops Hm Hv) as (l & Hl & _). fold lv in Hl.
  assert (Hg : good maxsz lv).
  { unfold lv, run_ops. apply run_good_all; try assumption; [left; reflexivity|]. constructor; [exact I|assumption]. }
  destruct Hg as [E|(l' & s0 & gs & Hl' & Hinv)].
  - rewrite E in Hl. discriminate Hl.
  - exists l', s0, gs. split; assumption.
Qed.

Theorem refines_spec :
  forall (maxsz : N) (ops : list wal_op) (op : wal_op),
    0 < maxsz -> Forall valid_op ops -> valid_op op ->
    let lv := run_ops repaired maxsz (OReopen :: ops) in
    let acked := lv_acked lv in
    exists l, lv_log lv = Some l /\
      first_id l = first_of acked /\ last_id l = last_of acked /\
      (forall start, log_iterate repaired l (lv_fs lv) start
                     = (0%Z, map with_csum (filter (fun r => start <=? rid r) acked))) /\
      fst (fst (fst (op_run repaired maxsz lv op))) = spec_rc acked op /\
      spec_step acked op (lv_acked (step_live repaired maxsz lv op)).
Proof.
  intros maxsz ops op Hm Hv Hvo lv acked.
  destruct (run_linv maxsz ops Hm Hv) as (l & s0 & gs & Hl & Hinv). fold lv in Hl, Hinv. fold acked in Hinv.
  exists l. split; [exact Hl|].
  pose proof (linv_observables _ _ _ _ _ _ Hinv) as [_ Hf Hla _].
  split; [exact Hf|]. split; [exact Hla|].
  split; [intros start; eapply iterate_any; exact Hinv|].
  destruct lv as [ol d ack] eqn:Elv. cbn [lv_log lv_fs lv_acked] in *. subst ol. subst acked.
  unfold step_live, op_run. cbn [lv_log lv_fs lv_acked].
  destruct op as [recs|k|k|].
  - destruct Hvo as [Hvr Hroom].
    pose proof (append_refines maxsz l d ack s0 gs recs Hinv Hvr Hroom) as Hrc.
    destruct (log_append repaired l d (map to_wire recs)) as [[[rc l'] d'] ms]. cbn [fst] in Hrc |- *.
    split; [exact Hrc|]. cbn [spec_step spec_rc acked_after lv_acked]. rewrite Hrc.
    destruct (spec_accepts ack recs); reflexivity.
  - destruct (truncate_step maxsz l d ack s0 gs k Hinv) as (l' & T & Estep & _).
    rewrite Estep. cbn [fst]. split; reflexivity.
  - rewrite (trim_step maxsz l d ack s0 gs k Hinv). cbn [fst lv_acked]. split; [reflexivity|].
    rewrite (trim_acked maxsz s0 gs k ack (li_clean _ _ _ _ _ _ Hinv) (li_valid _ _ _ _ _ _ Hinv)
               (li_gf _ _ _ _ _ _ Hinv) (li_acked _ _ _ _ _ _ Hinv)).
    eapply trim_relation. exact Hinv.
  - rewrite (li_fs _ _ _ _ _ _ Hinv).
    rewrite open_log_clean by (apply (li_clean _ _ _ _ _ _ Hinv) || apply (li_valid _ _ _ _ _ _ Hinv)).
    cbn [fst]. split; reflexivity.
Qed.

(* ---------- sync discipline of the mutation traces ---------- *)
Definition dir_ops_synced (ms : list mut) : Prop :=
  exists seqs, ms = flat_map unlink_pair seqs.

Theorem sync_discipline :
  forall (maxsz : N) (ops : list wal_op) (op : wal_op),
    0 < maxsz -> Forall valid_op ops -> valid_op op ->
    let lv := run_ops repaired maxsz (OReopen :: ops) in
    let '(rc, _, _, ms) := op_run repaired maxsz lv op in
    match op with
    | OAppend recs =>
      rc = 0%Z -> recs <> [] ->
      exists s pre, ms = pre ++ map (wr s) recs ++ [MSync s] /\ (pre = [] \/ pre = [MCreate s; MDirSync])
    | OTrim _ => dir_ops_synced ms
    | OTruncate _ => exists U T, ms = U ++ T /\ dir_ops_synced U /\ (T = [] \/ exists s o, T = [MTruncate s o; MSync s])
    | OReopen => ms = []
    end.
Proof.
  intros maxsz ops op Hm Hv Hvo lv.
  destruct (run_linv maxsz ops Hm Hv) as (l & s0 & gs & Hl & Hinv). fold lv in Hl, Hinv.
  destruct lv as [ol d ack]. cbn [lv_log lv_fs lv_acked] in *. subst ol.
  unfold op_run. cbn [lv_log lv_fs].
  destruct op as [recs|k|k|].
  - destruct Hvo as [Hvr Hroom].
    pose proof (append_refines maxsz l d ack s0 gs recs Hinv Hvr Hroom) as Hrc.
    destruct recs as [|r0 rest].
    { destruct (log_append repaired l d (map to_wire [])) as [[[rc l'] d'] ms]. intros _ H. congruence. }
    assert (Hne : gs <> []) by (destruct (li_clean _ _ _ _ _ _ Hinv) as [->|[H _]]; [discriminate|assumption]).
    destruct (exists_last Hne) as (gs0 & g & ->).
    destruct (ids_ok (append_lastid g r0) 0 (map to_wire (r0 :: rest))) eqn:Hids.
    + destruct (append_step maxsz l d ack s0 gs0 g r0 rest Hinv Hvr Hids) as (l' & E & _).
      rewrite E. intros _ _.
      destruct (maxsz <=? blen (file_of g)); eexists; eexists; (split; [reflexivity|]); [right|left]; reflexivity.
    + rewrite <- (accepts_iff maxsz l d ack s0 gs0 g r0 rest Hinv Hroom), Hids in Hrc.
      destruct (log_append repaired l d (map to_wire (r0 :: rest))) as [[[rc l'] d'] ms]. cbn [fst] in Hrc.
      intros E. rewrite E in Hrc. discriminate Hrc.
  - destruct (truncate_step maxsz l d ack s0 gs k Hinv) as (l' & T & Estep & _ & HT & _).
    rewrite Estep. eexists. exists T. split; [reflexivity|]. split; [eexists; reflexivity|].
    destruct HT as [-> | ->]; [left; reflexivity|right; unfold tmuts; eauto].
  - rewrite (trim_step maxsz l d ack s0 gs k Hinv). eexists. reflexivity.
  - rewrite (li_fs _ _ _ _ _ _ Hinv).
    rewrite open_log_clean by (apply (li_clean _ _ _ _ _ _ Hinv) || apply (li_valid _ _ _ _ _ _ Hinv)). reflexivity.
Qed.
