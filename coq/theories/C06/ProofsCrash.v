(* C06/ProofsCrash.v — crash atomicity of the repaired model for scenarios of Append and Reopen operations:
   every crash state of every such scenario is a crash-shaped directory whose records are the acknowledged ones
   followed by a prefix of the batch in flight; with ProofsRecover.recovery_exact this gives the property. *)
From Coq Require Import List NArith ZArith Bool Lia ZifyN ZifyNat ZifyBool.
From BLB Require Import Lib.CRC Lib.CRCFast Gen.Consts C06.Model C06.Spec C06.Proofs C06.ProofsRecover.
Import ListNotations.
Open Scope N_scope.

(* ---------- directory algebra for the last file ---------- *)
Lemma dir_of_last_bytes : forall gs0 s0 g t g' t',
  file_of g ++ t = file_of g' ++ t' -> dir_of s0 (gs0 ++ [g]) t = dir_of s0 (gs0 ++ [g']) t'.
Proof.
  induction gs0 as [|g0 gs0 IH]; intros s0 g t g' t' H.
  - cbn [app dir_of]. rewrite H. reflexivity.
  - cbn [app].
    assert (H1 : gs0 ++ [g] <> []) by (destruct gs0; discriminate).
    assert (H2 : gs0 ++ [g'] <> []) by (destruct gs0; discriminate).
    destruct (gs0 ++ [g]) as [|x y] eqn:E1; [congruence|].
    destruct (gs0 ++ [g']) as [|x' y'] eqn:E2; [congruence|].
    change (dir_of s0 (g0 :: x :: y) t) with ((s0, file_of g0) :: dir_of (s0 + 1) (x :: y) t).
    change (dir_of s0 (g0 :: x' :: y') t') with ((s0, file_of g0) :: dir_of (s0 + 1) (x' :: y') t').
    rewrite <- E1, <- E2. f_equal. apply IH. exact H.
Qed.

Lemma file_of_app a b : file_of (a ++ b) = file_of a ++ file_of b.
Proof. unfold file_of. apply flat_map_app. Qed.

Lemma dir_of_snoc_rec gs0 s0 g r :
  dir_of s0 (gs0 ++ [g]) (serialize r) = dir_of s0 (gs0 ++ [g ++ [r]]) [].
Proof.
  apply dir_of_last_bytes. rewrite file_of_app. cbn [file_of flat_map]. rewrite !app_nil_r. reflexivity.
Qed.

Lemma fs_write_last : forall gs0 s0 g t x,
  apply_mut (dir_of s0 (gs0 ++ [g]) t) (MWrite (s0 + N.of_nat (length gs0)) x) = dir_of s0 (gs0 ++ [g]) (t ++ x).
Proof.
  induction gs0 as [|g0 gs0 IH]; intros s0 g t x.
  - cbn [app dir_of length apply_mut]. change (N.of_nat 0) with 0. rewrite N.add_0_r.
    unfold fs_upd. cbn [fs_get]. rewrite N.eqb_refl. cbn [fs_set]. rewrite N.eqb_refl.
    rewrite app_assoc. reflexivity.
  - cbn [app]. assert (Hne : gs0 ++ [g] <> []) by (destruct gs0; discriminate).
    destruct (gs0 ++ [g]) as [|a b] eqn:E; [congruence|].
    change (dir_of s0 (g0 :: a :: b) t) with ((s0, file_of g0) :: dir_of (s0 + 1) (a :: b) t).
    change (dir_of s0 (g0 :: a :: b) (t ++ x)) with ((s0, file_of g0) :: dir_of (s0 + 1) (a :: b) (t ++ x)).
    rewrite <- E.
    specialize (IH (s0 + 1) g t x).
    replace (s0 + N.of_nat (length (g0 :: gs0))) with (s0 + 1 + N.of_nat (length gs0)) by (cbn [length]; lia).
    set (s := s0 + 1 + N.of_nat (length gs0)) in *.
    cbn [apply_mut] in *. unfold fs_upd in *. cbn [fs_get].
    assert (Hs : (s =? s0) = false) by (apply N.eqb_neq; lia).
    rewrite Hs.
    destruct (fs_get (dir_of (s0 + 1) (gs0 ++ [g]) t) s) eqn:G.
    + cbn [fs_set]. rewrite Hs.
      assert (Hlt : (s <? s0) = false) by (apply N.ltb_ge; lia).
      rewrite Hlt. f_equal. exact IH.
    + unfold s in G. rewrite fs_get_dir_last in G. discriminate G.
Qed.

Lemma fs_get_dir_gt : forall gs s0 t s, s0 + N.of_nat (length gs) <= s -> fs_get (dir_of s0 gs t) s = None.
Proof.
  induction gs as [|g rest IH]; intros s0 t s Hs; [reflexivity|].
  destruct rest as [|g2 rest].
  - cbn [dir_of fs_get]. destruct (s =? s0) eqn:E; [apply N.eqb_eq in E; cbn [length] in Hs; lia|reflexivity].
  - change (dir_of s0 (g :: g2 :: rest) t) with ((s0, file_of g) :: dir_of (s0 + 1) (g2 :: rest) t).
    cbn [fs_get]. destruct (s =? s0) eqn:E; [apply N.eqb_eq in E; cbn [length] in Hs; lia|].
    apply IH. cbn [length] in *. lia.
Qed.

Lemma fs_set_dir_next : forall gs0 s0 g,
  fs_set (dir_of s0 (gs0 ++ [g]) []) (s0 + N.of_nat (length gs0) + 1) [] = dir_of s0 ((gs0 ++ [g]) ++ [[]]) [].
Proof.
  induction gs0 as [|g0 gs0 IH]; intros s0 g.
  - cbn [app dir_of length fs_set]. change (N.of_nat 0) with 0. rewrite N.add_0_r.
    assert (E1 : (s0 + 1 =? s0) = false) by (apply N.eqb_neq; lia).
    assert (E2 : (s0 + 1 <? s0) = false) by (apply N.ltb_ge; lia).
    rewrite E1, E2. rewrite !app_nil_r. reflexivity.
  - cbn [app]. assert (Hne : gs0 ++ [g] <> []) by (destruct gs0; discriminate).
    destruct (gs0 ++ [g]) as [|a b] eqn:E; [congruence|].
    change (dir_of s0 (g0 :: a :: b) []) with ((s0, file_of g0) :: dir_of (s0 + 1) (a :: b) []).
    assert (Hne2 : (a :: b) ++ [[]] <> []) by discriminate.
    destruct ((a :: b) ++ [[]]) as [|a' b'] eqn:E'; [congruence|].
    change (dir_of s0 (g0 :: a' :: b') []) with ((s0, file_of g0) :: dir_of (s0 + 1) (a' :: b') []).
    rewrite <- E', <- E.
    cbn [fs_set].
    assert (E1 : (s0 + N.of_nat (length (g0 :: gs0)) + 1 =? s0) = false) by (apply N.eqb_neq; lia).
    assert (E2 : (s0 + N.of_nat (length (g0 :: gs0)) + 1 <? s0) = false) by (apply N.ltb_ge; lia).
    rewrite E1, E2. f_equal.
    specialize (IH (s0 + 1) g).
    replace (s0 + N.of_nat (length (g0 :: gs0)) + 1) with (s0 + 1 + N.of_nat (length gs0) + 1) by (cbn [length]; lia).
    exact IH.
Qed.

Lemma fs_create_next gs0 s0 g :
  apply_mut (dir_of s0 (gs0 ++ [g]) []) (MCreate (s0 + N.of_nat (length gs0) + 1)) = dir_of s0 ((gs0 ++ [g]) ++ [[]]) [].
Proof.
  cbn [apply_mut]. rewrite fs_get_dir_gt by (rewrite app_length; cbn [length]; lia).
  apply fs_set_dir_next.
Qed.

(* ---------- a batch of writes ---------- *)
Definition wr (s : N) (r : record) : mut := MWrite s (serialize r).

Lemma apply_muts_cons d m ms : apply_muts d (m :: ms) = apply_muts (apply_mut d m) ms.
Proof. reflexivity. Qed.
Lemma apply_muts_app d a b : apply_muts d (a ++ b) = apply_muts (apply_muts d a) b.
Proof. unfold apply_muts. apply fold_left_app. Qed.

Lemma apply_writes : forall rs gs0 s0 g,
  apply_muts (dir_of s0 (gs0 ++ [g]) []) (map (wr (s0 + N.of_nat (length gs0))) rs) = dir_of s0 (gs0 ++ [g ++ rs]) [].
Proof.
  induction rs as [|r rs IH]; intros gs0 s0 g.
  - cbn [map]. unfold apply_muts. cbn [fold_left]. rewrite app_nil_r. reflexivity.
  - cbn [map]. rewrite apply_muts_cons. unfold wr at 1. rewrite fs_write_last. cbn [app].
    rewrite dir_of_snoc_rec. rewrite IH. rewrite <- app_assoc. reflexivity.
Qed.

Lemma rle_expand_lit (b : bytes) : rle_expand (map (fun x => (1, x)) b) = b.
Proof. induction b as [|x b IH]; [reflexivity|]. cbn. unfold rle_expand in IH. rewrite IH. reflexivity. Qed.

Lemma rle_len_lit (b : bytes) : rle_len (map (fun x => (1, x)) b) = blen b.
Proof.
  induction b as [|x b IH]; [reflexivity|].
  cbn [map rle_len fold_right fst]. fold (rle_len (map (fun x => (1, x)) b)). rewrite IH. unfold blen. cbn [length]. lia.
Qed.

Lemma write_recs_valid : forall rs s w,
  Forall valid_rec rs ->
  write_recs s (map to_wire rs) w = (true, (apply_muts (fst w) (map (wr s) rs), snd w ++ map (wr s) rs)).
Proof.
  induction rs as [|r rs IH]; intros s w Hv.
  - cbn. rewrite app_nil_r. destruct w; reflexivity.
  - inversion Hv as [|? ? [Hid Hlen] Hrest]; subst.
    cbn [map write_recs to_wire]. unfold to_wire at 1. cbn [fst snd].
    rewrite rle_len_lit, rle_expand_lit.
    assert (E : (max_data <? blen (rdata r)) = false) by (apply N.ltb_ge; exact Hlen).
    rewrite E. rewrite IH by assumption.
    unfold emit. cbn [fst snd]. destruct r as [id data]. cbn [rid rdata].
    rewrite apply_muts_cons. unfold wr at 2 4. rewrite <- app_assoc. reflexivity.
Qed.

(* ---------- ids ---------- *)
Lemma gap_free_cons2 a b l : gap_free (a :: b :: l) = (rid a + 1 =? rid b) && gap_free (b :: l).
Proof. reflexivity. Qed.

Lemma ids_ok_cons lastid i r rest :
  ids_ok lastid i (map to_wire (r :: rest)) =
  (rid r =? (lastid + i + 1) mod two64) && ids_ok lastid (i + 1) (map to_wire rest).
Proof. reflexivity. Qed.

Lemma ids_ok_gap_free : forall recs lastid i,
  Forall id_room recs -> ids_ok lastid i (map to_wire recs) = true -> gap_free recs = true.
Proof.
  induction recs as [|r recs IH]; intros lastid i Hroom H; [reflexivity|].
  rewrite ids_ok_cons in H. apply andb_true_iff in H. destruct H as [H1 H2].
  inversion Hroom as [|? ? Hr Hrest]; subst.
  destruct recs as [|r' recs]; [reflexivity|].
  rewrite gap_free_cons2. rewrite (IH lastid (i + 1) Hrest H2). rewrite andb_true_r.
  rewrite ids_ok_cons in H2. apply andb_true_iff in H2. destruct H2 as [H3 _].
  apply N.eqb_eq in H1. apply N.eqb_eq in H3. apply N.eqb_eq.
  rewrite H3. replace (lastid + (i + 1) + 1) with ((lastid + i + 1) + 1) by lia.
  rewrite <- N.add_mod_idemp_l by discriminate. rewrite <- H1.
  symmetry. apply N.mod_small. exact Hr.
Qed.

Lemma gap_free_app_intro : forall a b ra rb,
  gap_free a = true -> gap_free (rb :: b) = true ->
  (a <> [] -> rid (last a ra) + 1 = rid rb) ->
  gap_free (a ++ rb :: b) = true.
Proof.
  induction a as [|x a IH]; intros b ra rb Ha Hb Hl; [exact Hb|].
  destruct a as [|y a].
  - cbn [app]. rewrite gap_free_cons2, Hb.
    specialize (Hl ltac:(discriminate)). cbn [last] in Hl. rewrite Hl, N.eqb_refl. reflexivity.
  - change ((x :: y :: a) ++ rb :: b) with (x :: y :: a ++ rb :: b).
    rewrite gap_free_cons2 in Ha |- *. apply andb_true_iff in Ha. destruct Ha as [H1 H2]. rewrite H1. cbn [andb].
    change (y :: a ++ rb :: b) with ((y :: a) ++ rb :: b).
    apply (IH b ra rb H2 Hb). intros _. apply Hl. discriminate.
Qed.

Lemma gap_free_prefix : forall a b k, gap_free (a ++ b) = true -> gap_free (a ++ firstn k b) = true.
Proof.
  intros a b k H.
  assert (G : forall l m, gap_free (l ++ m) = true -> gap_free l = true).
  { induction l as [|x l IHl]; intros m Hm; [reflexivity|].
    destruct l as [|y l]; [reflexivity|].
    change ((x :: y :: l) ++ m) with (x :: y :: l ++ m) in Hm. rewrite gap_free_cons2 in Hm |- *.
    apply andb_true_iff in Hm. destruct Hm as [H1 H2]. rewrite H1. cbn [andb].
    apply (IHl m). exact H2. }
  apply (G (a ++ firstn k b) (skipn k b)). rewrite <- app_assoc, firstn_skipn. exact H.
Qed.

Lemma last_map_to_wire : forall recs r0 d,
  fst (last (map to_wire recs) (rid r0, d)) = rid (last recs r0).
Proof.
  induction recs as [|r recs IH]; intros r0 d; [reflexivity|].
  destruct recs as [|r' recs]; [reflexivity|].
  change (map to_wire (r :: r' :: recs)) with (to_wire r :: map to_wire (r' :: recs)).
  change (last (to_wire r :: map to_wire (r' :: recs)) (rid r0, d)) with (last (map to_wire (r' :: recs)) (rid r0, d)).
  rewrite IH. reflexivity.
Qed.

(* ---------- infos bookkeeping ---------- *)
Lemma slf_slf : forall l a b, set_last_first (set_last_first l a) b = set_last_first l b.
Proof.
  induction l as [|x l IH]; intros a b; [reflexivity|].
  destruct l as [|y l]; [reflexivity|].
  change (set_last_first (x :: y :: l) a) with (x :: set_last_first (y :: l) a).
  destruct (set_last_first (y :: l) a) as [|u v] eqn:E.
  - destruct l; discriminate E.
  - change (set_last_first (x :: u :: v) b) with (x :: set_last_first (u :: v) b).
    change (set_last_first (x :: y :: l) b) with (x :: set_last_first (y :: l) b).
    f_equal. rewrite <- E. apply IH.
Qed.

Lemma last_map_to_wire_gen recs r0 (dflt : N * rle) :
  fst dflt = rid r0 -> fst (last (map to_wire recs) dflt) = rid (last recs r0).
Proof. destruct dflt as [a b]. cbn [fst]. intros ->. apply last_map_to_wire. Qed.

Ltac rw_last_wire r0 :=
  match goal with
  | |- context [last (map to_wire ?a) ?d] => rewrite (last_map_to_wire_gen a r0 d eq_refl)
  end.

Lemma infos_app : forall gs s0 g,
  infos_of s0 (gs ++ [g]) = infos_of s0 gs ++ [mkFi (s0 + N.of_nat (length gs)) (gfirst g)].
Proof.
  induction gs as [|g0 gs IH]; intros s0 g.
  - cbn. replace (s0 + 0) with s0 by lia. reflexivity.
  - cbn [app infos_of length]. rewrite IH. cbn [app].
    replace (s0 + 1 + N.of_nat (length gs)) with (s0 + N.of_nat (S (length gs))) by lia. reflexivity.
Qed.

Lemma slf_snoc : forall l x v, set_last_first (l ++ [x]) v = l ++ [mkFi (fi_seq x) v].
Proof.
  induction l as [|y l IH]; intros x v; [reflexivity|].
  cbn [app]. destruct (l ++ [x]) as [|a b] eqn:E; [destruct l; discriminate E|].
  change (set_last_first (y :: a :: b) v) with (y :: set_last_first (a :: b) v).
  rewrite <- E, IH. reflexivity.
Qed.

Lemma slf_infos gs0 s0 g v :
  set_last_first (infos_of s0 (gs0 ++ [g])) v = infos_of s0 gs0 ++ [mkFi (s0 + N.of_nat (length gs0)) v].
Proof. rewrite infos_app, slf_snoc. reflexivity. Qed.

Lemma init_nonempty_intro : forall gs0 g, nonempty_groups gs0 -> init_nonempty (gs0 ++ [g]).
Proof.
  induction gs0 as [|g0 gs0 IH]; intros g H; [exact I|].
  inversion H; subst. cbn [app init_nonempty].
  destruct (gs0 ++ [g]) eqn:E; [destruct gs0; discriminate E|]. rewrite <- E. split; [assumption|apply IH; assumption].
Qed.

Lemma file_of_nonnil g : g <> [] -> file_of g <> [].
Proof.
  destruct g as [|r g]; [congruence|]. intros _ E.
  apply (f_equal (@length _)) in E. rewrite file_of_cons, app_length, serialize_length in E. cbn in E. lia.
Qed.

(* ---------- the invariant of a live (repaired) log ---------- *)
Record linv (maxsz : N) (l : fslog) (d : fs) (acked : list record) (s0 : N) (gs : list (list record)) : Prop := {
  li_log : refresh l = log_of s0 gs maxsz;
  li_fs : d = dir_of s0 gs [];
  li_clean : clean_shape gs;
  li_valid : groups_valid gs;
  li_gf : gap_free (concat gs) = true;
  li_acked : concat gs = acked;
  li_room : Forall id_room acked }.

Lemma linv_parts maxsz l d acked s0 gs0 g :
  linv maxsz l d acked s0 (gs0 ++ [g]) ->
  lg_cur l = cur_of (s0 + N.of_nat (length gs0)) g /\ lg_max l = maxsz /\
  set_last_first (lg_files l) (gfirst g) = infos_of s0 (gs0 ++ [g]).
Proof.
  intros H. pose proof (li_log _ _ _ _ _ _ H) as E. unfold refresh, log_of in E.
  rewrite last_last, app_length in E. cbn [length] in E.
  replace (s0 + N.of_nat (length gs0 + 1) - 1) with (s0 + N.of_nat (length gs0)) in E by lia.
  injection E as E1 E2 E3. repeat split; try assumption.
  rewrite E2, cf_first_cur_of in E1. exact E1.
Qed.

Lemma cur2_eq s g r0 rest :
  (let (id0, _) := to_wire r0 in
   mkCf s false (if gempty g then id0 else gfirst g) (fst (last (map to_wire (r0 :: rest)) (id0, []))))
  = cur_of s (g ++ r0 :: rest).
Proof.
  destruct (to_wire r0) as [id0 w0] eqn:Ew. unfold to_wire in Ew. inversion Ew; subst id0. clear Ew.
  rw_last_wire r0.
  assert (Hne : g ++ r0 :: rest <> []) by (destruct g; discriminate).
  destruct (g ++ r0 :: rest) as [|x y] eqn:E; [congruence|].
  rewrite cur_of_cons. rewrite <- E. f_equal.
  - destruct g; cbn in E; inversion E; reflexivity.
  - rewrite last_app_nonnil by discriminate. f_equal. apply last_indep. discriminate.
Qed.

Definition append_lastid (g : list record) (r0 : record) : N :=
  if gempty g then (rid r0 + two64 - 1) mod two64 else rid (last g r0).

(* what Append does to a live log, when the ids are accepted *)
Lemma append_step maxsz l d acked s0 gs0 g r0 rest :
  linv maxsz l d acked s0 (gs0 ++ [g]) ->
  Forall valid_rec (r0 :: rest) ->
  ids_ok (append_lastid g r0) 0 (map to_wire (r0 :: rest)) = true ->
  let recs := r0 :: rest in
  let roll := maxsz <=? blen (file_of g) in
  let gsA0 := if roll then gs0 ++ [g] else gs0 in
  let gA := if roll then [] else g in
  let sA := s0 + N.of_nat (length gsA0) in
  let pre := if roll then [MCreate sA; MDirSync] else [] in
  exists l',
    log_append repaired l d (map to_wire recs)
    = (0%Z, l', dir_of s0 (gsA0 ++ [gA ++ recs]) [], pre ++ map (wr sA) recs ++ [MSync sA]) /\
    refresh l' = log_of s0 (gsA0 ++ [gA ++ recs]) maxsz.
Proof.
  intros Hinv Hv Hids. intros recs roll gsA0 gA sA pre. subst pre sA gA gsA0 roll.
  destruct (linv_parts _ _ _ _ _ _ _ Hinv) as (Hcur & Hmax & Hfiles).
  pose proof (li_fs _ _ _ _ _ _ Hinv) as Hd.
  unfold log_append. cbn [fx_guard repaired andb]. unfold recs. cbn [map].
  rewrite Hcur, cf_empty_cur_of.
  assert (Hlast : (if gempty g then (fst (to_wire r0) + two64 - 1) mod two64 else cf_last (cur_of (s0 + N.of_nat (length gs0)) g))
                  = append_lastid g r0).
  { unfold append_lastid. destruct g as [|x g]; [reflexivity|]. rewrite cur_of_cons. cbn [gempty cf_last].
    f_equal. apply last_indep. discriminate. }
  unfold to_wire at 1. cbn [fst].
  change (if gempty g then (rid r0 + two64 - 1) mod two64 else cf_last (cur_of (s0 + N.of_nat (length gs0)) g))
    with (if gempty g then (fst (to_wire r0) + two64 - 1) mod two64 else cf_last (cur_of (s0 + N.of_nat (length gs0)) g)).
  rewrite Hlast.
  change (to_wire r0 :: map to_wire rest) with (map to_wire (r0 :: rest)).
  rewrite Hids. cbn [negb].
  assert (Hseq : cf_seq (cur_of (s0 + N.of_nat (length gs0)) g) = s0 + N.of_nat (length gs0)).
  { destruct g; [reflexivity|]. rewrite cur_of_cons. reflexivity. }
  rewrite Hseq, Hmax.
  assert (Hsize : fs_size d (s0 + N.of_nat (length gs0)) = blen (file_of g)).
  { unfold fs_size. rewrite Hd, fs_get_dir_last, app_nil_r. reflexivity. }
  rewrite Hsize.
  rewrite cf_first_cur_of, Hfiles.
  destruct (maxsz <=? blen (file_of g)) eqn:Eroll.
  - (* roll to a new file *)
    rewrite last_seq_infos. cbn [lg_cur cf_seq].
    rewrite write_recs_valid by assumption.
    unfold emit. cbn [fst snd negb apply_mut app].
    rewrite Hd.
    pose proof (fs_create_next gs0 s0 g) as Hc. cbn [apply_mut] in Hc. rewrite Hc.
    pose proof (apply_writes (r0 :: rest) (gs0 ++ [g]) s0 []) as Hw.
    rewrite !app_length in Hw |- *. cbn [length] in Hw |- *.
    replace (s0 + N.of_nat (length gs0 + 1)) with (s0 + N.of_nat (length gs0) + 1) in Hw |- * by lia.
    rewrite Hw. cbn [app].
    eexists. split; [reflexivity|].
    unfold refresh, log_of. cbn [lg_files lg_cur lg_max cf_empty cf_first].
    rewrite last_last, app_length. cbn [length app].
    rewrite slf_snoc. cbn [fi_seq].
    rewrite (infos_app (gs0 ++ [g])). rewrite app_length. cbn [length gfirst].
    rewrite cur_of_cons. change (fst (rid r0, map (fun x : byte => (1, x)) (rdata r0))) with (rid r0).
    replace (s0 + N.of_nat (length gs0 + 1 + 1) - 1) with (s0 + N.of_nat (length gs0) + 1) by lia.
    replace (s0 + N.of_nat (length gs0 + 1)) with (s0 + N.of_nat (length gs0) + 1) by lia.
    f_equal. f_equal.
    pose proof (cur2_eq (s0 + N.of_nat (length gs0) + 1) [] r0 rest) as Hc2. cbn [gempty app] in Hc2.
    rewrite Hc2. apply cur_of_cons.
  - (* same file *)
    rewrite !Hcur, !Hseq, Hmax.
    rewrite write_recs_valid by assumption.
    unfold emit. cbn [fst snd negb apply_mut app].
    rewrite Hd.
    rewrite apply_writes.
    eexists. split; [reflexivity|].
    unfold refresh, log_of. cbn [lg_files lg_cur lg_max].
    rewrite last_last, app_length. cbn [length].
    rewrite cf_empty_cur_of, cf_first_cur_of.
    replace (s0 + N.of_nat (length gs0 + 1) - 1) with (s0 + N.of_nat (length gs0)) by lia.
    rewrite cur2_eq.
    assert (Hgf : cf_first (cur_of (s0 + N.of_nat (length gs0)) (g ++ r0 :: rest)) = gfirst (g ++ r0 :: rest))
      by apply cf_first_cur_of.
    rewrite Hgf.
    rewrite <- (slf_slf (lg_files l) (gfirst g)), Hfiles, slf_infos, <- infos_app.
    reflexivity.
Qed.

(* ---------- shape facts around an accepted Append ---------- *)
Lemma clean_shape_parts gs0 g :
  clean_shape (gs0 ++ [g]) -> nonempty_groups gs0 /\ (g = [] -> gs0 = []).
Proof.
  intros [E|[_ H]].
  - destruct gs0 as [|a gs0]; [|destruct gs0; discriminate E]. split; [constructor|reflexivity].
  - apply Forall_app in H. destruct H as [H0 H1]. inversion H1; subst. split; [assumption|]. intros ->. congruence.
Qed.

Lemma ids_ok_head lastid r0 rest :
  ids_ok lastid 0 (map to_wire (r0 :: rest)) = true -> rid r0 = (lastid + 1) mod two64.
Proof.
  rewrite ids_ok_cons. intros H. apply andb_true_iff in H. destruct H as [H _].
  apply N.eqb_eq in H. rewrite N.add_0_r in H. exact H.
Qed.

Lemma append_gap_free maxsz l d acked s0 gs0 g r0 rest :
  linv maxsz l d acked s0 (gs0 ++ [g]) ->
  Forall id_room (r0 :: rest) ->
  ids_ok (append_lastid g r0) 0 (map to_wire (r0 :: rest)) = true ->
  gap_free (acked ++ r0 :: rest) = true.
Proof.
  intros Hinv Hroom Hids.
  pose proof (ids_ok_gap_free _ _ _ Hroom Hids) as Hgr.
  pose proof (li_gf _ _ _ _ _ _ Hinv) as Hga.
  pose proof (li_acked _ _ _ _ _ _ Hinv) as Hacked.
  pose proof (li_room _ _ _ _ _ _ Hinv) as Hroom_a.
  rewrite Hacked in Hga.
  apply (gap_free_app_intro acked rest r0 r0 Hga Hgr).
  intros Hne.
  destruct (clean_shape_parts _ _ (li_clean _ _ _ _ _ _ Hinv)) as [_ Hg].
  rewrite concat_app in Hacked. cbn [concat] in Hacked. rewrite app_nil_r in Hacked.
  destruct g as [|x g].
  - rewrite (Hg eq_refl) in Hacked. cbn in Hacked. congruence.
  - apply ids_ok_head in Hids. unfold append_lastid in Hids. cbn [gempty] in Hids.
    assert (Hl : last acked r0 = last (x :: g) r0).
    { rewrite <- Hacked. apply last_app_nonnil. discriminate. }
    rewrite Hl.
    assert (Hin : In (last (x :: g) r0) acked).
    { rewrite <- Hacked. apply in_or_app. right.
      destruct (exists_last (l := x :: g) ltac:(discriminate)) as (a & b & E). rewrite E, last_last.
      apply in_or_app. right. left. reflexivity. }
    rewrite Forall_forall in Hroom_a. specialize (Hroom_a _ Hin). unfold id_room in Hroom_a.
    rewrite Hids. symmetry. apply N.mod_small. exact Hroom_a.
Qed.

Lemma blen_nil_iff (b : bytes) : blen b = 0 <-> b = [].
Proof. unfold blen. destruct b; cbn; split; intros; try reflexivity; try discriminate; lia. Qed.

Lemma roll_nonempty maxsz g : 0 < maxsz -> (maxsz <=? blen (file_of g)) = true -> g <> [].
Proof. intros Hm Hr ->. apply N.leb_le in Hr. cbn in Hr. lia. Qed.

(* the state after an accepted Append satisfies the invariant again *)
Lemma append_linv maxsz l d acked s0 gs0 g r0 rest l' :
  0 < maxsz ->
  linv maxsz l d acked s0 (gs0 ++ [g]) ->
  Forall valid_rec (r0 :: rest) -> Forall id_room (r0 :: rest) ->
  ids_ok (append_lastid g r0) 0 (map to_wire (r0 :: rest)) = true ->
  let roll := maxsz <=? blen (file_of g) in
  let gsA0 := if roll then gs0 ++ [g] else gs0 in
  let gA := if roll then [] else g in
  refresh l' = log_of s0 (gsA0 ++ [gA ++ r0 :: rest]) maxsz ->
  linv maxsz l' (dir_of s0 (gsA0 ++ [gA ++ r0 :: rest]) []) (acked ++ r0 :: rest) s0 (gsA0 ++ [gA ++ r0 :: rest]).
Proof.
  intros Hm Hinv Hv Hroom Hids roll gsA0 gA Hl'.
  destruct (clean_shape_parts _ _ (li_clean _ _ _ _ _ _ Hinv)) as [Hne0 Hg].
  pose proof (li_valid _ _ _ _ _ _ Hinv) as Hgv. destruct (groups_valid_app _ _ Hgv) as [Hgv0 Hvg].
  pose proof (li_acked _ _ _ _ _ _ Hinv) as Hacked.
  assert (Hcat : concat (gsA0 ++ [gA ++ r0 :: rest]) = acked ++ r0 :: rest).
  { unfold gsA0, gA. rewrite <- Hacked. destruct roll; rewrite !concat_app; cbn [concat]; rewrite !app_nil_r.
    - reflexivity.
    - rewrite app_assoc. reflexivity. }
  split.
  - exact Hl'.
  - reflexivity.
  - right. split; [destruct gsA0; discriminate|].
    unfold gsA0, gA. destruct roll eqn:Er.
    + apply Forall_app. split.
      * apply Forall_app. split; [assumption|]. constructor; [|constructor]. eapply roll_nonempty; eassumption.
      * constructor; [discriminate|constructor].
    + apply Forall_app. split; [assumption|]. constructor; [destruct g; discriminate|constructor].
  - unfold gsA0, gA. destruct roll.
    + apply Forall_app. split; [assumption|]. constructor; [assumption|constructor].
    + apply Forall_app. split; [assumption|]. constructor; [|constructor]. apply Forall_app. split; assumption.
  - rewrite Hcat. eapply append_gap_free; eassumption.
  - exact Hcat.
  - apply Forall_app. split; [apply (li_room _ _ _ _ _ _ Hinv)|assumption].
Qed.

(* ---------- crash states of a batch of writes ---------- *)
Lemma crash_fs_app_ge d pre rest j cut :
  (length pre <= j)%nat ->
  crash_fs d (pre ++ rest) j cut = crash_fs (apply_muts d pre) rest (j - length pre) cut.
Proof.
  intros Hj. unfold crash_fs.
  rewrite firstn_app, (firstn_all2 pre) by assumption.
  rewrite apply_muts_app. rewrite nth_error_app2 by assumption. reflexivity.
Qed.

Lemma torn_tail_prefix r c : valid_rec r -> c < blen (serialize r) -> torn_tail (firstn (N.to_nat c) (serialize r)).
Proof.
  intros Hv Hc. destruct (N.eq_dec c 0) as [->|Hn].
  - left. reflexivity.
  - right. exists r, (N.to_nat c). split; [assumption|]. split; [|reflexivity]. unfold blen in Hc. lia.
Qed.

Lemma crash_writes gsA0 s0 gA recs :
  Forall valid_rec recs ->
  let sA := s0 + N.of_nat (length gsA0) in
  let msW := map (wr sA) recs ++ [MSync sA] in
  forall j cut, (j <= length msW)%nat -> cut_ok msW j cut ->
  exists k t, (k <= length recs)%nat /\ torn_tail t /\
    crash_fs (dir_of s0 (gsA0 ++ [gA]) []) msW j cut = dir_of s0 (gsA0 ++ [gA ++ firstn k recs]) t.
Proof.
  intros Hv sA msW j cut Hj Hcut.
  assert (Hlen : length msW = S (length recs)).
  { unfold msW. rewrite app_length, map_length. cbn [length]. lia. }
  unfold crash_fs.
  destruct (Nat.le_gt_cases j (length recs)) as [Hle|Hgt].
  - (* j writes are complete *)
    assert (Hf : firstn j msW = map (wr sA) (firstn j recs)).
    { unfold msW. rewrite firstn_app, map_length.
      replace (j - length recs)%nat with 0%nat by lia. cbn [firstn]. rewrite app_nil_r. apply firstn_map. }
    rewrite Hf. unfold sA. rewrite apply_writes.
    destruct cut as [c|].
    + destruct Hcut as (s & x & Hnth & Hc). rewrite Hnth.
      assert (Hlt : (j < length recs)%nat).
      { destruct (Nat.eq_dec j (length recs)) as [->|]; [|lia].
        unfold msW in Hnth. rewrite nth_error_app2 in Hnth by (rewrite map_length; lia).
        rewrite map_length, Nat.sub_diag in Hnth. cbn in Hnth. discriminate Hnth. }
      unfold msW in Hnth. rewrite nth_error_app1 in Hnth by (rewrite map_length; assumption).
      destruct (nth_error recs j) as [r|] eqn:Er.
      2:{ apply nth_error_None in Er. lia. }
      rewrite (map_nth_error _ _ _ Er) in Hnth. unfold wr in Hnth. injection Hnth as <- <-.
      exists j, (firstn (N.to_nat c) (serialize r)). split; [assumption|]. split.
      * apply torn_tail_prefix; [|assumption]. rewrite Forall_forall in Hv. apply Hv. eapply nth_error_In. eassumption.
      * assert (Hl : length (gsA0 ++ [gA ++ firstn j recs]) = length (gsA0 ++ [gA])) by (rewrite !app_length; reflexivity).
        pose proof (fs_write_last gsA0 s0 (gA ++ firstn j recs) [] (firstn (N.to_nat c) (serialize r))) as Hw.
        cbn [app] in Hw. unfold sA. exact Hw.
    + exists j, []. split; [assumption|]. split; [apply torn_tail_nil|]. reflexivity.
  - (* everything including the sync is complete *)
    assert (Hj2 : j = length msW) by lia.
    rewrite Hj2, firstn_all.
    assert (Hn : nth_error msW (length msW) = None) by (apply nth_error_None; lia).
    rewrite Hn.
    exists (length recs), []. split; [lia|]. split; [apply torn_tail_nil|].
    rewrite firstn_all. unfold msW. rewrite apply_muts_app. unfold sA. rewrite apply_writes.
    destruct cut; reflexivity.
Qed.

(* ---------- from a crash-shaped directory to the property's sentence ---------- *)
Lemma Forall_firstn' {A} (P : A -> Prop) (l : list A) k : Forall P l -> Forall P (firstn k l).
Proof.
  intros H. rewrite Forall_forall in *. intros x Hx. apply H.
  rewrite <- (firstn_skipn k l). apply in_or_app. left. exact Hx.
Qed.

Lemma map_fst_with_csum R : map fst (map with_csum R) = R.
Proof. induction R as [|r R IH]; [reflexivity|]. cbn. rewrite IH. reflexivity. Qed.

Lemma crash_ok_of_shape maxsz s0 gc t must may :
  crash_shape gc t ->
  (exists a b, concat gc = a ++ must ++ b) ->
  (exists a b, may = a ++ concat gc ++ b) ->
  crash_ok repaired maxsz (dir_of s0 gc t) must may.
Proof.
  intros Hs Hmust Hmay.
  destruct (recovery_exact maxsz s0 gc t Hs) as (l & d' & ms & Hopen & [Hi Hf Hl Ha]).
  exists l, d', ms, (map with_csum (concat gc)).
  split; [exact Hopen|]. split; [exact Hi|].
  cbv zeta. rewrite map_fst_with_csum.
  destruct Hs as (_ & _ & Hgf & _).
  repeat split; try assumption; apply Ha; assumption.
Qed.

Lemma linv_crash_shape maxsz l d acked s0 gs :
  linv maxsz l d acked s0 gs -> crash_shape gs [].
Proof.
  intros H. split; [apply (li_valid _ _ _ _ _ _ H)|]. split; [|split; [apply (li_gf _ _ _ _ _ _ H)|apply torn_tail_nil]].
  destruct (li_clean _ _ _ _ _ _ H) as [->|[Hne Hn]]; [exact I|].
  destruct (exists_last Hne) as (a & b & ->). apply init_nonempty_intro.
  apply Forall_app in Hn. tauto.
Qed.

(* the live directory itself (no mutation of the operation in flight is complete) *)
Lemma live_crash_ok maxsz l d acked s0 gs extra :
  linv maxsz l d acked s0 gs -> crash_ok repaired maxsz d acked (acked ++ extra).
Proof.
  intros H. rewrite (li_fs _ _ _ _ _ _ H).
  apply crash_ok_of_shape.
  - eapply linv_crash_shape; eassumption.
  - exists [], []. rewrite (li_acked _ _ _ _ _ _ H), app_nil_r. reflexivity.
  - exists [], extra. rewrite (li_acked _ _ _ _ _ _ H). reflexivity.
Qed.

Lemma crash_fs_nil d j cut : crash_fs d [] j cut = d.
Proof. unfold crash_fs. rewrite firstn_nil. destruct cut, j; reflexivity. Qed.

(* every crash state of an Append satisfies the property's sentence *)
Lemma append_crash maxsz l d acked s0 gs recs :
  0 < maxsz -> linv maxsz l d acked s0 gs ->
  Forall valid_rec recs -> Forall id_room recs ->
  forall j cut,
    (j <= length (snd (log_append repaired l d (map to_wire recs))))%nat ->
    cut_ok (snd (log_append repaired l d (map to_wire recs))) j cut ->
    crash_ok repaired maxsz (crash_fs d (snd (log_append repaired l d (map to_wire recs))) j cut) acked (acked ++ recs).
Proof.
  intros Hm Hinv Hv Hroom j cut Hj Hcut.
  destruct recs as [|r0 rest].
  { cbn [map log_append fx_guard repaired andb snd] in *. rewrite crash_fs_nil. eapply live_crash_ok; eassumption. }
  assert (Hne : gs <> []).
  { destruct (li_clean _ _ _ _ _ _ Hinv) as [->|[H _]]; [discriminate|assumption]. }
  destruct (exists_last Hne) as (gs0 & g & ->).
  destruct (ids_ok (append_lastid g r0) 0 (map to_wire (r0 :: rest))) eqn:Hids.
  2:{ (* rejected: no mutation *)
    assert (E : log_append repaired l d (map to_wire (r0 :: rest)) = (1%Z, l, d, [])).
    { destruct (linv_parts _ _ _ _ _ _ _ Hinv) as (Hcur & _ & _).
      unfold log_append. cbn [fx_guard repaired andb map]. rewrite Hcur, cf_empty_cur_of.
      assert (Hlast : (if gempty g then (fst (to_wire r0) + two64 - 1) mod two64 else cf_last (cur_of (s0 + N.of_nat (length gs0)) g))
                      = append_lastid g r0).
      { unfold append_lastid. destruct g as [|x g]; [reflexivity|]. rewrite cur_of_cons. cbn [gempty cf_last].
        f_equal. apply last_indep. discriminate. }
      unfold to_wire at 1. cbn [fst].
      change (if gempty g then (rid r0 + two64 - 1) mod two64 else cf_last (cur_of (s0 + N.of_nat (length gs0)) g))
        with (if gempty g then (fst (to_wire r0) + two64 - 1) mod two64 else cf_last (cur_of (s0 + N.of_nat (length gs0)) g)).
      rewrite Hlast.
      change (to_wire r0 :: map to_wire rest) with (map to_wire (r0 :: rest)).
      rewrite Hids. reflexivity. }
    rewrite E in *. cbn [snd] in *. rewrite crash_fs_nil. eapply live_crash_ok; eassumption. }
  destruct (append_step maxsz l d acked s0 gs0 g r0 rest Hinv Hv Hids) as (l' & E & _).
  rewrite E in *. cbn [snd] in *. clear E.
  pose proof (append_gap_free _ _ _ _ _ _ _ _ _ Hinv Hroom Hids) as Hgf.
  destruct (clean_shape_parts _ _ (li_clean _ _ _ _ _ _ Hinv)) as [Hne0 Hg].
  pose proof (li_valid _ _ _ _ _ _ Hinv) as Hgv. destruct (groups_valid_app _ _ Hgv) as [Hgv0 Hvg].
  pose proof (li_acked _ _ _ _ _ _ Hinv) as Hacked.
  pose proof (li_fs _ _ _ _ _ _ Hinv) as Hd.
  rewrite concat_app in Hacked. cbn [concat] in Hacked. rewrite app_nil_r in Hacked.
  (* generic finish: a state whose last group is gA ++ firstn k recs *)
  assert (Fin : forall gsA0 gA k t,
            nonempty_groups gsA0 -> groups_valid gsA0 -> Forall valid_rec gA ->
            concat gsA0 ++ gA = acked -> torn_tail t ->
            crash_ok repaired maxsz (dir_of s0 (gsA0 ++ [gA ++ firstn k (r0 :: rest)]) t) acked (acked ++ r0 :: rest)).
  { intros gsA0 gA k t Hn Hgvv HvA Hc Ht.
    assert (Hcc : concat (gsA0 ++ [gA ++ firstn k (r0 :: rest)]) = acked ++ firstn k (r0 :: rest)).
    { rewrite concat_app. cbn [concat]. rewrite app_nil_r, app_assoc, Hc. reflexivity. }
    apply crash_ok_of_shape.
    - split; [|split; [|split]].
      + apply Forall_app. split; [assumption|]. constructor; [|constructor].
        apply Forall_app. split; [assumption|]. apply Forall_firstn'. assumption.
      + apply init_nonempty_intro. assumption.
      + rewrite Hcc. apply gap_free_prefix. assumption.
      + assumption.
    - exists [], (firstn k (r0 :: rest)). rewrite Hcc. reflexivity.
    - exists [], (skipn k (r0 :: rest)). rewrite Hcc. cbn [app]. rewrite <- app_assoc, firstn_skipn. reflexivity. }
  destruct (maxsz <=? blen (file_of g)) eqn:Eroll.
  - (* the batch rolls to a new file first *)
    pose proof (roll_nonempty _ _ Hm Eroll) as Hgne.
    assert (Hn1 : nonempty_groups (gs0 ++ [g])).
    { apply Forall_app. split; [assumption|]. constructor; [assumption|constructor]. }
    set (sA := s0 + N.of_nat (length (gs0 ++ [g]))) in *.
    destruct j as [|[|j]].
    + (* nothing done yet *)
      unfold crash_fs. cbn [firstn apply_muts fold_left nth_error app].
      assert (Hx : (match cut with Some _ => d | None => d end) = d) by (destruct cut; reflexivity).
      rewrite Hx. eapply live_crash_ok; eassumption.
    + (* the new file exists, empty *)
      unfold crash_fs. cbn [firstn app nth_error].
      assert (Hx : (match cut with Some _ => apply_muts d [MCreate sA] | None => apply_muts d [MCreate sA] end) = apply_muts d [MCreate sA])
        by (destruct cut; reflexivity).
      rewrite Hx. unfold apply_muts. cbn [fold_left]. rewrite Hd. unfold sA. rewrite app_length. cbn [length].
      replace (s0 + N.of_nat (length gs0 + 1)) with (s0 + N.of_nat (length gs0) + 1) by lia.
      rewrite fs_create_next.
      pose proof (Fin (gs0 ++ [g]) [] 0%nat [] Hn1 Hgv ltac:(constructor)) as F.
      cbn [firstn app] in F. apply F; [|apply torn_tail_nil].
      rewrite concat_app. cbn [concat]. rewrite !app_nil_r. exact Hacked.
    + (* create and directory sync done: inside the writes *)
      change ([MCreate sA; MDirSync] ++ map (wr sA) (r0 :: rest) ++ [MSync sA])
        with ([MCreate sA; MDirSync] ++ (map (wr sA) (r0 :: rest) ++ [MSync sA])) in *.
      rewrite crash_fs_app_ge by (cbn [length]; lia).
      assert (Hpre : apply_muts d [MCreate sA; MDirSync] = dir_of s0 ((gs0 ++ [g]) ++ [[]]) []).
      { unfold apply_muts. cbn [fold_left apply_mut]. rewrite Hd. unfold sA. rewrite app_length. cbn [length].
        replace (s0 + N.of_nat (length gs0 + 1)) with (s0 + N.of_nat (length gs0) + 1) by lia.
        pose proof (fs_create_next gs0 s0 g) as Hc. cbn [apply_mut] in Hc. exact Hc. }
      rewrite Hpre. cbn [length Nat.sub]. rewrite ?Nat.sub_0_r.
      assert (Hj' : (j <= length (map (wr sA) (r0 :: rest) ++ [MSync sA]))%nat).
      { rewrite app_length in Hj. cbn [length] in Hj. rewrite app_length. cbn [length]. rewrite app_length in Hj. cbn [length] in Hj. lia. }
      assert (Hcut' : cut_ok (map (wr sA) (r0 :: rest) ++ [MSync sA]) j cut).
      { destruct cut as [c|]; [|exact I]. destruct Hcut as (s & x & Hn & Hc).
        exists s, x. split; [|assumption]. exact Hn. }
      destruct (crash_writes (gs0 ++ [g]) s0 [] (r0 :: rest) Hv j cut Hj' Hcut') as (k & t & Hk & Ht & Ec).
      fold sA in Ec. rewrite Ec.
      apply Fin; try assumption; [constructor|].
      rewrite concat_app. cbn [concat]. rewrite !app_nil_r. exact Hacked.
  - (* same file *)
    cbn [app] in *. rewrite Hd.
    destruct (crash_writes gs0 s0 g (r0 :: rest) Hv j cut Hj Hcut) as (k & t & Hk & Ht & Ec).
    rewrite Ec. apply Fin; assumption.
Qed.

(* ---------- Reopen of a live log ---------- *)
Lemma open_rw_last_clean gs s0 g ms :
  Forall valid_rec g ->
  open_rw (s0 + N.of_nat (length gs)) (dir_of s0 (gs ++ [g]) [], ms)
  = Some (cur_of (s0 + N.of_nat (length gs)) g, (dir_of s0 (gs ++ [g]) [], ms)).
Proof.
  intros Hv. unfold open_rw. cbn [fst].
  rewrite fs_get_dir_last, parse_file_wf by (assumption || apply torn_tail_nil). reflexivity.
Qed.

Lemma open_log_clean maxsz s0 gs :
  clean_shape gs -> groups_valid gs ->
  open_log repaired maxsz (dir_of s0 gs []) = (0%Z, Some (log_of s0 gs maxsz), dir_of s0 gs [], []).
Proof.
  intros Hc Hv.
  assert (Hne : gs <> []) by (destruct Hc as [->|[H _]]; [discriminate|assumption]).
  destruct (exists_last Hne) as (gs0 & g & ->).
  destruct (groups_valid_app _ _ Hv) as [Hv0 Hvg].
  unfold open_log. rewrite read_existing_dir by (assumption || apply torn_tail_nil).
  rewrite seqs_consecutive_infos. cbn [negb].
  destruct (infos_of s0 (gs0 ++ [g])) as [|fi0 fis] eqn:Einf.
  { destruct gs0; discriminate Einf. }
  rewrite <- Einf. rewrite last_seq_infos, open_rw_last_clean by assumption.
  cbn [fx_drop repaired]. rewrite infos_length, app_length. cbn [length]. rewrite Nat.add_1_r.
  cbn [drop_trailing]. rewrite cf_empty_cur_of, infos_length, app_length. cbn [length].
  assert (Hcond : gempty g && (1 <? N.of_nat (length gs0 + 1)) = false).
  { destruct (clean_shape_parts _ _ Hc) as [_ Hg]. destruct g; [|reflexivity].
    rewrite (Hg eq_refl). reflexivity. }
  rewrite Hcond. cbn [fst snd].
  unfold log_of. rewrite last_last, app_length. cbn [length].
  replace (s0 + N.of_nat (length gs0 + 1) - 1) with (s0 + N.of_nat (length gs0)) by lia. reflexivity.
Qed.

(* ---------- scenarios of Append and Reopen ---------- *)
Definition ar_op (op : wal_op) : Prop := match op with OAppend _ | OReopen => True | _ => False end.

Definition good (maxsz : N) (lv : live) : Prop :=
  lv = mkLive None [] [] \/
  exists l s0 gs, lv_log lv = Some l /\ linv maxsz l (lv_fs lv) (lv_acked lv) s0 gs.

Lemma log_append_snd_eq fx l d recs :
  let '(rc, l', d', ms) := log_append fx l d recs in ms = snd (log_append fx l d recs).
Proof. destruct (log_append fx l d recs) as [[[? ?] ?] ?]. reflexivity. Qed.

Lemma linv_initial maxsz : linv maxsz (log_of 0 [[]] maxsz) (dir_of 0 [[]] []) [] 0 [[]].
Proof.
  split; try reflexivity.
  - left. reflexivity.
  - repeat constructor.
  - constructor.
Qed.

Lemma step_good maxsz lv op :
  0 < maxsz -> good maxsz lv -> valid_op op -> ar_op op -> good maxsz (step_live repaired maxsz lv op).
Proof.
  intros Hm [->|(l & s0 & gs & Hl & Hinv)] Hv Har.
  - (* before the first open *)
    destruct op; try contradiction.
    + left. reflexivity.
    + right. unfold step_live, op_run. cbn [lv_log lv_fs lv_acked].
      rewrite open_log_empty_dir. cbn [acked_after].
      exists (log_of 0 [[]] maxsz), 0, [[]]. split; [reflexivity|]. apply linv_initial.
  - destruct lv as [ol d acked]. cbn [lv_log lv_fs lv_acked] in *. subst ol.
    destruct op as [recs| | |]; try contradiction.
    + (* Append *)
      destruct Hv as [Hvr Hroom].
      right. unfold step_live, op_run. cbn [lv_log lv_fs lv_acked].
      destruct recs as [|r0 rest].
      { cbn [map log_append fx_guard repaired andb acked_after]. cbn. rewrite app_nil_r.
        exists l, s0, gs. split; [reflexivity|assumption]. }
      assert (Hne : gs <> []).
      { destruct (li_clean _ _ _ _ _ _ Hinv) as [->|[H _]]; [discriminate|assumption]. }
      destruct (exists_last Hne) as (gs0 & g & ->).
      destruct (ids_ok (append_lastid g r0) 0 (map to_wire (r0 :: rest))) eqn:Hids.
      * destruct (append_step maxsz l d acked s0 gs0 g r0 rest Hinv Hvr Hids) as (l' & E & Hl').
        rewrite E. cbn [acked_after Z.eqb lv_log lv_fs lv_acked].
        do 3 eexists. split; [reflexivity|].
        eapply append_linv; eassumption.
      * assert (E : log_append repaired l d (map to_wire (r0 :: rest)) = (1%Z, l, d, [])).
        { destruct (linv_parts _ _ _ _ _ _ _ Hinv) as (Hcur & _ & _).
          unfold log_append. cbn [fx_guard repaired andb map]. rewrite Hcur, cf_empty_cur_of.
          assert (Hlast : (if gempty g then (fst (to_wire r0) + two64 - 1) mod two64 else cf_last (cur_of (s0 + N.of_nat (length gs0)) g))
                          = append_lastid g r0).
          { unfold append_lastid. destruct g as [|x g]; [reflexivity|]. rewrite cur_of_cons. cbn [gempty cf_last].
            f_equal. apply last_indep. discriminate. }
          unfold to_wire at 1. cbn [fst].
          change (if gempty g then (rid r0 + two64 - 1) mod two64 else cf_last (cur_of (s0 + N.of_nat (length gs0)) g))
            with (if gempty g then (fst (to_wire r0) + two64 - 1) mod two64 else cf_last (cur_of (s0 + N.of_nat (length gs0)) g)).
          rewrite Hlast.
          change (to_wire r0 :: map to_wire rest) with (map to_wire (r0 :: rest)).
          rewrite Hids. reflexivity. }
        rewrite E. cbn [acked_after Z.eqb lv_log lv_fs lv_acked].
        exists l, s0, (gs0 ++ [g]). split; [reflexivity|assumption].
    + (* Reopen *)
      right. unfold step_live, op_run. cbn [lv_log lv_fs lv_acked].
      rewrite (li_fs _ _ _ _ _ _ Hinv).
      rewrite open_log_clean by (apply (li_clean _ _ _ _ _ _ Hinv) || apply (li_valid _ _ _ _ _ _ Hinv)).
      cbn [acked_after lv_log lv_fs lv_acked].
      exists (log_of s0 gs maxsz), s0, gs. split; [reflexivity|].
      destruct Hinv. split; try assumption; try reflexivity.
      apply refresh_log_of.
Qed.

Lemma crash_good maxsz lv op j cut :
  0 < maxsz -> good maxsz lv -> valid_op op -> ar_op op ->
  let '(_, _, _, ms) := op_run repaired maxsz lv op in
  (j <= length ms)%nat -> cut_ok ms j cut ->
  crash_ok repaired maxsz (crash_fs (lv_fs lv) ms j cut) (must_of op (lv_acked lv)) (may_of op (lv_acked lv)).
Proof.
  intros Hm [->|(l & s0 & gs & Hl & Hinv)] Hv Har.
  - (* before the first open: the directory is empty *)
    assert (Hnil : forall must may, must = [] -> (exists a b, may = a ++ [] ++ b) ->
                   crash_ok repaired maxsz [] must may).
    { intros must may -> Hmay. apply (crash_ok_of_shape maxsz 0 [] [] [] may).
      - split; [constructor|]. split; [exact I|]. split; [reflexivity|apply torn_tail_nil].
      - exists [], []. reflexivity.
      - exact Hmay. }
    destruct op as [recs| | |]; try contradiction.
    + cbn [op_run lv_log lv_fs lv_acked must_of may_of]. intros _ _. rewrite crash_fs_nil.
      apply Hnil; [reflexivity|]. exists [], recs. reflexivity.
    + cbn [op_run lv_log lv_fs lv_acked must_of may_of]. rewrite open_log_empty_dir.
      intros Hj Hcut.
      assert (H1 : crash_ok repaired maxsz (dir_of 0 [[]] []) [] []).
      { apply (crash_ok_of_shape maxsz 0 [[]] [] [] []).
        - split; [repeat constructor|]. split; [exact I|]. split; [reflexivity|apply torn_tail_nil].
        - exists [], []. reflexivity.
        - exists [], []. reflexivity. }
      destruct j as [|[|[|j]]]; unfold crash_fs; cbn [firstn nth_error apply_muts fold_left apply_mut fs_get fs_set].
      * destruct cut; apply Hnil; try reflexivity; exists [], []; reflexivity.
      * destruct cut; exact H1.
      * destruct cut; exact H1.
      * cbn [length] in Hj. lia.
  - destruct lv as [ol d acked]. cbn [lv_log lv_fs lv_acked] in *. subst ol.
    destruct op as [recs| | |]; try contradiction.
    + destruct Hv as [Hvr Hroom].
      cbn [op_run lv_log lv_fs lv_acked must_of may_of].
      pose proof (append_crash maxsz l d acked s0 gs recs Hm Hinv Hvr Hroom j cut) as H.
      destruct (log_append repaired l d (map to_wire recs)) as [[[rc l'] d'] ms]. cbn [snd] in H. exact H.
    + cbn [op_run lv_log lv_fs lv_acked must_of may_of].
      rewrite (li_fs _ _ _ _ _ _ Hinv).
      rewrite open_log_clean by (apply (li_clean _ _ _ _ _ _ Hinv) || apply (li_valid _ _ _ _ _ _ Hinv)).
      intros _ _. rewrite crash_fs_nil. rewrite <- (li_fs _ _ _ _ _ _ Hinv).
      rewrite <- (app_nil_r acked) at 2. eapply live_crash_ok; eassumption.
Qed.

Lemma run_good maxsz : forall ops lv,
  0 < maxsz -> good maxsz lv -> Forall valid_op ops -> Forall ar_op ops ->
  good maxsz (fold_left (step_live repaired maxsz) ops lv).
Proof.
  induction ops as [|op ops IH]; intros lv Hm Hg Hv Ha; [exact Hg|].
  inversion Hv; subst. inversion Ha; subst. cbn [fold_left]. apply IH; try assumption.
  apply step_good; assumption.
Qed.

(* crash atomicity of the repaired model for every scenario of Append and Reopen operations *)
Theorem crash_atomic_append_reopen :
  forall (maxsz : N) (ops : list wal_op) (i j : nat) (cut : option N),
    0 < maxsz -> Forall valid_op ops -> Forall ar_op ops ->
    crash_atomic_at repaired maxsz ops i j cut.
Proof.
  intros maxsz ops i j cut Hm Hv Ha. unfold crash_atomic_at.
  destruct (nth_error ops i) as [op|] eqn:En; [|exact I].
  assert (Hg : good maxsz (run_ops repaired maxsz (firstn i ops))).
  { unfold run_ops. apply run_good; try assumption.
    - left. reflexivity.
    - apply Forall_firstn'. assumption.
    - apply Forall_firstn'. assumption. }
  assert (Hvo : valid_op op) by (rewrite Forall_forall in Hv; apply Hv; eapply nth_error_In; eassumption).
  assert (Hao : ar_op op) by (rewrite Forall_forall in Ha; apply Ha; eapply nth_error_In; eassumption).
  exact (crash_good maxsz _ op j cut Hm Hg Hvo Hao).
Qed.
