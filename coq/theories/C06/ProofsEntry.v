(* C06/ProofsEntry.v — raft entry codec (raft/log.go): uvarint and entry round trips. *)
From Coq Require Import List NArith ZArith Bool Lia ZifyN ZifyNat ZifyBool.
From BLB Require Import Lib.CRC C06.Model.
Import ListNotations.
Open Scope N_scope.

Lemma pow2_split s : 2 ^ (s + 7) = 128 * 2 ^ s.
Proof. rewrite N.pow_add_r. change (2 ^ 7) with 128. lia. Qed.

(* Uvarint reads back what PutUvarint wrote, from any position i <= 9 of a value that still fits in 64 bits *)
Lemma uvarint_roundtrip : forall fuel i x acc rest,
  (i + fuel = 10)%nat -> (0 < fuel)%nat -> x * 2 ^ (7 * N.of_nat i) < 2 ^ 64 ->
  get_uvarint (put_uvarint fuel x ++ rest) i acc (7 * N.of_nat i)
  = (acc + x * 2 ^ (7 * N.of_nat i), Z.of_nat (i + length (put_uvarint fuel x))).
Proof.
  induction fuel as [|f IH]; intros i x acc rest Hif Hf Hx; [lia|].
  assert (Hi10 : Nat.eqb i 10 = false) by (apply Nat.eqb_neq; lia).
  cbn [put_uvarint]. destruct (x <? 128) eqn:E.
  - (* last byte *)
    apply N.ltb_lt in E. cbn [app get_uvarint length]. rewrite Hi10.
    assert (E2 : (x <? 128) = true) by (apply N.ltb_lt; exact E). rewrite E2.
    assert (Hov : Nat.eqb i 9 && (1 <? x) = false).
    { destruct (Nat.eqb i 9) eqn:E9; [|reflexivity]. apply Nat.eqb_eq in E9. subst i. cbn [andb].
      apply N.ltb_ge. change (7 * N.of_nat 9) with 63 in Hx.
      destruct (N.le_gt_cases x 1) as [Hle|Hgt]; [exact Hle|]. exfalso.
      assert (Hmul : 2 * 2 ^ 63 <= x * 2 ^ 63) by (apply N.mul_le_mono_r; lia).
      change (2 * 2 ^ 63) with (2 ^ 64) in Hmul. lia. }
    rewrite Hov. f_equal; lia.
  - (* a continuation byte, then the rest *)
    apply N.ltb_ge in E.
    assert (Hi9 : (i < 9)%nat).
    { destruct (Nat.eq_dec i 9) as [->|]; [|lia]. exfalso.
      change (7 * N.of_nat 9) with 63 in Hx.
      assert (Hmul : 2 * 2 ^ 63 <= x * 2 ^ 63) by (apply N.mul_le_mono_r; lia).
      change (2 * 2 ^ 63) with (2 ^ 64) in Hmul. lia. }
    cbn [app get_uvarint length]. rewrite Hi10.
    assert (Hm : x mod 128 < 128) by (apply N.mod_lt; discriminate).
    assert (E2 : (x mod 128 + 128 <? 128) = false) by (apply N.ltb_ge; lia). rewrite E2.
    assert (Em : (x mod 128 + 128) mod 128 = x mod 128).
    { replace (x mod 128 + 128) with (x mod 128 + 1 * 128) by lia. rewrite N.mod_add by discriminate.
      apply N.mod_small. exact Hm. }
    rewrite Em.
    replace (7 * N.of_nat i + 7) with (7 * N.of_nat (S i)) by lia.
    pose proof (N.div_mod x 128 ltac:(discriminate)) as Hdm.
    assert (Hp : 2 ^ (7 * N.of_nat (S i)) = 128 * 2 ^ (7 * N.of_nat i)).
    { replace (7 * N.of_nat (S i)) with (7 * N.of_nat i + 7) by lia. apply pow2_split. }
    rewrite IH.
    + f_equal; [|lia]. rewrite Hp. set (P := 2 ^ (7 * N.of_nat i)) in *. nia.
    + lia.
    + lia.
    + rewrite Hp. set (P := 2 ^ (7 * N.of_nat i)) in *. nia.
Qed.

Lemma uvarint_roundtrip0 x rest :
  x < 2 ^ 64 ->
  get_uvarint (put_uvarint 10 x ++ rest) 0 0 0 = (x, Z.of_nat (length (put_uvarint 10 x))).
Proof.
  intros Hx. pose proof (uvarint_roundtrip 10 0 x 0 rest eq_refl ltac:(lia)) as H.
  change (7 * N.of_nat 0) with 0 in H. rewrite N.pow_0_r, N.mul_1_r in H. rewrite N.add_0_l in H.
  apply H. exact Hx.
Qed.

Lemma put_uvarint_nonempty fuel x : (0 < length (put_uvarint fuel x))%nat.
Proof. destruct fuel; cbn; [lia|]. destruct (x <? 128); cbn; lia. Qed.

(* deserializeEntry (serializeEntry e) = e: format byte, type, uvarint term, command *)
Theorem entry_roundtrip e :
  e_term e < 2 ^ 64 -> deserialize_entry (serialize_entry e) = (0%Z, e).
Proof.
  intros Ht. destruct e as [ty term cmd]. cbn [e_type e_term e_cmd] in *.
  unfold serialize_entry, deserialize_entry. cbn [e_type e_term e_cmd].
  change (entry_format1 =? entry_format1) with true. cbv iota.
  rewrite uvarint_roundtrip0 by assumption.
  pose proof (put_uvarint_nonempty 10 term) as Hl.
  assert (Hk : (Z.of_nat (length (put_uvarint 10 term)) <=? 0)%Z = false) by (apply Z.leb_gt; lia).
  rewrite Hk. rewrite Nat2Z.id.
  rewrite skipn_app, skipn_all, Nat.sub_diag. reflexivity.
Qed.
