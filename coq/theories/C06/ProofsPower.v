(* C06/ProofsPower.v — power loss: crash_prefix is included in crash_cache; for disciplined mutation traces
   (create+dirsync, unlink+dirsync, writes+fsync) every power-loss state is a prefix-crash state. *)
From Coq Require Import List NArith ZArith Bool Lia ZifyN ZifyNat ZifyBool.
From BLB Require Import Lib.CRC Lib.CRCFast Gen.Consts C06.Model C06.Spec C06.CrashCache C06.Proofs C06.ProofsRecover
  C06.ProofsCrash C06.ProofsCache C06.ProofsTrim C06.ProofsRefine.
Import ListNotations.
Open Scope N_scope.

(* ---------- sorted directories ---------- *)
Fixpoint ksorted (d : fs) : Prop :=
  match d with
  | a :: r => match r with [] => True | b :: _ => fst a < fst b /\ ksorted r end
  | [] => True
  end.

Lemma ksorted_tail a d : ksorted (a :: d) -> ksorted d.
Proof. destruct d; cbn; tauto. Qed.

Lemma ksorted_lt : forall d a t, ksorted (a :: d) -> In t (names d) -> fst a < t.
Proof.
  induction d as [|b d IH]; intros a t H Hin; [contradiction|].
  cbn [ksorted] in H. destruct H as [H1 H2]. cbn [names map] in Hin. destruct Hin as [<-|Hin]; [exact H1|].
  specialize (IH b t H2 Hin). lia.
Qed.

Lemma fs_get_in_names : forall d s c, fs_get d s = Some c -> In s (names d).
Proof.
  induction d as [|[s' b] d IH]; intros s c H; [discriminate|].
  cbn [fs_get] in H. destruct (s =? s') eqn:E.
  - apply N.eqb_eq in E. left. cbn. congruence.
  - right. eapply IH. exact H.
Qed.

Lemma in_names_fs_get : forall d s, In s (names d) -> exists c, fs_get d s = Some c.
Proof.
  induction d as [|[s' b] d IH]; intros s H; [contradiction|].
  cbn [fs_get]. destruct (s =? s') eqn:E; [eauto|].
  destruct H as [H|H]; [cbn in H; apply N.eqb_neq in E; congruence|]. apply IH. exact H.
Qed.

Lemma in_fs_get : forall d s c, ksorted d -> In (s, c) d -> fs_get d s = Some c.
Proof.
  induction d as [|[s' b] d IH]; intros s c Hs Hin; [contradiction|].
  cbn [fs_get]. destruct Hin as [E|Hin].
  - injection E as -> ->. rewrite N.eqb_refl. reflexivity.
  - assert (Hlt : s' < s).
    { apply (ksorted_lt d (s', b) s Hs). apply in_map_iff. exists (s, c). split; [reflexivity|exact Hin]. }
    assert (E : (s =? s') = false) by (apply N.eqb_neq; lia). rewrite E.
    apply IH; [eapply ksorted_tail; exact Hs|exact Hin].
Qed.

(* a directory is determined by its entries and their contents *)
Lemma fs_ext : forall a b,
  names a = names b -> ksorted b ->
  (forall s c, In (s, c) a -> fs_get b s = Some c) -> a = b.
Proof.
  induction a as [|[s c] a IH]; intros b Hn Hs H.
  - destruct b; [reflexivity|discriminate Hn].
  - destruct b as [|[s' c'] b]; [discriminate Hn|].
    cbn [names map fst] in Hn. injection Hn as -> Hn.
    pose proof (H s' c (or_introl eq_refl)) as H0. cbn [fs_get] in H0. rewrite N.eqb_refl in H0. injection H0 as E0. subst c'.
    f_equal. apply IH; [exact Hn|eapply ksorted_tail; exact Hs|].
    intros t x Hin. specialize (H t x (or_intror Hin)). cbn [fs_get] in H.
    assert (Hlt : s' < t).
    { apply (ksorted_lt b (s', c) t Hs). change (map fst b) with (names b) in Hn. rewrite <- Hn. apply in_map_iff. exists (t, x). split; [reflexivity|exact Hin]. }
    assert (E : (t =? s') = false) by (apply N.eqb_neq; lia). rewrite E in H. exact H.
Qed.

Lemma fs_get_set : forall d s b t, fs_get (fs_set d s b) t = if t =? s then Some b else fs_get d t.
Proof.
  induction d as [|[s' b'] d IH]; intros s b t.
  - cbn [fs_set fs_get]. destruct (t =? s); reflexivity.
  - cbn [fs_set]. destruct (s =? s') eqn:E1.
    + apply N.eqb_eq in E1. subst s'. cbn [fs_get]. destruct (t =? s); reflexivity.
    + destruct (s <? s') eqn:E2.
      * cbn [fs_get]. destruct (t =? s); reflexivity.
      * cbn [fs_get]. destruct (t =? s') eqn:E3.
        -- apply N.eqb_eq in E3. subst t. rewrite N.eqb_sym, E1. reflexivity.
        -- apply IH.
Qed.

Lemma names_fs_set_in : forall d s b t, In t (names (fs_set d s b)) <-> t = s \/ In t (names d).
Proof.
  intros d s b t. split.
  - intros H. destruct (in_names_fs_get _ _ H) as (c & Hc). rewrite fs_get_set in Hc.
    destruct (t =? s) eqn:E; [left; apply N.eqb_eq; exact E|right; eapply fs_get_in_names; exact Hc].
  - intros [->|H].
    + apply (fs_get_in_names _ _ b). rewrite fs_get_set, N.eqb_refl. reflexivity.
    + destruct (in_names_fs_get _ _ H) as (c & Hc).
      destruct (t =? s) eqn:E.
      * apply (fs_get_in_names _ _ b). rewrite fs_get_set, E. reflexivity.
      * apply (fs_get_in_names _ _ c). rewrite fs_get_set, E. exact Hc.
Qed.

Lemma ksorted_fs_set : forall d s b, ksorted d -> ksorted (fs_set d s b).
Proof.
  induction d as [|[s' b'] d IH]; intros s b H; [exact I|].
  cbn [fs_set]. destruct (s =? s') eqn:E1.
  - apply N.eqb_eq in E1. subst s'. destruct d; exact H.
  - destruct (s <? s') eqn:E2.
    + apply N.ltb_lt in E2. cbn [ksorted fst]. split; [exact E2|exact H].
    + apply N.ltb_ge in E2. apply N.eqb_neq in E1.
      specialize (IH s b (ksorted_tail _ _ H)).
      destruct (fs_set d s b) as [|[u w] r] eqn:Ef; [exact I|].
      cbn [ksorted fst]. split; [|exact IH].
      assert (Hin : In u (names (fs_set d s b))) by (rewrite Ef; left; reflexivity).
      apply names_fs_set_in in Hin. destruct Hin as [->|Hin]; [lia|].
      apply (ksorted_lt d (s', b') u H Hin).
Qed.

Lemma fs_get_del : forall d s t, ksorted d -> fs_get (fs_del d s) t = if t =? s then None else fs_get d t.
Proof.
  induction d as [|[s' b'] d IH]; intros s t H.
  - cbn. destruct (t =? s); reflexivity.
  - cbn [fs_del]. destruct (s =? s') eqn:E1.
    + apply N.eqb_eq in E1. subst s'. cbn [fs_get]. destruct (t =? s) eqn:E; [|reflexivity].
      apply N.eqb_eq in E. subst t.
      destruct (fs_get d s) eqn:G; [|reflexivity].
      pose proof (ksorted_lt d (s, b') s H (fs_get_in_names _ _ _ G)). cbn in H0. lia.
    + cbn [fs_get]. destruct (t =? s') eqn:E3.
      * apply N.eqb_eq in E3. subst t. rewrite N.eqb_sym, E1. reflexivity.
      * apply IH. eapply ksorted_tail. exact H.
Qed.

Lemma names_fs_del_in : forall d s t, In t (names (fs_del d s)) -> In t (names d).
Proof.
  induction d as [|[s' b'] d IH]; intros s t H; [contradiction|].
  cbn [fs_del] in H. destruct (s =? s'); [right; exact H|].
  destruct H as [H|H]; [left; exact H|right; eapply IH; exact H].
Qed.

Lemma ksorted_fs_del : forall d s, ksorted d -> ksorted (fs_del d s).
Proof.
  induction d as [|[s' b'] d IH]; intros s H; [exact I|].
  cbn [fs_del]. destruct (s =? s'); [eapply ksorted_tail; exact H|].
  specialize (IH s (ksorted_tail _ _ H)).
  destruct (fs_del d s) as [|[u w] r] eqn:Ef; [exact I|].
  cbn [ksorted fst]. split; [|exact IH].
  assert (Hin : In u (names (fs_del d s))) by (rewrite Ef; left; reflexivity).
  apply names_fs_del_in in Hin. apply (ksorted_lt d (s', b') u H Hin).
Qed.

(* ---------- clean cache states ---------- *)
Record pclean (P : pfs) : Prop := {
  pc_dirs : p_dirs P = [names (p_vol P)];
  pc_sorted : ksorted (p_vol P);
  pc_files : forall s b, fs_get (p_vol P) s = Some b -> p_files P s = [b] }.

Lemma cand_single b c : cand [b] c -> c = b.
Proof. intros H. inversion H; subst; [reflexivity|]. match goal with H : cand [] _ |- _ => inversion H end. Qed.

(* contents of a power-loss state: every listed file whose history is the single version b holds b *)
Lemma cache_state_eq P d' vol' :
  names d' = names vol' -> ksorted vol' ->
  (forall s c, In (s, c) d' -> cand (p_files P s) c) ->
  (forall s b, fs_get vol' s = Some b -> forall c, cand (p_files P s) c -> c = b) ->
  d' = vol'.
Proof.
  intros Hn Hs Hc Hf. apply fs_ext; try assumption.
  intros s c Hin.
  assert (Hin' : In s (names vol')).
  { rewrite <- Hn. apply in_map_iff. exists (s, c). split; [reflexivity|exact Hin]. }
  destruct (in_names_fs_get _ _ Hin') as (b & Hb). rewrite Hb. f_equal. symmetry. eapply Hf; [exact Hb|]. apply Hc. exact Hin.
Qed.

Lemma clean_states P d' : pclean P -> crash_cache P d' -> d' = p_vol P.
Proof.
  intros [Hd Hs Hf] (D & HD & Hn & Hc). rewrite Hd in HD. destruct HD as [<-|[]].
  apply (cache_state_eq P); try assumption.
  intros s b Hb c Hcand. rewrite (Hf s b Hb) in Hcand. apply cand_single. exact Hcand.
Qed.

(* ---------- more directory algebra ---------- *)
Lemma ksorted_names : forall a b, names a = names b -> ksorted b -> ksorted a.
Proof.
  induction a as [|[s c] a IH]; intros b Hn Hb; [exact I|].
  destruct b as [|[s' c'] b]; [discriminate Hn|]. cbn [names map fst] in Hn. injection Hn as -> Hn.
  destruct a as [|[t x] a'].
  - exact I.
  - destruct b as [|[t' x'] b']; [discriminate Hn|].
    cbn [map fst] in Hn. injection Hn as -> Hn'.
    cbn [ksorted fst] in Hb |- *. destruct Hb as [H1 H2]. split; [exact H1|].
    apply (IH ((t', x') :: b')); [cbn [names map fst]; f_equal; exact Hn'|exact H2].
Qed.

Lemma fs_set_same : forall d s c, ksorted d -> fs_get d s = Some c -> fs_set d s c = d.
Proof.
  induction d as [|[s' b] d IH]; intros s c Hs H; [discriminate|].
  cbn [fs_get] in H. cbn [fs_set]. destruct (s =? s') eqn:E.
  - apply N.eqb_eq in E. subst s'. injection H as ->. reflexivity.
  - assert (Hlt : s' < s) by (apply (ksorted_lt d (s', b) s Hs); eapply fs_get_in_names; exact H).
    assert (E2 : (s <? s') = false) by (apply N.ltb_ge; lia). rewrite E2.
    f_equal. apply IH; [eapply ksorted_tail; exact Hs|exact H].
Qed.

Lemma fs_set_set : forall d s a b, fs_set (fs_set d s a) s b = fs_set d s b.
Proof.
  induction d as [|[s' b'] d IH]; intros s a b.
  - cbn [fs_set]. rewrite N.eqb_refl. reflexivity.
  - cbn [fs_set]. destruct (s =? s') eqn:E1.
    + cbn [fs_set]. rewrite N.eqb_refl. reflexivity.
    + destruct (s <? s') eqn:E2.
      * cbn [fs_set]. rewrite N.eqb_refl. reflexivity.
      * cbn [fs_set]. rewrite E1, E2. f_equal. apply IH.
Qed.

Lemma names_fs_set_present : forall d s c b, ksorted d -> fs_get d s = Some c -> names (fs_set d s b) = names d.
Proof.
  induction d as [|[s' b'] d IH]; intros s c b Hs H; [discriminate|].
  cbn [fs_get] in H. cbn [fs_set]. destruct (s =? s') eqn:E.
  - apply N.eqb_eq in E. subst s'. reflexivity.
  - assert (Hlt : s' < s) by (apply (ksorted_lt d (s', b') s Hs); eapply fs_get_in_names; exact H).
    assert (E2 : (s <? s') = false) by (apply N.ltb_ge; lia). rewrite E2.
    cbn [names map fst]. f_equal. apply (IH s c b); [eapply ksorted_tail; exact Hs|exact H].
Qed.

Lemma apply_write_present d s c0 x : fs_get d s = Some c0 -> apply_mut d (MWrite s x) = fs_set d s (c0 ++ x).
Proof. intros H. cbn [apply_mut]. unfold fs_upd. rewrite H. reflexivity. Qed.

Lemma apply_writes_fs : forall ys d s c0,
  ksorted d -> fs_get d s = Some c0 ->
  apply_muts d (map (MWrite s) ys) = fs_set d s (c0 ++ concat ys).
Proof.
  induction ys as [|y ys IH]; intros d s c0 Hs H.
  - cbn [map concat]. rewrite app_nil_r. unfold apply_muts. cbn [fold_left]. symmetry. apply fs_set_same; assumption.
  - cbn [map]. rewrite apply_muts_cons, (apply_write_present d s c0 y H).
    rewrite (IH (fs_set d s (c0 ++ y)) s (c0 ++ y)).
    + rewrite fs_set_set. cbn [concat]. rewrite <- app_assoc. reflexivity.
    + apply ksorted_fs_set. exact Hs.
    + rewrite fs_get_set, N.eqb_refl. reflexivity.
Qed.

(* ---------- histories of appended writes ---------- *)
Fixpoint wtail (c : bytes) (ws : list bytes) : list bytes :=
  match ws with [] => [] | w :: r => (c ++ w) :: wtail (c ++ w) r end.
Definition whist (c : bytes) (ws : list bytes) : list bytes := c :: wtail c ws.

Lemma wtail_snoc : forall ws c x, wtail c (ws ++ [x]) = wtail c ws ++ [c ++ concat ws ++ x].
Proof.
  induction ws as [|w ws IH]; intros c x.
  - cbn. reflexivity.
  - cbn [app wtail concat]. rewrite IH. rewrite <- !app_assoc. reflexivity.
Qed.

Lemma cand_whist : forall ws c0 c,
  cand (whist c0 ws) c ->
  exists k n, (k <= length ws)%nat /\ c = c0 ++ concat (firstn k ws) ++ firstn n (nth k ws []).
Proof.
  induction ws as [|w ws IH]; intros c0 c H.
  - unfold whist in H. cbn [wtail] in H. apply cand_single in H. subst c.
    exists 0%nat, 0%nat. split; [cbn; lia|]. cbn. rewrite app_nil_r. reflexivity.
  - unfold whist in H. cbn [wtail] in H. inversion H; subst.
    + exists 0%nat, 0%nat. split; [cbn; lia|]. cbn. rewrite app_nil_r. reflexivity.
    + match goal with E : _ ++ _ = c0 ++ w |- _ => apply app_inv_head in E; subst end.
      exists 0%nat, n. split; [cbn; lia|]. reflexivity.
    + match goal with Hc : cand _ c |- _ => destruct (IH (c0 ++ w) c Hc) as (k & n & Hk & E) end.
      exists (S k), n. split; [cbn [length]; lia|]. rewrite E. cbn [firstn concat nth]. rewrite <- !app_assoc. reflexivity.
Qed.

(* ---------- blocks of mutations ---------- *)
Inductive block := BCreate (s : N) | BUnlink (s : N) | BWrites (s : N) (xs : list bytes) | BTruncSync (s n : N).

Definition block_muts (b : block) : list mut :=
  match b with
  | BCreate s => [MCreate s; MDirSync]
  | BUnlink s => [MUnlink s; MDirSync]
  | BWrites s xs => map (MWrite s) xs ++ [MSync s]
  | BTruncSync s n => tmuts s n
  end.

Definition block_ok (d : fs) (b : block) : Prop :=
  match b with
  | BCreate s => fs_get d s = None
  | BUnlink _ => True
  | BWrites s _ => exists c0, fs_get d s = Some c0
  | BTruncSync s n => exists c, fs_get d s = Some c /\ n < blen c
  end.

Fixpoint blocks_ok (d : fs) (bs : list block) : Prop :=
  match bs with
  | [] => True
  | b :: r => block_ok d b /\ blocks_ok (apply_muts d (block_muts b)) r
  end.

Definition blocks_muts (bs : list block) : list mut := concat (map block_muts bs).

Definition in_prefix (d : fs) (ms : list mut) (d' : fs) : Prop :=
  exists j cut, (j <= length ms)%nat /\ cut_ok ms j cut /\ d' = crash_fs d ms j cut.

Lemma in_prefix_none d ms j d' : (j <= length ms)%nat -> d' = crash_fs d ms j None -> in_prefix d ms d'.
Proof. intros Hj E. exists j, None. split; [exact Hj|]. split; [exact I|exact E]. Qed.

Lemma crash_fs_none d ms j : crash_fs d ms j None = apply_muts d (firstn j ms).
Proof. reflexivity. Qed.

Definition block_result (b : block) (P : pfs) (d : fs) : Prop :=
  (forall j d', (j <= length (block_muts b))%nat -> crash_cache (run_pfs P (firstn j (block_muts b))) d' ->
                in_prefix d (block_muts b) d') /\
  pclean (run_pfs P (block_muts b)) /\ p_vol (run_pfs P (block_muts b)) = apply_muts d (block_muts b).

Lemma keys_unique d' s c1 c2 : ksorted d' -> In (s, c1) d' -> In (s, c2) d' -> c1 = c2.
Proof. intros Hs H1 H2. pose proof (in_fs_get d' s c1 Hs H1). pose proof (in_fs_get d' s c2 Hs H2). congruence. Qed.

(* create + directory sync *)
Lemma block_create s P d : pclean P -> p_vol P = d -> fs_get d s = None -> block_result (BCreate s) P d.
Proof.
  intros Hc Hv Hnone. destruct Hc as [Hd Hs Hf]. rewrite Hv in *.
  assert (E1 : papply P (MCreate s) = mkP (fs_set d s []) (p_dirs P ++ [names (fs_set d s [])]) (fh_set (p_files P) s [[]])).
  { unfold papply. rewrite Hv, Hnone. cbn [apply_mut]. rewrite Hnone. reflexivity. }
  assert (Hfiles1 : forall t b, fs_get (fs_set d s []) t = Some b -> fh_set (p_files P) s [[]] t = [b]).
  { intros t b H. rewrite fs_get_set in H. unfold fh_set. destruct (t =? s); [injection H as <-; reflexivity|apply Hf; exact H]. }
  assert (Hvol1 : apply_mut d (MCreate s) = fs_set d s []) by (cbn [apply_mut]; rewrite Hnone; reflexivity).
  split; [|split].
  - intros j d' Hj Hcc. cbn [block_muts length] in Hj. cbn [block_muts] in Hcc |- *.
    destruct j as [|[|[|j]]]; [| | |lia].
    + cbn [firstn run_pfs fold_left] in Hcc.
      pose proof (clean_states P d' (Build_pclean P ltac:(rewrite Hv; exact Hd) ltac:(rewrite Hv; exact Hs) ltac:(rewrite Hv; exact Hf)) Hcc) as E.
      apply (in_prefix_none _ _ 0%nat); [cbn; lia|]. rewrite E, Hv. reflexivity.
    + cbn [firstn run_pfs fold_left] in Hcc. rewrite E1 in Hcc.
      destruct Hcc as (D & HD & Hn & Hcand). cbn [p_dirs p_files] in *. rewrite Hd in HD.
      destruct HD as [<-|[<-|[]]].
      * (* the new directory entry did not survive *)
        apply (in_prefix_none _ _ 0%nat); [cbn; lia|]. rewrite crash_fs_none. cbn [firstn]. unfold apply_muts. cbn [fold_left].
        apply (cache_state_eq (mkP (fs_set d s []) [] (fh_set (p_files P) s [[]]))); try assumption.
        intros t b Hb c Hc. cbn [p_files] in Hc. unfold fh_set in Hc.
        destruct (t =? s) eqn:Et; [apply N.eqb_eq in Et; subst t; congruence|].
        rewrite (Hf t b Hb) in Hc. apply cand_single. exact Hc.
      * apply (in_prefix_none _ _ 1%nat); [cbn; lia|]. rewrite crash_fs_none. cbn [firstn]. unfold apply_muts. cbn [fold_left]. rewrite Hvol1.
        apply (cache_state_eq (mkP (fs_set d s []) [] (fh_set (p_files P) s [[]]))); try assumption.
        -- apply ksorted_fs_set. exact Hs.
        -- intros t b Hb c Hc. cbn [p_files] in Hc. rewrite (Hfiles1 t b Hb) in Hc. apply cand_single. exact Hc.
    + cbn [firstn run_pfs fold_left] in Hcc. rewrite E1 in Hcc. unfold papply at 1 in Hcc. cbn [p_vol p_dirs p_files apply_mut] in Hcc.
      assert (Hcl : pclean (mkP (fs_set d s []) [names (fs_set d s [])] (fh_set (p_files P) s [[]]))).
      { split; cbn [p_vol p_dirs p_files]; [reflexivity|apply ksorted_fs_set; exact Hs|exact Hfiles1]. }
      pose proof (clean_states _ d' Hcl Hcc) as E. cbn [p_vol] in E.
      apply (in_prefix_none _ _ 2%nat); [cbn; lia|]. rewrite crash_fs_none. cbn [firstn]. unfold apply_muts. cbn [fold_left]. rewrite Hvol1. exact E.
  - cbn [block_muts run_pfs fold_left]. rewrite E1. unfold papply. cbn [p_vol p_dirs p_files apply_mut].
    split; cbn [p_vol p_dirs p_files]; [reflexivity|apply ksorted_fs_set; exact Hs|exact Hfiles1].
  - cbn [block_muts run_pfs fold_left]. rewrite E1. unfold papply. cbn [p_vol apply_mut]. unfold apply_muts. cbn [fold_left]. rewrite Hvol1. reflexivity.
Qed.

(* unlink + directory sync *)
Lemma block_unlink s P d : pclean P -> p_vol P = d -> block_result (BUnlink s) P d.
Proof.
  intros Hc Hv. destruct Hc as [Hd Hs Hf]. rewrite Hv in *.
  assert (E1 : papply P (MUnlink s) = mkP (fs_del d s) (p_dirs P ++ [names (fs_del d s)]) (p_files P)).
  { unfold papply. rewrite Hv. reflexivity. }
  assert (Hfiles1 : forall t b, fs_get (fs_del d s) t = Some b -> p_files P t = [b]).
  { intros t b H. rewrite fs_get_del in H by exact Hs. destruct (t =? s); [discriminate|apply Hf; exact H]. }
  split; [|split].
  - intros j d' Hj Hcc. cbn [block_muts length] in Hj. cbn [block_muts] in Hcc |- *.
    destruct j as [|[|[|j]]]; [| | |lia].
    + cbn [firstn run_pfs fold_left] in Hcc.
      pose proof (clean_states P d' (Build_pclean P ltac:(rewrite Hv; exact Hd) ltac:(rewrite Hv; exact Hs) ltac:(rewrite Hv; exact Hf)) Hcc) as E.
      apply (in_prefix_none _ _ 0%nat); [cbn; lia|]. rewrite E, Hv. reflexivity.
    + cbn [firstn run_pfs fold_left] in Hcc. rewrite E1 in Hcc.
      destruct Hcc as (D & HD & Hn & Hcand). cbn [p_dirs p_files] in *. rewrite Hd in HD.
      destruct HD as [<-|[<-|[]]].
      * (* the removal did not reach the disk: the file is still listed, with its content *)
        apply (in_prefix_none _ _ 0%nat); [cbn; lia|]. rewrite crash_fs_none. cbn [firstn]. unfold apply_muts. cbn [fold_left].
        apply (cache_state_eq P); try assumption.
        intros t b Hb c Hc. rewrite (Hf t b Hb) in Hc. apply cand_single. exact Hc.
      * apply (in_prefix_none _ _ 1%nat); [cbn; lia|]. rewrite crash_fs_none. cbn [firstn]. unfold apply_muts. cbn [fold_left apply_mut].
        apply (cache_state_eq P); try assumption.
        -- apply ksorted_fs_del. exact Hs.
        -- intros t b Hb c Hc. rewrite (Hfiles1 t b Hb) in Hc. apply cand_single. exact Hc.
    + cbn [firstn run_pfs fold_left] in Hcc. rewrite E1 in Hcc. unfold papply at 1 in Hcc. cbn [p_vol p_dirs p_files apply_mut] in Hcc.
      assert (Hcl : pclean (mkP (fs_del d s) [names (fs_del d s)] (p_files P))).
      { split; cbn [p_vol p_dirs p_files]; [reflexivity|apply ksorted_fs_del; exact Hs|exact Hfiles1]. }
      pose proof (clean_states _ d' Hcl Hcc) as E. cbn [p_vol] in E.
      apply (in_prefix_none _ _ 2%nat); [cbn; lia|]. rewrite crash_fs_none. cbn [firstn]. unfold apply_muts. cbn [fold_left apply_mut]. exact E.
  - cbn [block_muts run_pfs fold_left]. rewrite E1. unfold papply. cbn [p_vol p_dirs p_files apply_mut].
    split; cbn [p_vol p_dirs p_files]; [reflexivity|apply ksorted_fs_del; exact Hs|exact Hfiles1].
  - cbn [block_muts run_pfs fold_left]. rewrite E1. unfold papply. cbn [p_vol apply_mut]. reflexivity.
Qed.

(* writes into one file, then its fsync *)
Record wst (P : pfs) (d : fs) (s : N) (c0 : bytes) (ws : list bytes) : Prop := {
  ws_dirs : p_dirs P = [names d];
  ws_sorted : ksorted d;
  ws_get : fs_get d s = Some c0;
  ws_vol : p_vol P = fs_set d s (c0 ++ concat ws);
  ws_hist : p_files P s = whist c0 ws;
  ws_other : forall t b, t <> s -> fs_get d t = Some b -> p_files P t = [b] }.

Lemma wst_init P d s c0 : pclean P -> p_vol P = d -> fs_get d s = Some c0 -> wst P d s c0 [].
Proof.
  intros [Hd Hs Hf] Hv Hg. rewrite Hv in *. split; try assumption.
  - cbn [concat]. rewrite app_nil_r, fs_set_same by assumption. exact Hv.
  - rewrite (Hf s c0 Hg). reflexivity.
  - intros t b _ H. apply Hf. exact H.
Qed.

Lemma wst_step P d s c0 ws x : wst P d s c0 ws -> wst (papply P (MWrite s x)) d s c0 (ws ++ [x]).
Proof.
  intros [Hd Hs Hg Hv Hh Ho].
  assert (Hcur : fs_get (p_vol P) s = Some (c0 ++ concat ws)) by (rewrite Hv, fs_get_set, N.eqb_refl; reflexivity).
  unfold papply. rewrite Hcur. split; cbn [p_vol p_dirs p_files]; try assumption.
  - rewrite (apply_write_present _ _ _ x Hcur), Hv, fs_set_set. rewrite concat_app. cbn [concat]. rewrite app_nil_r, <- app_assoc. reflexivity.
  - unfold fh_set. rewrite N.eqb_refl, Hh. unfold whist. rewrite wtail_snoc. cbn [app]. rewrite <- app_assoc. reflexivity.
  - intros t b Hne H. unfold fh_set. assert (E : (t =? s) = false) by (apply N.eqb_neq; exact Hne). rewrite E. apply Ho; assumption.
Qed.

Lemma wst_run : forall xs P d s c0 ws,
  wst P d s c0 ws -> wst (run_pfs P (map (MWrite s) xs)) d s c0 (ws ++ xs).
Proof.
  induction xs as [|x xs IH]; intros P d s c0 ws H.
  - cbn. rewrite app_nil_r. exact H.
  - cbn [map run_pfs fold_left]. fold (run_pfs (papply P (MWrite s x)) (map (MWrite s) xs)).
    replace (ws ++ x :: xs) with ((ws ++ [x]) ++ xs) by (rewrite <- app_assoc; reflexivity).
    apply IH. apply wst_step. exact H.
Qed.

Lemma wst_states P d s c0 ws d' :
  wst P d s c0 ws -> crash_cache P d' -> exists c, cand (whist c0 ws) c /\ d' = fs_set d s c.
Proof.
  intros [Hd Hs Hg Hv Hh Ho] (D & HD & Hn & Hcand). rewrite Hd in HD. destruct HD as [<-|[]].
  assert (Hsd' : ksorted d') by (eapply ksorted_names; [exact Hn|exact Hs]).
  assert (Hin : In s (names d')) by (rewrite Hn; eapply fs_get_in_names; exact Hg).
  destruct (in_names_fs_get _ _ Hin) as (cs & Hcs).
  assert (Hincs : In (s, cs) d').
  { clear - Hcs. induction d' as [|[t b] d' IH]; [discriminate|]. cbn [fs_get] in Hcs.
    destruct (s =? t) eqn:E; [apply N.eqb_eq in E; subst; injection Hcs as ->; left; reflexivity|right; apply IH; exact Hcs]. }
  exists cs. split; [rewrite <- Hh; apply Hcand; exact Hincs|].
  apply fs_ext.
  - rewrite Hn. symmetry. eapply names_fs_set_present; eassumption.
  - apply ksorted_fs_set. exact Hs.
  - intros t c Htc. rewrite fs_get_set. destruct (t =? s) eqn:E.
    + apply N.eqb_eq in E. subst t. f_equal. eapply keys_unique; eassumption.
    + assert (Hint : In t (names d)) by (rewrite <- Hn; apply in_map_iff; exists (t, c); split; [reflexivity|exact Htc]).
      destruct (in_names_fs_get _ _ Hint) as (b & Hb). rewrite Hb. f_equal.
      apply N.eqb_neq in E. pose proof (Hcand t c Htc) as Hc. rewrite (Ho t b E Hb) in Hc. symmetry. apply cand_single. exact Hc.
Qed.

Lemma crash_fs_writes_none d s c0 xs tl k :
  ksorted d -> fs_get d s = Some c0 -> (k <= length xs)%nat ->
  crash_fs d (map (MWrite s) xs ++ tl) k None = fs_set d s (c0 ++ concat (firstn k xs)).
Proof.
  intros Hs Hg Hk. rewrite crash_fs_none.
  rewrite firstn_app, map_length. replace (k - length xs)%nat with 0%nat by lia. cbn [firstn]. rewrite app_nil_r.
  rewrite firstn_map. apply apply_writes_fs; assumption.
Qed.

Lemma crash_fs_writes_cut d s c0 xs tl k x n :
  ksorted d -> fs_get d s = Some c0 -> nth_error xs k = Some x ->
  crash_fs d (map (MWrite s) xs ++ tl) k (Some n) = fs_set d s (c0 ++ concat (firstn k xs) ++ firstn (N.to_nat n) x).
Proof.
  intros Hs Hg Hx.
  assert (Hk : (k < length xs)%nat) by (apply nth_error_Some; congruence).
  unfold crash_fs.
  rewrite nth_error_app1 by (rewrite map_length; exact Hk). rewrite (map_nth_error _ _ _ Hx).
  rewrite firstn_app, map_length. replace (k - length xs)%nat with 0%nat by lia. cbn [firstn]. rewrite app_nil_r.
  rewrite firstn_map, (apply_writes_fs _ d s c0 Hs Hg).
  rewrite (apply_write_present _ s (c0 ++ concat (firstn k xs))) by (rewrite fs_get_set, N.eqb_refl; reflexivity).
  rewrite fs_set_set, <- app_assoc. reflexivity.
Qed.

Lemma concat_firstn_S {A} : forall (xs : list (list A)) k, (k < length xs)%nat ->
  concat (firstn (S k) xs) = concat (firstn k xs) ++ nth k xs [].
Proof.
  induction xs as [|x xs IH]; intros k H; [cbn in H; lia|].
  destruct k as [|k]; [cbn; rewrite app_nil_r; reflexivity|].
  cbn [firstn concat nth]. cbn [firstn] in IH. rewrite IH by (cbn [length] in H; lia). rewrite app_assoc. reflexivity.
Qed.

Lemma block_writes s xs P d :
  pclean P -> p_vol P = d -> (exists c0, fs_get d s = Some c0) -> block_result (BWrites s xs) P d.
Proof.
  intros Hc Hv (c0 & Hg).
  pose proof (wst_init P d s c0 Hc Hv Hg) as W0.
  assert (Hs : ksorted d) by (destruct Hc as [_ Hs _]; rewrite Hv in Hs; exact Hs).
  assert (Wj : forall j, wst (run_pfs P (map (MWrite s) (firstn j xs))) d s c0 (firstn j xs)).
  { intros j. apply (wst_run (firstn j xs) P d s c0 [] W0). }
  (* the state after the fsync *)
  set (cur := c0 ++ concat xs).
  assert (Hfull : run_pfs P (block_muts (BWrites s xs))
                  = papply (run_pfs P (map (MWrite s) xs)) (MSync s)).
  { cbn [block_muts]. unfold run_pfs. rewrite fold_left_app. reflexivity. }
  pose proof (Wj (length xs)) as Wn. rewrite firstn_all in Wn. destruct Wn as [Hd _ _ Hvn Hh Ho].
  assert (Hcurget : fs_get (p_vol (run_pfs P (map (MWrite s) xs))) s = Some cur)
    by (rewrite Hvn, fs_get_set, N.eqb_refl; reflexivity).
  assert (Hclean : pclean (run_pfs P (block_muts (BWrites s xs))) /\
                   p_vol (run_pfs P (block_muts (BWrites s xs))) = fs_set d s cur).
  { rewrite Hfull. unfold papply. rewrite Hcurget. cbn [apply_mut]. split; [|cbn [p_vol]; exact Hvn].
    split; cbn [p_vol p_dirs p_files].
    - rewrite Hd, Hvn. f_equal. symmetry. eapply names_fs_set_present; eassumption.
    - rewrite Hvn. apply ksorted_fs_set. exact Hs.
    - intros t b Hb. rewrite Hvn, fs_get_set in Hb. unfold fh_set. destruct (t =? s) eqn:E.
      + injection Hb as <-. reflexivity.
      + apply N.eqb_neq in E. apply Ho; assumption. }
  assert (Hvolfull : apply_muts d (block_muts (BWrites s xs)) = fs_set d s cur).
  { cbn [block_muts]. rewrite apply_muts_app, (apply_writes_fs xs d s c0 Hs Hg). reflexivity. }
  split; [|split; [apply Hclean|rewrite Hvolfull; apply Hclean]].
  intros j d' Hj Hcc.
  assert (Hlen : length (block_muts (BWrites s xs)) = S (length xs)).
  { cbn [block_muts]. rewrite app_length, map_length. cbn [length]. lia. }
  rewrite Hlen in Hj.
  destruct (Nat.le_gt_cases j (length xs)) as [Hle|Hgt].
  - (* inside the writes: some prefix of the un-synced bytes survives *)
    assert (Hf : firstn j (block_muts (BWrites s xs)) = map (MWrite s) (firstn j xs)).
    { cbn [block_muts]. rewrite firstn_app, map_length. replace (j - length xs)%nat with 0%nat by lia.
      cbn [firstn]. rewrite app_nil_r. apply firstn_map. }
    rewrite Hf in Hcc.
    destruct (wst_states _ d s c0 _ d' (Wj j) Hcc) as (c & Hcand & ->).
    destruct (cand_whist _ _ _ Hcand) as (k & n & Hk & ->).
    rewrite firstn_length, Nat.min_l in Hk by exact Hle.
    rewrite firstn_firstn, Nat.min_l by exact Hk.
    destruct (Nat.eq_dec k j) as [->|Hne].
    + rewrite nth_overflow by (rewrite firstn_length; lia). rewrite firstn_nil, app_nil_r.
      apply (in_prefix_none _ _ j); [lia|]. cbn [block_muts]. rewrite (crash_fs_writes_none d s c0) by assumption. reflexivity.
    + assert (Hkj : (k < j)%nat) by lia.
      assert (Hnth : nth k (firstn j xs) [] = nth k xs []).
      { rewrite <- (firstn_skipn j xs) at 2. rewrite app_nth1 by (rewrite firstn_length; lia). reflexivity. }
      rewrite Hnth. set (x := nth k xs []).
      assert (Hx : nth_error xs k = Some x) by (apply nth_error_nth'; lia).
      destruct (Nat.lt_ge_cases n (length x)) as [Hn|Hn].
      * exists k, (Some (N.of_nat n)). split; [lia|]. split.
        -- cbn [cut_ok block_muts]. exists s, x. split; [|unfold blen; lia].
           rewrite nth_error_app1 by (rewrite map_length; lia). apply map_nth_error. exact Hx.
        -- cbn [block_muts]. rewrite (crash_fs_writes_cut d s c0 xs _ k x) by assumption. rewrite Nat2N.id. reflexivity.
      * rewrite (firstn_all2 x Hn).
        apply (in_prefix_none _ _ (S k)); [lia|]. cbn [block_muts].
        rewrite (crash_fs_writes_none d s c0) by (assumption || lia).
        f_equal. f_equal. symmetry. apply (concat_firstn_S xs k). exact (Nat.lt_le_trans _ _ _ Hkj Hle).
  - (* after the fsync *)
    assert (Hj2 : j = S (length xs)) by lia. subst j.
    rewrite <- Hlen, firstn_all in Hcc.
    pose proof (clean_states _ d' (proj1 Hclean) Hcc) as E. rewrite (proj2 Hclean) in E.
    apply (in_prefix_none _ _ (length (block_muts (BWrites s xs)))); [lia|].
    rewrite crash_fs_none, firstn_all, Hvolfull. exact E.
Qed.

(* ftruncate, then fsync of the same file (logFile.Truncate since 09d27e0) *)
Lemma file_states P d s c0 d' :
  p_dirs P = [names d] -> ksorted d -> fs_get d s = Some c0 ->
  (forall t b, t <> s -> fs_get d t = Some b -> p_files P t = [b]) ->
  crash_cache P d' -> exists x, cand (p_files P s) x /\ d' = fs_set d s x.
Proof.
  intros Hd Hs Hg Ho (D & HD & Hn & Hcand). rewrite Hd in HD. destruct HD as [<-|[]].
  assert (Hsd' : ksorted d') by (eapply ksorted_names; [exact Hn|exact Hs]).
  assert (Hin : In s (names d')) by (rewrite Hn; eapply fs_get_in_names; exact Hg).
  destruct (in_names_fs_get _ _ Hin) as (cs & Hcs).
  assert (Hincs : In (s, cs) d').
  { clear - Hcs. induction d' as [|[t b] d' IH]; [discriminate|]. cbn [fs_get] in Hcs.
    destruct (s =? t) eqn:E; [apply N.eqb_eq in E; subst; injection Hcs as ->; left; reflexivity|right; apply IH; exact Hcs]. }
  exists cs. split; [apply Hcand; exact Hincs|].
  apply fs_ext.
  - rewrite Hn. symmetry. eapply names_fs_set_present; eassumption.
  - apply ksorted_fs_set. exact Hs.
  - intros t c Htc. rewrite fs_get_set. destruct (t =? s) eqn:E.
    + apply N.eqb_eq in E. subst t. f_equal. eapply keys_unique; eassumption.
    + assert (Hint : In t (names d)) by (rewrite <- Hn; apply in_map_iff; exists (t, c); split; [reflexivity|exact Htc]).
      destruct (in_names_fs_get _ _ Hint) as (b & Hb). rewrite Hb. f_equal.
      apply N.eqb_neq in E. pose proof (Hcand t c Htc) as Hc. rewrite (Ho t b E Hb) in Hc. symmetry. apply cand_single. exact Hc.
Qed.

Lemma cand_pair_shorter (c c' x : bytes) : (length c' < length c)%nat -> cand [c; c'] x -> x = c \/ x = c'.
Proof.
  intros Hl H. inversion H; subst.
  - left. reflexivity.
  - exfalso. rewrite app_length in Hl. lia.
  - right. apply cand_single. assumption.
Qed.

Lemma block_truncsync s n P d :
  pclean P -> p_vol P = d -> (exists c, fs_get d s = Some c /\ n < blen c) -> block_result (BTruncSync s n) P d.
Proof.
  intros Hc Hv (c & Hg & Hn). destruct Hc as [Hd Hs Hf]. rewrite Hv in *.
  set (c' := firstn (N.to_nat n) c).
  assert (Hlen : (length c' < length c)%nat) by (unfold c', blen in *; rewrite firstn_length; lia).
  assert (E1 : papply P (MTruncate s n) = mkP (fs_set d s c') (p_dirs P) (fh_set (p_files P) s (p_files P s ++ [c']))).
  { unfold papply. rewrite Hv, Hg. cbn [apply_mut]. unfold fs_upd. rewrite Hg. reflexivity. }
  assert (Hvol1 : apply_mut d (MTruncate s n) = fs_set d s c') by (cbn [apply_mut]; unfold fs_upd; rewrite Hg; reflexivity).
  assert (E2 : run_pfs P (tmuts s n) = mkP (fs_set d s c') (p_dirs P) (fh_set (fh_set (p_files P) s (p_files P s ++ [c'])) s [c'])).
  { unfold tmuts. cbn [run_pfs fold_left]. rewrite E1. unfold papply. cbn [p_vol p_dirs p_files apply_mut].
    rewrite fs_get_set, N.eqb_refl. reflexivity. }
  assert (Hcl2 : pclean (run_pfs P (tmuts s n))).
  { rewrite E2. split; cbn [p_vol p_dirs p_files].
    - rewrite Hd. f_equal. symmetry. eapply names_fs_set_present; eassumption.
    - apply ksorted_fs_set. exact Hs.
    - intros t b Hb. rewrite fs_get_set in Hb. unfold fh_set. destruct (t =? s) eqn:E.
      + injection Hb as <-. reflexivity.
      + apply Hf. exact Hb. }
  assert (Hvol2 : apply_muts d (tmuts s n) = fs_set d s c').
  { unfold tmuts, apply_muts. cbn [fold_left]. rewrite Hvol1. reflexivity. }
  unfold block_result. cbn [block_muts].
  split; [|split; [exact Hcl2|rewrite E2; cbn [p_vol]; symmetry; exact Hvol2]].
  intros j d' Hj Hcc. unfold tmuts in Hj. cbn [length] in Hj.
  destruct j as [|[|[|j]]]; [| | |lia].
  - cbn [firstn run_pfs fold_left] in Hcc.
    pose proof (clean_states P d' (Build_pclean P ltac:(rewrite Hv; exact Hd) ltac:(rewrite Hv; exact Hs) ltac:(rewrite Hv; exact Hf)) Hcc) as E.
    apply (in_prefix_none _ _ 0%nat); [cbn; lia|]. rewrite E, Hv. reflexivity.
  - (* the ftruncate has been issued, its fsync has not: the old or the new content survives *)
    unfold tmuts in Hcc. cbn [firstn run_pfs fold_left] in Hcc. rewrite E1 in Hcc.
    assert (Ho1 : forall t b, t <> s -> fs_get d t = Some b -> fh_set (p_files P) s (p_files P s ++ [c']) t = [b]).
    { intros t b Hne Hb. unfold fh_set. assert (E : (t =? s) = false) by (apply N.eqb_neq; exact Hne). rewrite E. apply Hf. exact Hb. }
    destruct (file_states (mkP (fs_set d s c') (p_dirs P) (fh_set (p_files P) s (p_files P s ++ [c']))) d s c d' Hd Hs Hg Ho1 Hcc)
      as (x & Hx & ->). cbn [p_files] in Hx.
    unfold fh_set in Hx. rewrite N.eqb_refl, (Hf s c Hg) in Hx. cbn [app] in Hx.
    destruct (cand_pair_shorter c c' x Hlen Hx) as [-> | ->].
      * apply (in_prefix_none _ _ 0%nat); [cbn; lia|]. rewrite crash_fs_none. cbn [firstn]. unfold apply_muts. cbn [fold_left].
        apply fs_set_same; assumption.
      * apply (in_prefix_none _ _ 1%nat); [cbn; lia|]. rewrite crash_fs_none. unfold tmuts. cbn [firstn]. unfold apply_muts. cbn [fold_left].
        symmetry. exact Hvol1.
  - change (firstn 2 (tmuts s n)) with (tmuts s n) in Hcc.
    pose proof (clean_states _ d' Hcl2 Hcc) as E. rewrite E2 in E. cbn [p_vol] in E.
    apply (in_prefix_none _ _ 2%nat); [cbn; lia|]. rewrite crash_fs_none. change (firstn 2 (tmuts s n)) with (tmuts s n).
    rewrite Hvol2. exact E.
Qed.

(* ---------- sequences of blocks ---------- *)
Lemma block_power b P d : pclean P -> p_vol P = d -> block_ok d b -> block_result b P d.
Proof.
  intros Hc Hv Hok. destruct b as [s|s|s xs|s n].
  - apply block_create; assumption.
  - apply block_unlink; assumption.
  - apply block_writes; assumption.
  - apply block_truncsync; assumption.
Qed.

Lemma in_prefix_app_l d mb mr d' : in_prefix d mb d' -> in_prefix d (mb ++ mr) d'.
Proof.
  intros (j & cut & Hj & Hcut & ->). exists j, cut. split; [rewrite app_length; lia|].
  destruct cut as [c|].
  - destruct Hcut as (s & x & Hn & Hc).
    assert (Hlt : (j < length mb)%nat) by (apply nth_error_Some; congruence).
    split.
    + exists s, x. split; [rewrite nth_error_app1 by exact Hlt; exact Hn|exact Hc].
    + unfold crash_fs. rewrite nth_error_app1 by exact Hlt.
      rewrite firstn_app. replace (j - length mb)%nat with 0%nat by lia. cbn [firstn]. rewrite app_nil_r. reflexivity.
  - split; [exact I|]. rewrite !crash_fs_none.
    rewrite firstn_app. replace (j - length mb)%nat with 0%nat by lia. cbn [firstn]. rewrite app_nil_r. reflexivity.
Qed.

Lemma in_prefix_app_r d mb mr d' : in_prefix (apply_muts d mb) mr d' -> in_prefix d (mb ++ mr) d'.
Proof.
  intros (j & cut & Hj & Hcut & ->). exists (length mb + j)%nat, cut. split; [rewrite app_length; lia|]. split.
  - destruct cut as [c|]; [|exact I]. destruct Hcut as (s & x & Hn & Hc). exists s, x. split; [|exact Hc].
    rewrite nth_error_app2 by lia. replace (length mb + j - length mb)%nat with j by lia. exact Hn.
  - rewrite crash_fs_app_ge by lia. replace (length mb + j - length mb)%nat with j by lia. reflexivity.
Qed.

Lemma run_pfs_app P a b : run_pfs P (a ++ b) = run_pfs (run_pfs P a) b.
Proof. unfold run_pfs. apply fold_left_app. Qed.

Theorem pl_blocks : forall bs P d,
  pclean P -> p_vol P = d -> blocks_ok d bs ->
  (forall j d', (j <= length (blocks_muts bs))%nat -> crash_cache (run_pfs P (firstn j (blocks_muts bs))) d' ->
                in_prefix d (blocks_muts bs) d') /\
  pclean (run_pfs P (blocks_muts bs)) /\ p_vol (run_pfs P (blocks_muts bs)) = apply_muts d (blocks_muts bs).
Proof.
  induction bs as [|b bs IH]; intros P d Hc Hv Hok.
  - cbn [blocks_muts map concat]. split; [|split; [exact Hc|exact Hv]].
    intros j d' Hj Hcc. destruct j; [|cbn in Hj; lia]. cbn [firstn run_pfs fold_left] in Hcc.
    apply (in_prefix_none _ _ 0%nat); [cbn; lia|]. rewrite (clean_states P d' Hc Hcc), Hv. reflexivity.
  - destruct Hok as [Hb Hrest].
    destruct (block_power b P d Hc Hv Hb) as (Hst & Hc1 & Hv1).
    change (blocks_muts (b :: bs)) with (block_muts b ++ blocks_muts bs).
    destruct (IH (run_pfs P (block_muts b)) (apply_muts d (block_muts b)) Hc1 Hv1 Hrest) as (Hst2 & Hc2 & Hv2).
    split; [|split].
    + intros j d' Hj Hcc.
      destruct (Nat.le_gt_cases j (length (block_muts b))) as [Hle|Hgt].
      * apply in_prefix_app_l. apply (Hst j d' Hle).
        rewrite firstn_app in Hcc. replace (j - length (block_muts b))%nat with 0%nat in Hcc by lia.
        cbn [firstn] in Hcc. rewrite app_nil_r in Hcc. exact Hcc.
      * apply in_prefix_app_r. apply (Hst2 (j - length (block_muts b))%nat d').
        -- rewrite app_length in Hj. lia.
        -- rewrite firstn_app, (firstn_all2 (block_muts b)) in Hcc by lia. rewrite run_pfs_app in Hcc. exact Hcc.
    + rewrite run_pfs_app. exact Hc2.
    + rewrite run_pfs_app, Hv2, apply_muts_app. reflexivity.
Qed.

(* ---------- the operations of the log are sequences of blocks ---------- *)
Lemma ksorted_dir_of : forall gs s0 t, ksorted (dir_of s0 gs t).
Proof.
  induction gs as [|g rest IH]; intros s0 t; [exact I|].
  destruct rest as [|g2 rest]; [exact I|].
  change (dir_of s0 (g :: g2 :: rest) t) with ((s0, file_of g) :: dir_of (s0 + 1) (g2 :: rest) t).
  specialize (IH (s0 + 1) t).
  destruct (dir_of (s0 + 1) (g2 :: rest) t) as [|[u w] r] eqn:E; [exact I|].
  cbn [ksorted fst]. split; [|exact IH].
  assert (Hin : In u (names (dir_of (s0 + 1) (g2 :: rest) t))) by (rewrite E; left; reflexivity).
  destruct (in_names_fs_get _ _ Hin) as (c & Hc).
  destruct (N.lt_ge_cases s0 u) as [H|H]; [exact H|].
  rewrite fs_get_dir_lt in Hc by lia. discriminate Hc.
Qed.

Lemma unlinks_blocks seqs : flat_map unlink_pair seqs = blocks_muts (map BUnlink seqs).
Proof. induction seqs as [|s r IH]; [reflexivity|]. cbn [flat_map map]. rewrite IH. reflexivity. Qed.

Lemma unlinks_ok : forall seqs d, blocks_ok d (map BUnlink seqs).
Proof. induction seqs as [|s r IH]; intros d; [exact I|]. cbn [map blocks_ok block_ok]. split; [exact I|apply IH]. Qed.

Lemma writes_block s recs : map (wr s) recs ++ [MSync s] = block_muts (BWrites s (map serialize recs)).
Proof. cbn [block_muts]. rewrite map_map. reflexivity. Qed.

Lemma blocks_muts_app a b : blocks_muts (a ++ b) = blocks_muts a ++ blocks_muts b.
Proof. unfold blocks_muts. rewrite map_app, concat_app. reflexivity. Qed.

Lemma blocks_ok_app : forall a b d,
  blocks_ok d a -> blocks_ok (apply_muts d (blocks_muts a)) b -> blocks_ok d (a ++ b).
Proof.
  induction a as [|x a IH]; intros b d Ha Hb; [exact Hb|].
  destruct Ha as [Hx Ha]. cbn [app blocks_ok]. split; [exact Hx|]. apply IH; [exact Ha|].
  change (blocks_muts (x :: a)) with (block_muts x ++ blocks_muts a) in Hb. rewrite apply_muts_app in Hb. exact Hb.
Qed.

Definition op_form (maxsz : N) (lv : live) (op : wal_op) : Prop :=
  exists bs, op_muts repaired maxsz lv op = blocks_muts bs /\ blocks_ok (lv_fs lv) bs /\
             apply_muts (lv_fs lv) (op_muts repaired maxsz lv op) = lv_fs (step_live repaired maxsz lv op).

Lemma op_form_nil maxsz lv op :
  op_muts repaired maxsz lv op = [] -> lv_fs (step_live repaired maxsz lv op) = lv_fs lv -> op_form maxsz lv op.
Proof. intros E1 E2. exists []. rewrite E1, E2. repeat split. Qed.

Lemma op_has_form maxsz lv op :
  0 < maxsz -> good maxsz lv -> valid_op op -> op_form maxsz lv op.
Proof.
  intros Hm [->|(l & s0 & gs & Hl & Hinv)] Hvo.
  - (* before the log exists *)
    destruct op as [recs|k|k|]; try (apply op_form_nil; reflexivity).
    exists [BCreate 0]. unfold op_muts, step_live, op_run. cbn [lv_log lv_fs lv_acked]. rewrite open_log_empty_dir.
    cbn [snd lv_fs]. repeat split.
  - destruct lv as [ol d acked]. cbn [lv_log lv_fs lv_acked] in *. subst ol.
    pose proof (li_fs _ _ _ _ _ _ Hinv) as Hd.
    assert (Hne : gs <> []) by (destruct (li_clean _ _ _ _ _ _ Hinv) as [->|[H _]]; [discriminate|assumption]).
    destruct op as [recs|k|k|].
    + (* Append *)
      destruct Hvo as [Hvr Hroom].
      destruct recs as [|r0 rest].
      { apply op_form_nil; unfold op_muts, step_live, op_run; cbn [lv_log lv_fs lv_acked map log_append fx_guard repaired andb snd]; reflexivity. }
      destruct (exists_last Hne) as (gs0 & g & ->).
      destruct (ids_ok (append_lastid g r0) 0 (map to_wire (r0 :: rest))) eqn:Hids.
      * destruct (append_step maxsz l d acked s0 gs0 g r0 rest Hinv Hvr Hids) as (l' & E & _).
        unfold op_form, op_muts, step_live, op_run. cbn [lv_log lv_fs lv_acked]. rewrite E. cbn [snd lv_fs].
        rewrite Hd.
        destruct (maxsz <=? blen (file_of g)) eqn:Eroll.
        -- (* roll *)
           set (sA := s0 + N.of_nat (length (gs0 ++ [g]))).
           exists [BCreate sA; BWrites sA (map serialize (r0 :: rest))].
           assert (Hpre : apply_muts (dir_of s0 (gs0 ++ [g]) []) [MCreate sA; MDirSync] = dir_of s0 ((gs0 ++ [g]) ++ [[]]) []).
           { unfold apply_muts. cbn [fold_left apply_mut]. unfold sA. rewrite app_length. cbn [length].
             replace (s0 + N.of_nat (length gs0 + 1)) with (s0 + N.of_nat (length gs0) + 1) by lia.
             pose proof (fs_create_next gs0 s0 g) as Hc. cbn [apply_mut] in Hc. exact Hc. }
           split; [|split].
           ++ cbn [blocks_muts map concat block_muts app]. rewrite app_nil_r, map_map. reflexivity.
           ++ cbn [blocks_ok block_ok block_muts]. split; [apply fs_get_dir_gt; unfold sA; lia|].
              split; [|exact I]. rewrite Hpre. unfold sA. rewrite fs_get_dir_last. eauto.
           ++ change ([MCreate sA; MDirSync] ++ map (wr sA) (r0 :: rest) ++ [MSync sA])
                with ([MCreate sA; MDirSync] ++ (map (wr sA) (r0 :: rest) ++ [MSync sA])).
              rewrite apply_muts_app, Hpre, apply_muts_app. unfold sA. rewrite apply_writes. reflexivity.
        -- (* same file *)
           exists [BWrites (s0 + N.of_nat (length gs0)) (map serialize (r0 :: rest))].
           split; [|split].
           ++ cbn [blocks_muts map concat block_muts app]. rewrite app_nil_r, map_map. reflexivity.
           ++ cbn [blocks_ok block_ok]. split; [|exact I]. rewrite fs_get_dir_last. eauto.
           ++ cbn [app]. rewrite apply_muts_app, apply_writes. reflexivity.
      * (* rejected: nothing happens *)
        assert (E : log_append repaired l d (map to_wire (r0 :: rest)) = (1%Z, l, d, [])).
        { pose proof (append_refines maxsz l d acked s0 (gs0 ++ [g]) (r0 :: rest) Hinv Hvr Hroom) as Hrc.
          rewrite <- (accepts_iff maxsz l d acked s0 gs0 g r0 rest Hinv Hroom), Hids in Hrc.
          destruct (linv_parts _ _ _ _ _ _ _ Hinv) as (Hcur & _ & _).
          unfold log_append. cbn [fx_guard repaired andb map]. rewrite Hcur, cf_empty_cur_of.
          assert (Hlast : (if gempty g then (fst (to_wire r0) + two64 - 1) mod two64 else cf_last (cur_of (s0 + N.of_nat (length gs0)) g))
                          = append_lastid g r0).
          { unfold append_lastid. destruct g as [|x g]; [reflexivity|]. rewrite cur_of_cons. cbn [gempty cf_last].
            f_equal. apply last_indep. discriminate. }
          unfold to_wire at 1. cbn [fst].
          change (if gempty g then (rid r0 + two64 - 1) mod two64 else cf_last (cur_of (s0 + N.of_nat (length gs0)) g))
            with (if gempty g then (fst (to_wire r0) + two64 - 1) mod two64 else cf_last (cur_of (s0 + N.of_nat (length gs0)) g)).
          rewrite Hlast.
          change (to_wire r0 :: map to_wire rest) with (map to_wire (r0 :: rest)).
          rewrite Hids. reflexivity. }
        apply op_form_nil; unfold op_muts, step_live, op_run; cbn [lv_log lv_fs lv_acked]; rewrite E; reflexivity.
    + (* Truncate: unlinks from the back, then possibly ftruncate + fsync of the kept file *)
      pose proof (li_clean _ _ _ _ _ _ Hinv) as Hc. pose proof (li_gf _ _ _ _ _ _ Hinv) as Hgf.
      destruct (truncate_step maxsz l d acked s0 gs k Hinv) as (l' & T & Estep & _ & HT & HT0 & HT1).
      unfold op_form, op_muts, step_live, op_run. cbn [lv_log lv_fs lv_acked]. rewrite Estep. cbn [snd lv_fs].
      set (n := gfc_idx k gs) in *.
      pose proof (gfc_idx_lt k gs Hne) as Hn. fold n in Hn.
      set (G := firstn n gs) in *. set (gn := nth n gs []) in *. set (D := skipn (S n) gs) in *.
      assert (Egs : gs = (G ++ [gn]) ++ D).
      { unfold G, gn, D. rewrite <- (firstn_S_nth gs n [] Hn). symmetry. apply firstn_skipn. }
      assert (HlenK : length (G ++ [gn]) = S n).
      { rewrite app_length. unfold G. rewrite firstn_length. cbn [length]. lia. }
      assert (HlenG : length G = n) by (unfold G; rewrite firstn_length; lia).
      set (seqs := rev (map fi_seq (infos_of (s0 + N.of_nat (S n)) D))) in *.
      assert (HU : apply_muts d (flat_map unlink_pair seqs) = dir_of s0 (G ++ [gn]) []).
      { rewrite Hd. rewrite Egs at 1. unfold seqs. rewrite <- HlenK. apply apply_unlinks_back. destruct G; discriminate. }
      destruct HT as [-> | ->].
      * rewrite (HT0 eq_refl), app_nil_r.
        exists (map BUnlink seqs). split; [apply unlinks_blocks|]. split; [apply unlinks_ok|exact HU].
      * destruct (truncate_facts k gs Hc Hgf) as [_ (restgn & Hrest)]. fold n gn in Hrest.
        assert (HT1' : blen (file_of (keep_le k gn)) < blen (file_of gn)) by (apply HT1; unfold tmuts; discriminate).
        exists (map BUnlink seqs ++ [BTruncSync (s0 + N.of_nat n) (blen (file_of (keep_le k gn)))]).
        split; [|split].
        -- rewrite blocks_muts_app, <- unlinks_blocks. cbn [blocks_muts map concat block_muts]. rewrite app_nil_r. reflexivity.
        -- apply blocks_ok_app; [apply unlinks_ok|]. rewrite <- unlinks_blocks, HU. cbn [blocks_ok block_ok]. split; [|exact I].
           exists (file_of gn). split; [|exact HT1']. rewrite <- HlenG, fs_get_dir_last, app_nil_r. reflexivity.
        -- rewrite apply_muts_app, HU. unfold tmuts, apply_muts. cbn [fold_left apply_mut].
           rewrite <- HlenG. rewrite Hrest at 1. apply fs_truncate_last.
    + (* Trim *)
      unfold op_form, op_muts, step_live, op_run. cbn [lv_log lv_fs lv_acked].
      rewrite (trim_step maxsz l d acked s0 gs k Hinv). cbn [snd lv_fs].
      set (n := gfc_idx k gs) in *.
      pose proof (gfc_idx_lt k gs Hne) as Hn. fold n in Hn.
      eexists. split; [apply unlinks_blocks|]. split; [apply unlinks_ok|].
      rewrite Hd.
      replace (dir_of s0 gs []) with (dir_of s0 (firstn n gs ++ skipn n gs) []) by (rewrite firstn_skipn; reflexivity).
      rewrite apply_unlinks_front.
      * rewrite firstn_length, Nat.min_l by lia. reflexivity.
      * intros E. apply (f_equal (@length _)) in E. rewrite skipn_length in E. cbn in E. lia.
    + (* Reopen of a live log *)
      apply op_form_nil; unfold op_muts, step_live, op_run; cbn [lv_log lv_fs lv_acked]; rewrite Hd;
        rewrite open_log_clean by (apply (li_clean _ _ _ _ _ _ Hinv) || apply (li_valid _ _ _ _ _ _ Hinv)); reflexivity.
Qed.

(* ---------- crash_prefix is included in crash_cache ---------- *)
Record pwf (P : pfs) : Prop := {
  pw_dirs : exists pre, p_dirs P = pre ++ [names (p_vol P)];
  pw_sorted : ksorted (p_vol P);
  pw_files : forall s b, fs_get (p_vol P) s = Some b -> exists h, p_files P s = h ++ [b] }.

Lemma pclean_pwf P : pclean P -> pwf P.
Proof.
  intros [Hd Hs Hf]. split; [exists []; exact Hd|exact Hs|].
  intros s b H. exists []. apply Hf. exact H.
Qed.

Lemma cand_last : forall h b, cand (h ++ [b]) b.
Proof. induction h as [|v h IH]; intros b; [apply cand_here|]. cbn [app]. apply cand_later. apply IH. Qed.

Lemma cand_torn_last : forall h b x n, cand ((h ++ [b]) ++ [b ++ x]) (b ++ firstn n x).
Proof.
  induction h as [|v h IH]; intros b x n.
  - cbn [app]. apply cand_torn.
  - cbn [app]. apply cand_later. apply IH.
Qed.

(* the volatile state itself is one of the power-loss states *)
Lemma vol_in_cache P : pwf P -> crash_cache P (p_vol P).
Proof.
  intros [(pre & Hd) Hs Hf]. exists (names (p_vol P)). split; [rewrite Hd; apply in_or_app; right; left; reflexivity|].
  split; [reflexivity|]. intros s c Hin.
  destruct (Hf s c (in_fs_get _ _ _ Hs Hin)) as (h & ->). apply cand_last.
Qed.

Lemma papply_vol P m : p_vol (papply P m) = apply_mut (p_vol P) m.
Proof.
  destruct m as [s|s x|s|s n|s| |s n]; unfold papply; cbn [apply_mut]; unfold fs_upd;
    try (destruct (fs_get (p_vol P) s); reflexivity); reflexivity.
Qed.

Lemma run_pfs_vol : forall ms P, p_vol (run_pfs P ms) = apply_muts (p_vol P) ms.
Proof.
  induction ms as [|m ms IH]; intros P; [reflexivity|].
  cbn [run_pfs fold_left]. fold (run_pfs (papply P m) ms). rewrite IH, papply_vol. reflexivity.
Qed.

Lemma pwf_upd P s b h newc :
  pwf P -> fs_get (p_vol P) s = Some b ->
  pwf (mkP (fs_set (p_vol P) s newc) (p_dirs P) (fh_set (p_files P) s (h ++ [newc]))).
Proof.
  intros [(pre & Hd) Hs Hf] Hg. split; cbn [p_vol p_dirs p_files].
  - exists pre. rewrite Hd. f_equal. f_equal. symmetry. eapply names_fs_set_present; eassumption.
  - apply ksorted_fs_set. exact Hs.
  - intros t c H. rewrite fs_get_set in H. unfold fh_set. destruct (t =? s).
    + injection H as <-. eauto.
    + apply Hf. exact H.
Qed.

Lemma pwf_papply P m : pwf P -> pwf (papply P m).
Proof.
  intros Hw. pose proof Hw as [(pre & Hd) Hs Hf].
  destruct m as [s|s x|s|s n|s| |s n]; unfold papply.
  - destruct (fs_get (p_vol P) s) eqn:G; [exact Hw|]. cbn [apply_mut]. rewrite G.
    split; cbn [p_vol p_dirs p_files].
    + exists (p_dirs P). reflexivity.
    + apply ksorted_fs_set. exact Hs.
    + intros t c H. rewrite fs_get_set in H. unfold fh_set. destruct (t =? s).
      * injection H as <-. exists []. reflexivity.
      * apply Hf. exact H.
  - destruct (fs_get (p_vol P) s) eqn:G; [|exact Hw].
    rewrite (apply_write_present _ _ _ x G). apply (pwf_upd P s b (p_files P s) (b ++ x) Hw G).
  - destruct (fs_get (p_vol P) s) eqn:G; [|exact Hw]. cbn [apply_mut].
    rewrite <- (fs_set_same (p_vol P) s b Hs G) at 1. apply (pwf_upd P s b [] b Hw G).
  - destruct (fs_get (p_vol P) s) eqn:G; [|exact Hw]. cbn [apply_mut]. unfold fs_upd. rewrite G.
    apply (pwf_upd P s b (p_files P s) (firstn (N.to_nat n) b) Hw G).
  - cbn [apply_mut]. split; cbn [p_vol p_dirs p_files].
    + exists (p_dirs P). reflexivity.
    + apply ksorted_fs_del. exact Hs.
    + intros t c H. rewrite fs_get_del in H by exact Hs. destruct (t =? s); [discriminate|apply Hf; exact H].
  - cbn [apply_mut]. split; cbn [p_vol p_dirs p_files]; [exists []; reflexivity|exact Hs|exact Hf].
  - destruct (fs_get (p_vol P) s) eqn:G; [|exact Hw]. cbn [apply_mut]. unfold fs_upd. rewrite G.
    apply (pwf_upd P s b (p_files P s) (firstn (N.to_nat n) b) Hw G).
Qed.

Lemma pwf_run : forall ms P, pwf P -> pwf (run_pfs P ms).
Proof.
  induction ms as [|m ms IH]; intros P H; [exact H|]. cbn [run_pfs fold_left]. apply IH. apply pwf_papply. exact H.
Qed.

(* a torn write is between the last two versions of its file *)
Lemma torn_in_cache P s x n :
  pwf P -> crash_cache (papply P (MWrite s x)) (apply_mut (p_vol P) (MWrite s (firstn n x))).
Proof.
  intros Hw. pose proof Hw as [(pre & Hd) Hs Hf].
  unfold papply. destruct (fs_get (p_vol P) s) eqn:G.
  - rewrite (apply_write_present _ _ _ (firstn n x) G), (apply_write_present _ _ _ x G).
    destruct (Hf s b G) as (h & Hh).
    exists (names (p_vol P)). cbn [p_dirs p_files]. split; [rewrite Hd; apply in_or_app; right; left; reflexivity|].
    split; [eapply names_fs_set_present; eassumption|].
    intros t c Hin.
    pose proof (in_fs_get _ _ _ (ksorted_fs_set _ s (b ++ firstn n x) Hs) Hin) as Ht. rewrite fs_get_set in Ht.
    unfold fh_set. destruct (t =? s).
    + injection Ht as <-. rewrite Hh. apply cand_torn_last.
    + destruct (Hf t c Ht) as (h' & ->). apply cand_last.
  - cbn [apply_mut]. unfold fs_upd. rewrite G. apply vol_in_cache. exact Hw.
Qed.

Theorem prefix_in_cache P ms j cut :
  pwf P -> (j <= length ms)%nat -> cut_ok ms j cut ->
  crash_cache (run_pfs P (firstn (match cut with None => j | Some _ => S j end) ms)) (crash_fs (p_vol P) ms j cut).
Proof.
  intros Hw Hj Hcut. destruct cut as [c|].
  - destruct Hcut as (s & x & Hn & Hc). unfold crash_fs. rewrite Hn.
    assert (Hlt : (j < length ms)%nat) by (apply nth_error_Some; congruence).
    assert (E : firstn (S j) ms = firstn j ms ++ [MWrite s x]).
    { rewrite <- (firstn_skipn j ms) at 1. rewrite firstn_app, firstn_length, Nat.min_l by lia.
      rewrite (firstn_all2 (firstn j ms)) by (rewrite firstn_length; lia).
      replace (S j - j)%nat with 1%nat by lia.
      destruct (skipn j ms) as [|m r] eqn:Es.
      - apply (f_equal (@length _)) in Es. rewrite skipn_length in Es. cbn in Es. lia.
      - assert (Hm : nth_error ms j = Some m).
        { rewrite <- (firstn_skipn j ms), nth_error_app2, firstn_length, Nat.min_l, Nat.sub_diag, Es by (rewrite ?firstn_length; lia). reflexivity. }
        rewrite Hn in Hm. injection Hm as <-. reflexivity. }
    rewrite E, run_pfs_app. cbn [run_pfs fold_left].
    rewrite <- run_pfs_vol. apply torn_in_cache. apply pwf_run. exact Hw.
  - rewrite crash_fs_none, <- run_pfs_vol. apply vol_in_cache. apply pwf_run. exact Hw.
Qed.

(* ---------- scenarios ---------- *)
Lemma pclean_empty : pclean (pclean_of []).
Proof. split; cbn; [reflexivity|exact I|intros s b H; discriminate H]. Qed.

Lemma scen_inv maxsz : forall ops lv P,
  0 < maxsz -> good maxsz lv -> pclean P -> p_vol P = lv_fs lv -> Forall valid_op ops ->
  good maxsz (fold_left (step_live repaired maxsz) ops lv) /\
  pclean (scenario_pfs repaired maxsz lv P ops) /\
  p_vol (scenario_pfs repaired maxsz lv P ops) = lv_fs (fold_left (step_live repaired maxsz) ops lv).
Proof.
  induction ops as [|op ops IH]; intros lv P Hm Hg Hc Hv Hvo;
    [cbn [fold_left scenario_pfs]; split; [exact Hg|split; [exact Hc|exact Hv]]|].
  inversion Hvo as [|? ? Ho Hrest]; subst.
  cbn [fold_left scenario_pfs].
  destruct (op_has_form maxsz lv op Hm Hg Ho) as (bs & Ems & Hok & Happ).
  destruct (pl_blocks bs P (lv_fs lv) Hc Hv Hok) as (_ & Hc' & Hv').
  rewrite <- Ems in Hc', Hv'. rewrite Happ in Hv'.
  apply IH; try assumption. apply step_good_all; assumption.
Qed.

(* power-loss safety of the code as it stands (with the fsync after ftruncate): every scenario, every crash point,
   every crash_cache state *)
Theorem powerloss_all :
  forall (maxsz : N) (ops : list wal_op) (i j : nat),
    0 < maxsz -> Forall valid_op ops -> powerloss_at repaired maxsz ops i j.
Proof.
  intros maxsz ops i j Hm Hv. unfold powerloss_at.
  destruct (nth_error ops i) as [op|] eqn:En; [|exact I].
  assert (Hv1 : Forall valid_op (firstn i ops)) by (apply Forall_firstn'; exact Hv).
  destruct (scen_inv maxsz (firstn i ops) (mkLive None [] []) (pclean_of []) Hm ltac:(left; reflexivity)
              pclean_empty eq_refl Hv1) as (Hg & Hc & Hvol).
  fold (run_ops repaired maxsz (firstn i ops)) in Hg, Hvol.
  set (lv := run_ops repaired maxsz (firstn i ops)) in *.
  set (P := scenario_pfs repaired maxsz (mkLive None [] []) (pclean_of []) (firstn i ops)) in *.
  assert (Hvo : valid_op op) by (rewrite Forall_forall in Hv; apply Hv; eapply nth_error_In; eassumption).
  destruct (op_has_form maxsz lv op Hm Hg Hvo) as (bs & Ems & Hok & _).
  destruct (pl_blocks bs P (lv_fs lv) Hc Hvol Hok) as (Hst & _ & _).
  rewrite <- Ems in Hst.
  intros Hj d' Hcc.
  destruct (Hst j d' Hj Hcc) as (j' & cut & Hj' & Hcut & ->).
  pose proof (crash_good_all maxsz lv op j' cut Hm Hg Hvo) as H.
  unfold op_muts in *. destruct (op_run repaired maxsz lv op) as [[[rc ol] d2] ms]. cbn [snd] in *.
  apply H; assumption.
Qed.

(* ---------- regression witness for F25: the code before 09d27e0 (no fsync after the ftruncate) ---------- *)
Definition pa1 : record := mkRec 1 (repeat 7 30).
Definition pa2 : record := mkRec 2 [8].
Definition pa3 : record := mkRec 3 [9].
Definition pb3 : record := mkRec 3 [10].

(* roll threshold 40. Append(1,2,3) in one batch (one file of 80 bytes); Truncate(2) cuts inside that file with an
   ftruncate that is not followed by an fsync; Append(3') rolls to a new file (the old one still has 63 >= 40
   bytes) and fsyncs only the new file; every operation has returned. Power loss: the old file may still hold
   record 3, so the reopened log iterates ids 1,2,3,3': not gap-free, and a removed record is back in the middle. *)
Definition pl_ops : list wal_op := [OReopen; OAppend [pa1; pa2; pa3]; OTruncate 2; OAppend [pb3]; OReopen].
Definition pl_state : fs := [(0, file_of [pa1; pa2; pa3]); (1, file_of [pb3])].

Lemma pl_recs_ok r : In r [pa1; pa2; pa3; pb3] -> valid_rec r /\ id_room r.
Proof.
  intros [<-|[<-|[<-|[<-|[]]]]]; (split; [split; vm_compute; [reflexivity|discriminate]|vm_compute; reflexivity]).
Qed.

Lemma pl_batch_ok recs : (forall r, In r recs -> In r [pa1; pa2; pa3; pb3]) -> valid_op (OAppend recs).
Proof.
  intros H. cbn [valid_op]. split; rewrite Forall_forall; intros r Hr; destruct (pl_recs_ok r (H r Hr)); assumption.
Qed.

Lemma pl_valid : Forall valid_op pl_ops.
Proof.
  unfold pl_ops.
  apply Forall_cons; [exact I|].
  apply Forall_cons; [apply pl_batch_ok; intros r [<-|[<-|[<-|[]]]]; cbn [In]; tauto|].
  apply Forall_cons; [exact I|].
  apply Forall_cons; [apply pl_batch_ok; intros r [<-|[]]; cbn [In]; tauto|].
  apply Forall_cons; [exact I|]. apply Forall_nil.
Qed.

Definition pl_P : pfs := scenario_pfs repaired_nots 40 (mkLive None [] []) (pclean_of []) (firstn 4 pl_ops).

Lemma pl_P_dirs : p_dirs pl_P = [[0; 1]].
Proof. vm_compute. reflexivity. Qed.
Lemma pl_P_file0 : p_files pl_P 0 = [file_of [pa1; pa2; pa3]; file_of [pa1; pa2]].
Proof. vm_compute. reflexivity. Qed.
Lemma pl_P_file1 : p_files pl_P 1 = [file_of [pb3]].
Proof. vm_compute. reflexivity. Qed.
Lemma pl_state_names : names pl_state = [0; 1].
Proof. reflexivity. Qed.

Lemma pl_state_possible : crash_cache pl_P pl_state.
Proof.
  generalize pl_P_dirs pl_P_file0 pl_P_file1. generalize pl_P. intros P Hd H0 H1.
  exists [0; 1]. split; [rewrite Hd; left; reflexivity|]. split; [exact pl_state_names|].
  unfold pl_state. intros s c [E|[E|[]]];
    pose proof (f_equal fst E) as Es; pose proof (f_equal snd E) as Ec; cbn [fst snd] in Es, Ec; subst s c.
  - rewrite H0. apply cand_here.
  - rewrite H1. apply cand_here.
Qed.

Lemma pl_state_bad : ~ crash_ok repaired_nots 40 pl_state
                         (must_of OReopen (lv_acked (run_ops repaired_nots 40 (firstn 4 pl_ops))))
                         (may_of OReopen (lv_acked (run_ops repaired_nots 40 (firstn 4 pl_ops)))).
Proof.
  intros (l & d' & ms & recs & Hopen & Hit & Hgf & _).
  vm_compute in Hopen. inversion Hopen; subst; clear Hopen.
  vm_compute in Hit. inversion Hit; subst; clear Hit.
  vm_compute in Hgf. discriminate Hgf.
Qed.

Lemma pl_refuted : ~ powerloss_at repaired_nots 40 pl_ops 4 0.
Proof.
  unfold powerloss_at. change (nth_error pl_ops 4) with (Some OReopen). cbv beta iota zeta.
  intros H. apply pl_state_bad. apply (H (Nat.le_0_l _)). exact pl_state_possible.
Qed.

Lemma pl_refuted_packed :
  exists maxsz ops i j, 0 < maxsz /\ Forall valid_op ops /\ ~ powerloss_at repaired_nots maxsz ops i j.
Proof. exists 40, pl_ops, 4%nat, 0%nat. split; [reflexivity|]. split; [exact pl_valid|exact pl_refuted]. Qed.
