(* C06/ProofsCache.v — walCache transparency over the reference log (memLog model): with any capacity >= 1, after
   any sequence of fully accepted Appends, Truncates and Trims, iteration through the cache from any position
   returns exactly what iteration of the underlying log returns. *)
From Coq Require Import List NArith ZArith Bool Lia ZifyN ZifyNat ZifyBool.
From BLB Require Import Lib.CRC C06.Model C06.Spec C06.Proofs C06.ProofsRecover C06.ProofsCrash.
Import ListNotations.
Open Scope N_scope.

(* ---------- gap-free runs ---------- *)
Lemma gap_free_nth : forall (L : list record) (i : nat) (d x : record),
  gap_free L = true -> nth_error L i = Some x -> rid x = rid (hd d L) + N.of_nat i.
Proof.
  induction L as [|a L IH]; intros i d x Hg Hn; [destruct i; discriminate Hn|].
  destruct i as [|i].
  - cbn in Hn. injection Hn as <-. cbn. lia.
  - cbn [nth_error] in Hn. destruct L as [|b L]; [destruct i; discriminate Hn|].
    rewrite gap_free_cons2 in Hg. apply andb_true_iff in Hg. destruct Hg as [H1 H2]. apply N.eqb_eq in H1.
    rewrite (IH i d x H2 Hn). cbn [hd]. lia.
Qed.

Lemma gap_free_snoc L a r :
  gap_free (L ++ [a]) = true -> rid a + 1 = rid r -> gap_free ((L ++ [a]) ++ [r]) = true.
Proof.
  intros Hg Hr. apply (gap_free_app_intro (L ++ [a]) [] a r Hg eq_refl).
  intros _. rewrite last_last. exact Hr.
Qed.

(* ---------- list_set / nth ---------- *)
Lemma list_set_length {A} (l : list A) i x : length (list_set l i x) = length l.
Proof. revert i. induction l as [|a l IH]; intros [|i]; cbn; auto. Qed.

Lemma nth_list_set_eq {A} (l : list A) i x d : (i < length l)%nat -> nth i (list_set l i x) d = x.
Proof. revert i. induction l as [|a l IH]; intros [|i] H; cbn in *; try lia; auto. apply IH. lia. Qed.

Lemma nth_list_set_neq {A} (l : list A) i j x d : i <> j -> nth j (list_set l i x) d = nth j l d.
Proof.
  revert i j. induction l as [|a l IH]; intros [|i] [|j] H; cbn; auto; try congruence.
Qed.

(* ---------- the cache invariant ---------- *)
Definition slot_idx (cap : N) (id : N) : nat := N.to_nat (id mod cap).

Record cinv (cap : N) (c : cache) (m : memlog) (suf : list record) : Prop := {
  ci_len : N.of_nat (length c) = cap;
  ci_pos : 0 < cap;
  ci_suffix : exists pre, m = pre ++ suf;
  ci_short : N.of_nat (length suf) <= cap;
  ci_gf : gap_free m = true;
  ci_cached : forall r, In r suf -> rid r <> 0 -> cache_slot c (rid r) = r;
  ci_only : forall j, (j < length c)%nat -> rid (nth j c empty_rec) <> 0 ->
            In (nth j c empty_rec) suf /\ slot_idx cap (rid (nth j c empty_rec)) = j
}.

Lemma cache_cap_eq cap c m suf : cinv cap c m suf -> cache_cap c = cap.
Proof. intros H. unfold cache_cap. apply (ci_len _ _ _ _ H). Qed.

Lemma slot_idx_lt cap c m suf id : cinv cap c m suf -> (slot_idx cap id < length c)%nat.
Proof.
  intros H. unfold slot_idx. pose proof (ci_len _ _ _ _ H). pose proof (ci_pos _ _ _ _ H).
  assert (id mod cap < cap) by (apply N.mod_lt; lia). lia.
Qed.

Lemma cache_slot_idx cap c m suf id : cinv cap c m suf -> cache_slot c id = nth (slot_idx cap id) c empty_rec.
Proof. intros H. unfold cache_slot, slot_idx. rewrite (cache_cap_eq _ _ _ _ H). reflexivity. Qed.

(* a hit means: the record with that id is in the cached suffix *)
Lemma hit_in_suf cap c m suf id :
  cinv cap c m suf -> cache_hit c id = true -> In (cache_slot c id) suf /\ rid (cache_slot c id) = id.
Proof.
  intros H Hh. unfold cache_hit in Hh. apply andb_true_iff in Hh. destruct Hh as [H0 H1].
  apply negb_true_iff, N.eqb_neq in H0. apply N.eqb_eq in H1. split; [|assumption].
  rewrite (cache_slot_idx _ _ _ _ id H) in *.
  apply (ci_only _ _ _ _ H); [eapply slot_idx_lt; eassumption|assumption].
Qed.

Lemma in_suf_hit cap c m suf r :
  cinv cap c m suf -> In r suf -> rid r <> 0 -> cache_hit c (rid r) = true.
Proof.
  intros H Hin Hn. unfold cache_hit. rewrite (ci_cached _ _ _ _ H r Hin Hn).
  rewrite N.eqb_refl. apply N.eqb_neq in Hn. rewrite Hn. reflexivity.
Qed.

(* ---------- sorted runs and threshold filters ---------- *)
Lemma gap_free_all_gt : forall L a r, gap_free (a :: L) = true -> In r L -> rid a < rid r.
Proof. exact gap_free_lt_hd. Qed.

Lemma filter_none {A} (f : A -> bool) l : (forall x, In x l -> f x = false) -> filter f l = [].
Proof.
  induction l as [|a l IH]; intros H; [reflexivity|]. cbn. rewrite (H a (or_introl eq_refl)). apply IH.
  intros x Hx. apply H. right. exact Hx.
Qed.
Lemma filter_all {A} (f : A -> bool) l : (forall x, In x l -> f x = true) -> filter f l = l.
Proof.
  induction l as [|a l IH]; intros H; [reflexivity|]. cbn. rewrite (H a (or_introl eq_refl)). f_equal. apply IH.
  intros x Hx. apply H. right. exact Hx.
Qed.

Lemma filter_ge_run : forall A x B,
  gap_free (A ++ x :: B) = true ->
  filter (fun r => rid x <=? rid r) (A ++ x :: B) = x :: B.
Proof.
  induction A as [|a A IH]; intros x B Hg.
  - cbn [app]. apply filter_all. intros y [<-|Hy]; [apply N.leb_refl|].
    apply N.leb_le. pose proof (gap_free_all_gt B x y Hg Hy). lia.
  - cbn [app filter].
    assert (Hlt : rid a < rid x).
    { apply (gap_free_all_gt (A ++ x :: B) a x Hg). apply in_or_app. right. left. reflexivity. }
    assert (E : (rid x <=? rid a) = false) by (apply N.leb_gt; exact Hlt).
    rewrite E. apply IH. eapply gap_free_cons. exact Hg.
Qed.

Lemma gap_free_app_l : forall l m, gap_free (l ++ m) = true -> gap_free l = true.
Proof.
  induction l as [|x l IHl]; intros m Hm; [reflexivity|].
  destruct l as [|y l]; [reflexivity|].
  change ((x :: y :: l) ++ m) with (x :: y :: l ++ m) in Hm. rewrite gap_free_cons2 in Hm |- *.
  apply andb_true_iff in Hm. destruct Hm as [H1 H2]. rewrite H1. cbn [andb]. apply (IHl m). exact H2.
Qed.

Lemma filter_le_prefix : forall m k, gap_free m = true -> exists n, filter (fun r => rid r <=? k) m = firstn n m.
Proof.
  induction m as [|a m IH]; intros k Hg; [exists 0%nat; reflexivity|].
  cbn [filter]. destruct (rid a <=? k) eqn:E.
  - destruct (IH k (gap_free_cons _ _ Hg)) as (n & Hn). exists (S n). cbn [firstn]. rewrite Hn. reflexivity.
  - exists 0%nat. cbn [firstn]. apply filter_none. intros x Hx. apply N.leb_gt. apply N.leb_gt in E.
    pose proof (gap_free_all_gt m a x Hg Hx). lia.
Qed.

Lemma filter_gt_suffix : forall m k, gap_free m = true -> exists n, filter (fun r => k <? rid r) m = skipn n m.
Proof.
  induction m as [|a m IH]; intros k Hg; [exists 0%nat; reflexivity|].
  cbn [filter]. destruct (k <? rid a) eqn:E.
  - exists 0%nat. cbn [skipn]. f_equal. apply filter_all. intros x Hx. apply N.ltb_lt. apply N.ltb_lt in E.
    pose proof (gap_free_all_gt m a x Hg Hx). lia.
  - destruct (IH k (gap_free_cons _ _ Hg)) as (n & Hn). exists (S n). cbn [skipn]. exact Hn.
Qed.

Lemma gap_free_truncate m k : gap_free m = true -> gap_free (mem_truncate m k) = true.
Proof.
  intros Hg. unfold mem_truncate. destruct (filter_le_prefix m k Hg) as (n & ->).
  apply (gap_free_app_l (firstn n m) (skipn n m)). rewrite firstn_skipn. exact Hg.
Qed.
Lemma gap_free_trim m k : gap_free m = true -> gap_free (mem_trim m k) = true.
Proof.
  intros Hg. unfold mem_trim. destruct (filter_gt_suffix m k Hg) as (n & ->).
  apply (gap_free_app_r (firstn n m) (skipn n m)). rewrite firstn_skipn. exact Hg.
Qed.

(* ---------- iteration through the cache ---------- *)
Lemma no_hit_after cap c m suf P z :
  cinv cap c m suf -> suf = P ++ [z] -> cache_hit c (rid z + 1) = false.
Proof.
  intros H Es. destruct (cache_hit c (rid z + 1)) eqn:Hh; [|reflexivity]. exfalso.
  destruct (hit_in_suf _ _ _ _ _ H Hh) as [Hin Hid].
  destruct (ci_suffix _ _ _ _ H) as (pre & Em).
  pose proof (ci_gf _ _ _ _ H) as Hg. rewrite Em in Hg. apply gap_free_app_r in Hg.
  destruct (In_nth_error _ _ Hin) as (j & Hj).
  pose proof (gap_free_nth suf j z _ Hg Hj) as E1.
  assert (Hjl : (j < length suf)%nat) by (apply nth_error_Some; congruence).
  assert (Hz : nth_error suf (length P) = Some z).
  { rewrite Es, nth_error_app2, Nat.sub_diag by lia. reflexivity. }
  pose proof (gap_free_nth suf (length P) z z Hg Hz) as E2.
  rewrite Es, app_length in Hjl. cbn [length] in Hjl. lia.
Qed.

Lemma cache_iter_run cap c m suf : cinv cap c m suf ->
  forall L P fuel, suf = P ++ L -> L <> [] -> (forall x, In x L -> rid x <> 0) -> (length L <= fuel)%nat ->
  cache_iter fuel c (rid (hd empty_rec L)) = L.
Proof.
  intros H. induction L as [|x L IH]; intros P fuel Es Hne Hnz Hf; [congruence|].
  destruct fuel as [|f]; [cbn in Hf; lia|].
  cbn [hd cache_iter].
  assert (Hin : In x suf) by (rewrite Es; apply in_or_app; right; left; reflexivity).
  rewrite (in_suf_hit _ _ _ _ _ H Hin (Hnz x (or_introl eq_refl))).
  rewrite (ci_cached _ _ _ _ H x Hin (Hnz x (or_introl eq_refl))). f_equal.
  destruct L as [|y L].
  - destruct f as [|f]; [reflexivity|]. cbn [cache_iter].
    rewrite (no_hit_after _ _ _ _ P x H Es). reflexivity.
  - destruct (ci_suffix _ _ _ _ H) as (pre & Em).
    pose proof (ci_gf _ _ _ _ H) as Hg. rewrite Em, Es in Hg.
    apply gap_free_app_r in Hg. apply gap_free_app_r in Hg.
    rewrite gap_free_cons2 in Hg. apply andb_true_iff in Hg. destruct Hg as [H1 _]. apply N.eqb_eq in H1.
    rewrite H1. apply (IH (P ++ [x]) f).
    + rewrite Es, <- app_assoc. reflexivity.
    + discriminate.
    + intros z Hz. apply Hnz. right. exact Hz.
    + cbn [length] in Hf |- *. lia.
Qed.

Theorem cache_iterate_transparent cap c m suf fx d start :
  cinv cap c m suf ->
  c_iterate fx (Some c) (UMem m) d start = u_iterate fx (UMem m) d start.
Proof.
  intros H. unfold c_iterate. destruct (cache_hit c start) eqn:Hh; [|reflexivity].
  cbn [u_iterate]. f_equal. f_equal.
  destruct (hit_in_suf _ _ _ _ _ H Hh) as [Hin Hid].
  destruct (in_split _ _ Hin) as (P & L' & Es).
  set (x := cache_slot c start) in *.
  destruct (ci_suffix _ _ _ _ H) as (pre & Em).
  pose proof (ci_gf _ _ _ _ H) as Hg.
  assert (Hstart : start <> 0).
  { unfold cache_hit in Hh. apply andb_true_iff in Hh. destruct Hh as [H0 H1].
    apply negb_true_iff, N.eqb_neq in H0. apply N.eqb_eq in H1. fold x in H0, H1. congruence. }
  (* the underlying iteration returns the run starting at x *)
  assert (Hmem : mem_iterate m start = x :: L').
  { unfold mem_iterate. rewrite Em, Es, app_assoc. rewrite <- Hid.
    apply filter_ge_run. rewrite <- app_assoc, <- Es, <- Em. exact Hg. }
  rewrite Hmem.
  assert (Hrun := cache_iter_run cap c m suf H (x :: L') P (S (length c)) Es ltac:(discriminate)).
  cbn [hd] in Hrun. rewrite Hid in Hrun. apply Hrun.
  - intros z [<-|Hz]; [congruence|].
    rewrite Em, Es in Hg. apply gap_free_app_r in Hg. apply gap_free_app_r in Hg.
    pose proof (gap_free_all_gt L' x z Hg Hz). lia.
  - pose proof (ci_short _ _ _ _ H) as Hs. pose proof (ci_len _ _ _ _ H) as Hl.
    rewrite Es, app_length in Hs. cbn [length] in *. lia.
Qed.

(* ---------- the invariant is established and preserved ---------- *)
Lemma nth_repeat_empty n j : nth j (repeat empty_rec n) empty_rec = empty_rec.
Proof. revert j. induction n as [|n IH]; intros [|j]; cbn; auto. Qed.

Lemma cinv_reset cap m : 0 < cap -> gap_free m = true -> cinv cap (cache_new cap) m [].
Proof.
  intros Hc Hg. split.
  - unfold cache_new. rewrite repeat_length. lia.
  - exact Hc.
  - exists m. rewrite app_nil_r. reflexivity.
  - cbn. lia.
  - exact Hg.
  - intros r [].
  - intros j _ Hn. unfold cache_new in Hn. rewrite nth_repeat_empty in Hn. cbn in Hn. congruence.
Qed.

Lemma mod_shift_neq a delta cap : 0 < delta -> delta < cap -> (a + delta) mod cap <> a mod cap.
Proof.
  intros H0 H1 E.
  assert (Hc : cap <> 0) by lia.
  pose proof (N.div_mod a cap Hc) as Ea. pose proof (N.div_mod (a + delta) cap Hc) as Eb.
  pose proof (N.mod_lt a cap Hc). pose proof (N.mod_lt (a + delta) cap Hc).
  rewrite E in Eb.
  assert (Hd : delta = cap * ((a + delta) / cap) - cap * (a / cap)) by lia.
  assert (Hle : a / cap <= (a + delta) / cap) by (apply N.div_le_mono; lia).
  assert (Hq : (a + delta) / cap = a / cap \/ a / cap + 1 <= (a + delta) / cap) by lia.
  destruct Hq as [Hq|Hq].
  - rewrite Hq in Hd. lia.
  - assert (cap * (a / cap + 1) <= cap * ((a + delta) / cap)) by (apply N.mul_le_mono_l; exact Hq). lia.
Qed.

Lemma slot_idx_shift_neq cap a delta : 0 < delta -> delta < cap -> slot_idx cap (a + delta) <> slot_idx cap a.
Proof.
  intros H0 H1 E. unfold slot_idx in E. apply N2Nat.inj in E. exact (mod_shift_neq a delta cap H0 H1 E).
Qed.

Definition suf_push (cap : N) (suf : list record) (r : record) : list record :=
  if N.of_nat (length suf) <? cap then suf ++ [r] else tl suf ++ [r].

(* appending one record (the next id, or any id to an empty log) and caching it *)
Lemma cinv_push cap c m suf r :
  cinv cap c m suf ->
  (m = [] \/ exists z, In z m /\ rid (last m z) + 1 = rid r) ->
  cinv cap (cache_put c r) (m ++ [r]) (suf_push cap suf r).
Proof.
  intros H Hnext.
  pose proof (ci_len _ _ _ _ H) as Hl. pose proof (ci_pos _ _ _ _ H) as Hp.
  pose proof (ci_short _ _ _ _ H) as Hs. pose proof (ci_gf _ _ _ _ H) as Hg.
  destruct (ci_suffix _ _ _ _ H) as (pre & Em).
  assert (Hgs : gap_free suf = true) by (rewrite Em in Hg; eapply gap_free_app_r; exact Hg).
  assert (Hcap : cache_cap c = cap) by (eapply cache_cap_eq; exact H).
  assert (Hidx : forall id, (slot_idx cap id < length c)%nat) by (intros; eapply slot_idx_lt; exact H).
  assert (Hput : cache_put c r = list_set c (slot_idx cap (rid r)) r).
  { unfold cache_put, slot_idx. rewrite Hcap. reflexivity. }
  assert (Hslot : forall id, cache_slot (cache_put c r) id = nth (slot_idx cap id) (cache_put c r) empty_rec).
  { intros id. unfold cache_slot, slot_idx, cache_cap. rewrite Hput, list_set_length. fold (cache_cap c). rewrite Hcap. reflexivity. }
  (* the new gap-free log *)
  assert (Hg' : gap_free (m ++ [r]) = true).
  { destruct Hnext as [->|(z & Hz & Hr)]; [reflexivity|].
    destruct (exists_last (l := m)) as (m0 & a & Ema); [intros ->; contradiction|].
    rewrite Ema in *. rewrite last_last in Hr. apply gap_free_snoc; assumption. }
  (* ids of the cached suffix relative to r *)
  assert (Hdist : forall i x, nth_error suf i = Some x -> rid x + N.of_nat (length suf - i) = rid r).
  { intros i x Hx.
    assert (Hil : (i < length suf)%nat) by (apply nth_error_Some; congruence).
    destruct Hnext as [->|(z & Hz & Hr)].
    { destruct pre, suf; try discriminate Em. destruct i; discriminate Hx. }
    destruct (exists_last (l := suf)) as (s0 & a & Esa); [intros ->; destruct i; discriminate Hx|].
    assert (Hlast : last m z = a).
    { rewrite Em, Esa, app_assoc, last_last. reflexivity. }
    rewrite Hlast in Hr.
    assert (Ha : nth_error suf (length s0) = Some a).
    { rewrite Esa, nth_error_app2, Nat.sub_diag by lia. reflexivity. }
    pose proof (gap_free_nth suf i a x Hgs Hx) as E1.
    pose proof (gap_free_nth suf (length s0) a a Hgs Ha) as E2.
    rewrite Esa, app_length in Hil |- *. cbn [length] in *. lia. }
  unfold suf_push.
  destruct (N.of_nat (length suf) <? cap) eqn:Efull.
  - (* room in the window *)
    apply N.ltb_lt in Efull. split.
    + rewrite Hput, list_set_length. exact Hl.
    + exact Hp.
    + exists pre. rewrite Em, app_assoc. reflexivity.
    + rewrite app_length. cbn [length]. lia.
    + exact Hg'.
    + intros x Hx Hnz. rewrite Hslot, Hput. apply in_app_or in Hx. destruct Hx as [Hx|[<-|[]]].
      * destruct (In_nth_error _ _ Hx) as (i & Hi). pose proof (Hdist i x Hi) as Hd.
        assert (Hil : (i < length suf)%nat) by (apply nth_error_Some; congruence).
        rewrite nth_list_set_neq.
        -- rewrite <- (cache_slot_idx _ _ _ _ (rid x) H). apply (ci_cached _ _ _ _ H); assumption.
        -- rewrite <- Hd. apply slot_idx_shift_neq; lia.
      * apply nth_list_set_eq. apply Hidx.
    + intros j Hj Hnz. rewrite Hput in *. rewrite list_set_length in Hj.
      destruct (Nat.eq_dec (slot_idx cap (rid r)) j) as [<-|Hne].
      * rewrite nth_list_set_eq by apply Hidx. split; [apply in_or_app; right; left; reflexivity|reflexivity].
      * rewrite nth_list_set_neq in * by assumption.
        destruct (ci_only _ _ _ _ H j Hj Hnz) as [Hin Hix]. split; [apply in_or_app; left; exact Hin|exact Hix].
  - (* the window is full: the oldest cached record is evicted *)
    apply N.ltb_ge in Efull. assert (Elen : N.of_nat (length suf) = cap) by lia.
    destruct suf as [|y suf']; [cbn in Elen; lia|]. cbn [tl].
    split.
    + rewrite Hput, list_set_length. exact Hl.
    + exact Hp.
    + exists (pre ++ [y]). rewrite Em, <- !app_assoc. reflexivity.
    + rewrite app_length. cbn [length] in *. lia.
    + exact Hg'.
    + intros x Hx Hnz. rewrite Hslot, Hput. apply in_app_or in Hx. destruct Hx as [Hx|[<-|[]]].
      * destruct (In_nth_error _ _ Hx) as (i & Hi).
        assert (Hi' : nth_error (y :: suf') (S i) = Some x) by exact Hi.
        pose proof (Hdist (S i) x Hi') as Hd.
        assert (Hil : (i < length suf')%nat) by (apply nth_error_Some; congruence).
        rewrite nth_list_set_neq.
        -- rewrite <- (cache_slot_idx _ _ _ _ (rid x) H). apply (ci_cached _ _ _ _ H); [right; exact Hx|assumption].
        -- rewrite <- Hd. apply slot_idx_shift_neq; cbn [length] in *; lia.
      * apply nth_list_set_eq. apply Hidx.
    + intros j Hj Hnz. rewrite Hput in *. rewrite list_set_length in Hj.
      destruct (Nat.eq_dec (slot_idx cap (rid r)) j) as [<-|Hne].
      * rewrite nth_list_set_eq by apply Hidx. split; [apply in_or_app; right; left; reflexivity|reflexivity].
      * rewrite nth_list_set_neq in * by assumption.
        destruct (ci_only _ _ _ _ H j Hj Hnz) as [Hin Hix]. split; [|exact Hix].
        destruct Hin as [Ey|Hin]; [|apply in_or_app; left; exact Hin].
        (* the evicted record y would sit in r's slot *)
        exfalso. apply Hne. rewrite <- Hix, <- Ey.
        pose proof (Hdist 0%nat y eq_refl) as Hd. cbn [length Nat.sub] in Hd.
        unfold slot_idx. f_equal. rewrite <- Hd.
        replace (N.of_nat (S (length suf'))) with (1 * cap) by (cbn [length] in Elen; lia).
        apply N.mod_add. lia.
Qed.

(* ---------- whole batches and whole runs ---------- *)
Definition wire_rec (p : N * rle) : record := mkRec (fst p) (rle_expand (snd p)).
Definition cache_fill (c : cache) (recs : list (N * rle)) : cache :=
  fold_left (fun c p => cache_put c (wire_rec p)) recs c.

Lemma c_after_append_ok c recs : c_after_append (Some c) 0%Z recs = Some (cache_fill c recs).
Proof. reflexivity. Qed.

Lemma batch_cinv cap : forall recs c m suf m',
  cinv cap c m suf -> Forall id_room m -> Forall (fun p => id_room (wire_rec p)) recs ->
  mem_append m recs = (0%Z, m') ->
  (exists suf', cinv cap (cache_fill c recs) m' suf') /\ Forall id_room m'.
Proof.
  induction recs as [|[id d] rest IH]; intros c m suf m' H Hroom Hr Ha.
  - cbn in Ha. injection Ha as <-. split; [exists suf; exact H|exact Hroom].
  - inversion Hr as [|? ? Hr0 Hrest]; subst.
    cbn [mem_append] in Ha. cbn [cache_fill fold_left]. fold (cache_fill (cache_put c (wire_rec (id, d))) rest).
    change (mkRec id (rle_expand d)) with (wire_rec (id, d)) in Ha.
    destruct m as [|r0 m0].
    + apply (IH (cache_put c (wire_rec (id, d))) [wire_rec (id, d)] (suf_push cap suf (wire_rec (id, d))) m').
      * apply (cinv_push cap c [] suf (wire_rec (id, d)) H). left. reflexivity.
      * constructor; [exact Hr0|constructor].
      * exact Hrest.
      * exact Ha.
    + destruct (id =? (rid (last (r0 :: m0) r0) + 1) mod two64) eqn:E; [|discriminate Ha].
      apply N.eqb_eq in E.
      assert (Hin : In (last (r0 :: m0) r0) (r0 :: m0)).
      { destruct (exists_last (l := r0 :: m0) ltac:(discriminate)) as (a & b & Eab). rewrite Eab, last_last.
        apply in_or_app. right. left. reflexivity. }
      assert (Hroom_last : id_room (last (r0 :: m0) r0)) by (rewrite Forall_forall in Hroom; apply Hroom; exact Hin).
      unfold id_room in Hroom_last. rewrite N.mod_small in E by exact Hroom_last.
      apply (IH (cache_put c (wire_rec (id, d))) ((r0 :: m0) ++ [wire_rec (id, d)]) (suf_push cap suf (wire_rec (id, d))) m').
      * apply (cinv_push cap c (r0 :: m0) suf (wire_rec (id, d)) H). right. exists r0. split; [left; reflexivity|].
        cbn [wire_rec rid fst]. lia.
      * apply Forall_app. split; [exact Hroom|]. constructor; [exact Hr0|constructor].
      * exact Hrest.
      * exact Ha.
Qed.

Inductive cop := CAppend (recs : list (N * rle)) | CTruncate (k : N) | CTrim (k : N).

(* one operation on walCache over the reference log; None = an Append returned an error (raft then stops) *)
Definition cstep (st : cache * memlog) (op : cop) : option (cache * memlog) :=
  match op with
  | CAppend recs =>
    let '(rc, m') := mem_append (snd st) recs in
    if (rc =? 0)%Z then Some (cache_fill (fst st) recs, m') else None
  | CTruncate k => Some (cache_new (cache_cap (fst st)), mem_truncate (snd st) k)
  | CTrim k => Some (cache_new (cache_cap (fst st)), mem_trim (snd st) k)
  end.

Fixpoint crun (st : cache * memlog) (ops : list cop) : option (cache * memlog) :=
  match ops with
  | [] => Some st
  | op :: r => match cstep st op with Some st' => crun st' r | None => None end
  end.

Definition cop_room (op : cop) : Prop :=
  match op with CAppend recs => Forall (fun p => id_room (wire_rec p)) recs | _ => True end.

Lemma Forall_filter' {A} (P : A -> Prop) f (l : list A) : Forall P l -> Forall P (filter f l).
Proof.
  intros H. rewrite Forall_forall in *. intros x Hx. apply filter_In in Hx. apply H. tauto.
Qed.

Lemma crun_cinv cap : forall ops c m suf c' m',
  cinv cap c m suf -> Forall id_room m -> Forall cop_room ops ->
  crun (c, m) ops = Some (c', m') -> exists suf', cinv cap c' m' suf'.
Proof.
  induction ops as [|op ops IH]; intros c m suf c' m' H Hroom Hops Hrun.
  - cbn in Hrun. injection Hrun as <- <-. exists suf. exact H.
  - inversion Hops as [|? ? Hop Hrest]; subst. cbn [crun] in Hrun.
    destruct op as [recs|k|k]; cbn [cstep fst snd] in Hrun.
    + destruct (mem_append m recs) as [rc m1] eqn:Ea.
      destruct (rc =? 0)%Z eqn:Erc; [|discriminate Hrun]. apply Z.eqb_eq in Erc. subst rc.
      destruct (batch_cinv cap recs c m suf m1 H Hroom Hop Ea) as [(suf1 & H1) Hroom1].
      eapply IH; eassumption.
    + rewrite (cache_cap_eq _ _ _ _ H) in Hrun.
      eapply (IH (cache_new cap) (mem_truncate m k) []); try eassumption.
      * apply cinv_reset; [apply (ci_pos _ _ _ _ H)|apply gap_free_truncate, (ci_gf _ _ _ _ H)].
      * apply Forall_filter'. exact Hroom.
    + rewrite (cache_cap_eq _ _ _ _ H) in Hrun.
      eapply (IH (cache_new cap) (mem_trim m k) []); try eassumption.
      * apply cinv_reset; [apply (ci_pos _ _ _ _ H)|apply gap_free_trim, (ci_gf _ _ _ _ H)].
      * apply Forall_filter'. exact Hroom.
Qed.

Theorem cache_transparent :
  forall (cap : N) (ops : list cop) (c : cache) (m : memlog),
    0 < cap -> Forall cop_room ops ->
    crun (cache_new cap, []) ops = Some (c, m) ->
    forall fx d start, c_iterate fx (Some c) (UMem m) d start = u_iterate fx (UMem m) d start.
Proof.
  intros cap ops c m Hc Hops Hrun fx d start.
  destruct (crun_cinv cap ops (cache_new cap) [] [] c m (cinv_reset cap [] Hc eq_refl) ltac:(constructor) Hops Hrun) as (suf & H).
  eapply cache_iterate_transparent. exact H.
Qed.
