(* C06/Model.v — executable model of the write-ahead log (pkg/wal) and of raft's walCache.
   Transcribes, branch by branch:
     pkg/wal/record.go        serialize / deserializeRecord          -> serialize / parse_one
     pkg/wal/fs_log_file.go   openLogFile, openLogFileForRead, Append, Truncate, seekToID, readRecord (torn-tail repair)
     pkg/wal/fs_log.go        OpenFSLog, readExistingFiles, addLogFile, FirstID, LastID, GetIterator/Next, Append (roll),
                              Truncate, Trim, getFileContainingID, deleteFiles
     pkg/wal/mem_log.go       the reference implementation
     pkg/raft/raft/wal_cache.go
   A file is its bytes; the directory is a list (sequence number, bytes) sorted by sequence number; every operation
   emits the file-system mutations it performs, in program order, at the granularity of the verifhook call sites.
   The three repairs proposed for findings F1/F2 are switches ([fixes]): the model with all switches off is the
   code as it stands, with all switches on it is the repaired code.
   Definitions only; proofs live in Proofs*.v. *)
From Coq Require Import List NArith ZArith Bool.
From BLB Require Import Lib.CRC Lib.CRCFast Gen.Consts.
Import ListNotations.
Open Scope N_scope.

Definition bytes := list byte.
Definition blen (b : bytes) : N := N.of_nat (length b).

(* ---------- run-length encoded payloads (wire representation of record data) ---------- *)
Definition rle := list (N * byte).
Definition rle_len (r : rle) : N := fold_right (fun p acc => fst p + acc) 0 r.
Definition rle_expand (r : rle) : bytes := flat_map (fun p => repeat (snd p) (N.to_nat (fst p))) r.

(* ---------- record.go ---------- *)
Record record := mkRec { rid : N; rdata : bytes }.

Definition two64 : N := 0x10000000000000000.
Definition max_data : N := wal_MaxRecordDataLen.

Definition rec_header (id len : N) : bytes := le64 id ++ le32 len.
Definition rec_csum (id : N) (data : bytes) : N := crc32c_fast (rec_header id (blen data) ++ data).
Definition serialize (r : record) : bytes :=
  rec_header (rid r) (blen (rdata r)) ++ rdata r ++ le32 (rec_csum (rid r) (rdata r)).

(* deserializeRecord on the bytes from the current offset to the end of the file *)
Inductive pres :=
| PRec (r : record) (csum : N) (rest : bytes)
| PEof          (* io.EOF: no byte left *)
| PTorn         (* io.ErrUnexpectedEOF: the file ends inside a record *)
| PCorrupt.     (* ErrCorruptData: length field too big or checksum mismatch *)

Definition parse_one (b : bytes) : pres :=
  match b with
  | [] => PEof
  | _ =>
    if blen b <? 12 then PTorn else
    let id := of_le (firstn 8 b) in
    let len := of_le (firstn 4 (skipn 8 b)) in
    if max_data <? len then PCorrupt else
    let rest := skipn 12 b in
    if blen rest <? len + 4 then PTorn else
    let data := firstn (N.to_nat len) rest in
    let cs := of_le (firstn 4 (skipn (N.to_nat len) rest)) in
    if crc32c_fast (firstn 12 b ++ data) =? cs
    then PRec (mkRec id data) cs (skipn (N.to_nat len + 4) rest)
    else PCorrupt
  end.

Inductive tail := TClean | TTorn | TCorrupt.

(* read records until the first one that does not parse; off = offset of that position *)
Fixpoint parse_all (fuel : nat) (b : bytes) (off : N) : list (record * N) * N * tail :=
  match fuel with
  | O => ([], off, TClean)
  | S f =>
    match parse_one b with
    | PEof => ([], off, TClean)
    | PTorn => ([], off, TTorn)
    | PCorrupt => ([], off, TCorrupt)
    | PRec r cs rest =>
      let '(rs, o, t) := parse_all f rest (off + 16 + blen (rdata r)) in ((r, cs) :: rs, o, t)
    end
  end.
Definition parse_file (b : bytes) := parse_all (S (length b)) b 0.

(* ---------- the directory and its mutations (hook sites) ---------- *)
Definition fs := list (N * bytes).

Inductive mut :=
| MCreate (s : N)
| MWrite (s : N) (d : bytes)      (* one write/writev appending d *)
| MSync (s : N)
| MTruncate (s : N) (len : N)     (* logFile.Truncate *)
| MUnlink (s : N)
| MDirSync
| MRepair (s : N) (len : N).      (* readRecord's torn-tail truncation *)

Fixpoint fs_get (d : fs) (s : N) : option bytes :=
  match d with
  | [] => None
  | (s', b) :: r => if s =? s' then Some b else fs_get r s
  end.
Fixpoint fs_set (d : fs) (s : N) (b : bytes) : fs :=
  match d with
  | [] => [(s, b)]
  | (s', b') :: r => if s =? s' then (s, b) :: r
                     else if s <? s' then (s, b) :: (s', b') :: r
                     else (s', b') :: fs_set r s b
  end.
Fixpoint fs_del (d : fs) (s : N) : fs :=
  match d with
  | [] => []
  | (s', b) :: r => if s =? s' then r else (s', b) :: fs_del r s
  end.
Definition fs_upd (d : fs) (s : N) (f : bytes -> bytes) : fs :=
  match fs_get d s with Some b => fs_set d s (f b) | None => d end.

Definition apply_mut (d : fs) (m : mut) : fs :=
  match m with
  | MCreate s => match fs_get d s with Some _ => d | None => fs_set d s [] end
  | MWrite s x => fs_upd d s (fun b => b ++ x)
  | MSync _ => d
  | MTruncate s len => fs_upd d s (firstn (N.to_nat len))
  | MUnlink s => fs_del d s
  | MDirSync => d
  | MRepair s len => fs_upd d s (firstn (N.to_nat len))
  end.
Definition apply_muts (d : fs) (ms : list mut) : fs := fold_left apply_mut ms d.

(* crash_prefix: the first j mutations are applied; if cut = Some c, mutation j (a write) is applied with only
   its first c bytes *)
Definition crash_fs (d : fs) (ms : list mut) (j : nat) (cut : option N) : fs :=
  let d' := apply_muts d (firstn j ms) in
  match cut, nth_error ms j with
  | Some c, Some (MWrite s x) => apply_mut d' (MWrite s (firstn (N.to_nat c) x))
  | _, _ => d'
  end.

(* a writer: directory + mutations emitted so far *)
Definition io := (fs * list mut)%type.
Definition emit (m : mut) (w : io) : io := (apply_mut (fst w) m, snd w ++ [m]).

(* ---------- fs_log.go / fs_log_file.go ---------- *)
(* fx_tsync: the repair F25 (09d27e0), an fsync after the ftruncate of logFile.Truncate. [repaired] is the code as it
   stands (all four repairs); [repaired_nots] is the code before 09d27e0 (F1/F2 repaired, no fsync after ftruncate),
   kept for the regression witness of F25 *)
Record fixes := mkFx { fx_drop : bool; fx_ro : bool; fx_guard : bool; fx_tsync : bool }.
Definition unfixed := mkFx false false false false.
Definition repaired := mkFx true true true true.
Definition repaired_nots := mkFx true true true false.

Record finfo := mkFi { fi_seq : N; fi_first : N }.
Record curfile := mkCf { cf_seq : N; cf_empty : bool; cf_first : N; cf_last : N }.
Record fslog := mkLog { lg_files : list finfo; lg_cur : curfile; lg_max : N }.

(* openLogFileForRead: Some (empty, firstID) or None on error *)
Definition open_ro (fx : fixes) (b : bytes) : option (bool * N) :=
  match parse_one b with
  | PRec r _ _ => Some (false, rid r)
  | PEof => Some (true, 0)
  | PTorn => if fx_ro fx then Some (true, 0) else None   (* Truncate through the read-only descriptor fails *)
  | PCorrupt => None
  end.

Definition cf_of (s : N) (rs : list (record * N)) : curfile :=
  match rs with
  | [] => mkCf s true 0 0
  | (r, _) :: _ => mkCf s false (rid r) (rid (fst (last rs (r, 0))))
  end.

(* openLogFile: read every record; a torn tail is cut off (MRepair) *)
Definition open_rw (s : N) (w : io) : option (curfile * io) :=
  match fs_get (fst w) s with
  | None => None
  | Some b =>
    let '(rs, off, t) := parse_file b in
    match t with
    | TCorrupt => None
    | TClean => Some (cf_of s rs, w)
    | TTorn => Some (cf_of s rs, emit (MRepair s off) w)
    end
  end.

(* readExistingFiles *)
Fixpoint read_existing (fx : fixes) (d : fs) : option (list finfo) :=
  match d with
  | [] => Some []
  | (s, b) :: r =>
    match open_ro fx b with
    | None => None
    | Some (_, first) =>
      match read_existing fx r with
      | None => None
      | Some l => Some (mkFi s first :: l)
      end
    end
  end.

Fixpoint seqs_consecutive (l : list finfo) : bool :=
  match l with
  | a :: ((b :: _) as r) => (fi_seq a + 1 =? fi_seq b) && seqs_consecutive r
  | _ => true
  end.

Definition last_seq (l : list finfo) : N := fi_seq (last l (mkFi 0 0)).

(* the repair of finding F1: an empty last file next to older files is dropped (loop in OpenFSLog) *)
Fixpoint drop_trailing (fuel : nat) (files : list finfo) (cur : curfile) (w : io)
  : option (list finfo * curfile * io) :=
  match fuel with
  | O => Some (files, cur, w)
  | S f =>
    if cf_empty cur && (1 <? N.of_nat (length files)) then
      let w1 := emit MDirSync (emit (MUnlink (cf_seq cur)) w) in
      let files' := removelast files in
      match open_rw (last_seq files') w1 with
      | None => None
      | Some (cur', w2) => drop_trailing f files' cur' w2
      end
    else Some (files, cur, w)
  end.

(* OpenFSLog: result code (0 ok, 1 error), the log, the directory afterwards, the mutations performed *)
Definition open_log (fx : fixes) (maxsz : N) (d : fs) : Z * option fslog * fs * list mut :=
  match read_existing fx d with
  | None => (1%Z, None, d, [])
  | Some files =>
    if negb (seqs_consecutive files) then (1%Z, None, d, [])
    else match files with
    | [] =>
      let w := emit MDirSync (emit (MCreate 0) (d, [])) in
      (0%Z, Some (mkLog [mkFi 0 0] (mkCf 0 true 0 0) maxsz), fst w, snd w)
    | _ =>
      match open_rw (last_seq files) (d, []) with
      | None => (1%Z, None, d, [])
      | Some (cur, w) =>
        if fx_drop fx then
          match drop_trailing (length files) files cur w with
          | None => (1%Z, None, fst w, snd w)
          | Some (files', cur', w') => (0%Z, Some (mkLog files' cur' maxsz), fst w', snd w')
          end
        else (0%Z, Some (mkLog files cur maxsz), fst w, snd w)
      end
    end
  end.

(* "l.existingFiles[len-1].firstID = l.curFile.firstID" *)
Fixpoint set_last_first (l : list finfo) (v : N) : list finfo :=
  match l with
  | [] => []
  | [a] => [mkFi (fi_seq a) v]
  | a :: r => a :: set_last_first r v
  end.
Definition refresh (l : fslog) : fslog :=
  mkLog (set_last_first (lg_files l) (cf_first (lg_cur l))) (lg_cur l) (lg_max l).

Definition single_empty (l : fslog) : bool := (N.of_nat (length (lg_files l)) =? 1) && cf_empty (lg_cur l).

Definition first_id (l : fslog) : N * bool :=
  let l := refresh l in
  if single_empty l then (0, true) else (fi_first (hd (mkFi 0 0) (lg_files l)), false).
Definition last_id (l : fslog) : N * bool :=
  if single_empty l then (0, true) else (cf_last (lg_cur l), false).

(* getFileContainingID (index into lg_files), on a refreshed log *)
Fixpoint gfc_loop (files : list finfo) (id : N) (i prev : nat) : nat :=
  match files with
  | [] => prev
  | f :: r => if id <? fi_first f then prev else gfc_loop r id (S i) i
  end.
Definition gfc (l : fslog) (id : N) : nat := gfc_loop (lg_files (refresh l)) id 0 0.

(* fsLog.Append; result codes: 0 ok, 1 ids rejected, 2 record too big *)
Fixpoint ids_ok (lastid : N) (i : N) (recs : list (N * rle)) : bool :=
  match recs with
  | [] => true
  | (id, _) :: r => (id =? (lastid + i + 1) mod two64) && ids_ok lastid (i + 1) r
  end.

Fixpoint write_recs (s : N) (recs : list (N * rle)) (w : io) : bool * io :=
  match recs with
  | [] => (true, w)
  | (id, d) :: r =>
    if max_data <? rle_len d then (false, w)
    else write_recs s r (emit (MWrite s (serialize (mkRec id (rle_expand d)))) w)
  end.

Definition fs_size (d : fs) (s : N) : N := match fs_get d s with Some b => blen b | None => 0 end.

Definition log_append (fx : fixes) (l : fslog) (d : fs) (recs : list (N * rle)) : Z * fslog * fs * list mut :=
  if fx_guard fx && match recs with [] => true | _ => false end then (0%Z, l, d, []) else
  let cur := lg_cur l in
  let lastid := match recs with
                | (id0, _) :: _ => if cf_empty cur then (id0 + two64 - 1) mod two64 else cf_last cur
                | [] => cf_last cur
                end in
  if negb (ids_ok lastid 0 recs) then (1%Z, l, d, []) else
  let '(l1, w1) :=
    if lg_max l <=? fs_size d (cf_seq cur) then
      let files := set_last_first (lg_files l) (cf_first cur) in
      let ns := last_seq files + 1 in
      (mkLog (files ++ [mkFi ns 0]) (mkCf ns true 0 0) (lg_max l), emit MDirSync (emit (MCreate ns) (d, [])))
    else (l, (d, [])) in
  let cur1 := lg_cur l1 in
  let '(ok, w2) := write_recs (cf_seq cur1) recs w1 in
  if negb ok then (2%Z, l1, fst w2, snd w2) else
  let w3 := emit (MSync (cf_seq cur1)) w2 in
  let cur2 := match recs with
              | [] => cur1
              | (id0, _) :: _ =>
                mkCf (cf_seq cur1) false (if cf_empty cur1 then id0 else cf_first cur1) (fst (last recs (id0, [])))
              end in
  (0%Z, mkLog (lg_files l1) cur2 (lg_max l1), fst w3, snd w3).

(* deleteFiles: one unlink + one directory sync per file *)
Definition delete_files (seqs : list N) (w : io) : io :=
  fold_left (fun w s => emit MDirSync (emit (MUnlink s) w)) seqs w.

(* offset just after the record with id k (seekToID (k+1) when firstID < k+1); None = ran into the end *)
Fixpoint offset_after (rs : list (record * N)) (k : N) (off : N) : option N :=
  match rs with
  | [] => None
  | (r, _) :: rest =>
    let off' := off + 16 + blen (rdata r) in
    if rid r =? k then Some off' else offset_after rest k off'
  end.

(* logFile.Truncate *)
Definition file_truncate (fx : fixes) (cur : curfile) (k : N) (w : io) : Z * curfile * io :=
  if cf_last cur <=? k then (0%Z, cur, w) else
  match fs_get (fst w) (cf_seq cur) with
  | None => (1%Z, cur, w)
  | Some b =>
    let off := if k + 1 <=? cf_first cur then Some 0
               else let '(rs, _, _) := parse_file b in offset_after rs k 0 in
    match off with
    | None => (1%Z, cur, w)
    | Some o =>
      let w0 := emit (MTruncate (cf_seq cur) o) w in
      let w' := if fx_tsync fx then emit (MSync (cf_seq cur)) w0 else w0 in
      if k <? cf_first cur then (0%Z, mkCf (cf_seq cur) true 0 0, w')
      else (0%Z, mkCf (cf_seq cur) (cf_empty cur) (cf_first cur) k, w')
    end
  end.

Definition log_truncate (fx : fixes) (l : fslog) (d : fs) (k : N) : Z * fslog * fs * list mut :=
  let l := refresh l in
  let keep := S (gfc l k) in
  let del := skipn keep (lg_files l) in
  let w1 := delete_files (rev (map fi_seq del)) (d, []) in
  let files := firstn keep (lg_files l) in
  match del with
  | [] =>
    let '(rc, cur, w2) := file_truncate fx (lg_cur l) k w1 in
    (rc, mkLog files cur (lg_max l), fst w2, snd w2)
  | _ =>
    match open_rw (last_seq files) w1 with
    | None => (1%Z, mkLog files (lg_cur l) (lg_max l), fst w1, snd w1)
    | Some (cur, w2) =>
      let '(rc, cur', w3) := file_truncate fx cur k w2 in
      (rc, mkLog files cur' (lg_max l), fst w3, snd w3)
    end
  end.

Definition log_trim (l : fslog) (d : fs) (k : N) : Z * fslog * fs * list mut :=
  let l := refresh l in
  let n := gfc l k in
  let w := delete_files (map fi_seq (firstn n (lg_files l))) (d, []) in
  (0%Z, mkLog (skipn n (lg_files l)) (lg_cur l) (lg_max l), fst w, snd w).

(* iteration: GetIterator(start) then Next until it returns false; result code 1 if Err() is non-nil *)
Fixpoint drop_through (rs : list (record * N)) (k : N) : option (list (record * N)) :=
  match rs with
  | [] => None
  | (r, c) :: rest => if rid r =? k then Some rest else drop_through rest k
  end.

Definition tail_bad (fx : fixes) (t : tail) : bool :=
  match t with TClean => false | TTorn => negb (fx_ro fx) | TCorrupt => true end.

Fixpoint iter_files (fx : fixes) (d : fs) (seqs : list N) (start : N) (firstfile : bool)
  : Z * list (record * N) :=
  match seqs with
  | [] => (0%Z, [])
  | s :: rest =>
    match fs_get d s with
    | None => (1%Z, [])
    | Some b =>
      match open_ro fx b with
      | None => (1%Z, [])
      | Some (_, first) =>
        let '(rs, _, t) := parse_file b in
        let bad := tail_bad fx t in
        let here := if negb firstfile || (start <=? first) then Some rs else drop_through rs (start - 1) in
        match here with
        | None => if bad then (1%Z, []) else iter_files fx d rest start false
        | Some rs' =>
          if bad then (1%Z, rs')
          else let '(rc, more) := iter_files fx d rest start false in (rc, rs' ++ more)
        end
      end
    end
  end.

Definition log_iterate (fx : fixes) (l : fslog) (d : fs) (start : N) : Z * list (record * N) :=
  let l := refresh l in
  iter_files fx d (map fi_seq (skipn (gfc l start) (lg_files l))) start true.

(* ---------- mem_log.go ---------- *)
Definition memlog := list record.

Definition mem_first (m : memlog) : N * bool :=
  match m with [] => (0, true) | r :: _ => (rid r, false) end.
Definition mem_last (m : memlog) : N * bool :=
  match m with [] => (0, true) | r :: _ => (rid (last m r), false) end.

Fixpoint mem_append (m : memlog) (recs : list (N * rle)) : Z * memlog :=
  match recs with
  | [] => (0%Z, m)
  | (id, d) :: rest =>
    match m with
    | [] => mem_append [mkRec id (rle_expand d)] rest
    | r0 :: _ =>
      if id =? (rid (last m r0) + 1) mod two64 then mem_append (m ++ [mkRec id (rle_expand d)]) rest
      else (1%Z, m)
    end
  end.
Definition mem_truncate (m : memlog) (k : N) : memlog := filter (fun r => rid r <=? k) m.
Definition mem_trim (m : memlog) (k : N) : memlog := filter (fun r => k <? rid r) m.
Definition mem_iterate (m : memlog) (start : N) : list record := filter (fun r => start <=? rid r) m.

(* ---------- wal_cache.go ---------- *)
Definition cache := list record.   (* the slots; a slot with id 0 is free *)
Definition empty_rec := mkRec 0 [].
Definition cache_new (cap : N) : cache := repeat empty_rec (N.to_nat cap).
Definition cache_cap (c : cache) : N := N.of_nat (length c).
Definition cache_slot (c : cache) (id : N) : record := nth (N.to_nat (id mod cache_cap c)) c empty_rec.
Fixpoint list_set {A} (l : list A) (i : nat) (x : A) : list A :=
  match l, i with
  | [], _ => []
  | _ :: r, O => x :: r
  | a :: r, S j => a :: list_set r j x
  end.
Definition cache_put (c : cache) (r : record) : cache := list_set c (N.to_nat (rid r mod cache_cap c)) r.
Definition cache_hit (c : cache) (id : N) : bool :=
  let s := cache_slot c id in negb (rid s =? 0) && (rid s =? id).
Fixpoint cache_iter (fuel : nat) (c : cache) (cur : N) : list record :=
  match fuel with
  | O => []
  | S f => if cache_hit c cur then cache_slot c cur :: cache_iter f c (cur + 1) else []
  end.

(* ---------- abstract specification: a gap-free run of records ---------- *)
Fixpoint gap_free (l : list record) : bool :=
  match l with
  | a :: ((b :: _) as r) => (rid a + 1 =? rid b) && gap_free r
  | _ => true
  end.

(* ---------- raft/log.go: serializeEntry / deserializeEntry (format 1) ---------- *)
(* encoding/binary PutUvarint: 7 bits per byte, least significant group first, high bit = "more" *)
Fixpoint put_uvarint (fuel : nat) (x : N) : bytes :=
  match fuel with
  | O => [x]
  | S f => if x <? 128 then [x] else (x mod 128 + 128) :: put_uvarint f (x / 128)
  end.

(* encoding/binary Uvarint: value and number of bytes read; 0 = buffer too small, negative = overflow *)
Fixpoint get_uvarint (buf : bytes) (i : nat) (x s : N) : N * Z :=
  match buf with
  | [] => (0, 0%Z)
  | b :: r =>
    if Nat.eqb i 10 then (0, (- Z.of_nat (i + 1))%Z)
    else if b <? 128 then
      if Nat.eqb i 9 && (1 <? b) then (0, (- Z.of_nat (i + 1))%Z)
      else (x + b * 2 ^ s, Z.of_nat (i + 1))
    else get_uvarint r (S i) (x + (b mod 128) * 2 ^ s) (s + 7)
  end.

Record entry := mkEntry { e_type : N; e_term : N; e_cmd : bytes }.
Definition entry_format1 : N := 128.
Definition serialize_entry (e : entry) : bytes :=
  entry_format1 :: e_type e :: put_uvarint 10 (e_term e) ++ e_cmd e.
(* result code: 0 ok, 1 errBadEntryFormat, 2 errCorruptedEntry *)
Definition deserialize_entry (b : bytes) : Z * entry :=
  match b with
  | f :: ty :: r =>
    if f =? entry_format1 then
      let '(term, k) := get_uvarint r 0 0 0 in
      if (k <=? 0)%Z then (2%Z, mkEntry 0 0 [])
      else (0%Z, mkEntry ty term (skipn (Z.to_nat k) r))
    else (1%Z, mkEntry 0 0 [])
  | _ => (1%Z, mkEntry 0 0 [])
  end.

(* ---------- wire: operations and observations ---------- *)
Inductive under := UFs (l : fslog) | UMem (m : memlog).
Record state := mkSt {
  st_fx : fixes; st_under : under; st_cache : option cache; st_fs : fs;
  st_prev_fs : fs; st_last_muts : list mut }.

Definition zN (x : N) : Z := Z.of_N x.
Definition zb (b : bool) : Z := if b then 1%Z else 0%Z.

Definition last4 (d : bytes) : N := of_le (skipn (length d - 4) d).
Definition enc_mut (m : mut) : list Z :=
  match m with
  | MCreate s => [1; zN s; 0; 0]
  | MWrite s d => [2; zN s; zN (blen d); zN (last4 d)]
  | MSync s => [3; zN s; 0; 0]
  | MTruncate s n => [4; zN s; zN n; 0]
  | MUnlink s => [5; zN s; 0; 0]
  | MDirSync => [6; 0; 0; 0]
  | MRepair s n => [7; zN s; zN n; 0]
  end%Z.
Definition enc_muts (ms : list mut) : list Z := Z.of_nat (length ms) :: flat_map enc_mut ms.
Definition enc_pair (p : N * bool) : list Z := [zN (fst p); zb (snd p)].
Definition enc_recs (rs : list (record * N)) : list Z :=
  Z.of_nat (length rs) :: flat_map (fun p => [zN (rid (fst p)); zN (blen (rdata (fst p))); zN (snd p)]) rs.
Definition with_csum (r : record) : record * N := (r, rec_csum (rid r) (rdata r)).

Definition u_first (u : under) : N * bool := match u with UFs l => first_id l | UMem m => mem_first m end.
Definition u_last (u : under) : N * bool := match u with UFs l => last_id l | UMem m => mem_last m end.
Definition enc_query (u : under) : list Z := enc_pair (u_first u) ++ enc_pair (u_last u).

(* decoding *)
Fixpoint take_runs (n : nat) (l : list Z) : option (rle * list Z) :=
  match n with
  | O => Some ([], l)
  | S k => match l with
           | len :: v :: r =>
             match take_runs k r with
             | Some (rs, r') => Some ((Z.to_N len, Z.to_N v) :: rs, r')
             | None => None
             end
           | _ => None
           end
  end.
Fixpoint take_recs (n : nat) (l : list Z) : option (list (N * rle) * list Z) :=
  match n with
  | O => Some ([], l)
  | S k => match l with
           | id :: nr :: r =>
             match take_runs (Z.to_nat nr) r with
             | Some (d, r') =>
               match take_recs k r' with
               | Some (rs, r'') => Some ((Z.to_N id, d) :: rs, r'')
               | None => None
               end
             | None => None
             end
           | _ => None
           end
  end.

Definition bad : list Z := [(-1)%Z].

Definition two32 : N := 0x100000000.
Definition enc_entry (rc : Z) (e : entry) : list Z :=
  [rc; zN (e_type e); zN (e_term e / two32); zN (e_term e mod two32); zN (blen (e_cmd e)); zN (crc32c_fast (e_cmd e))].

(* underlying-log operations *)
Definition u_append (fx : fixes) (u : under) (d : fs) (recs : list (N * rle)) : Z * under * fs * list mut :=
  match u with
  | UFs l => let '(rc, l', d', ms) := log_append fx l d recs in (rc, UFs l', d', ms)
  | UMem m => let '(rc, m') := mem_append m recs in (rc, UMem m', d, [])
  end.
Definition u_truncate (fx : fixes) (u : under) (d : fs) (k : N) : Z * under * fs * list mut :=
  match u with
  | UFs l => let '(rc, l', d', ms) := log_truncate fx l d k in (rc, UFs l', d', ms)
  | UMem m => (0%Z, UMem (mem_truncate m k), d, [])
  end.
Definition u_trim (u : under) (d : fs) (k : N) : Z * under * fs * list mut :=
  match u with
  | UFs l => let '(rc, l', d', ms) := log_trim l d k in (rc, UFs l', d', ms)
  | UMem m => (0%Z, UMem (mem_trim m k), d, [])
  end.
Definition u_iterate (fx : fixes) (u : under) (d : fs) (start : N) : Z * list (record * N) :=
  match u with
  | UFs l => log_iterate fx l d start
  | UMem m => (0%Z, map with_csum (mem_iterate m start))
  end.

(* the cache in front of the underlying log *)
Definition c_iterate (fx : fixes) (c : option cache) (u : under) (d : fs) (start : N) : Z * list (record * N) :=
  match c with
  | Some c => if cache_hit c start then (0%Z, map with_csum (cache_iter (S (length c)) c start))
              else u_iterate fx u d start
  | None => u_iterate fx u d start
  end.
Definition c_after_append (c : option cache) (rc : Z) (recs : list (N * rle)) : option cache :=
  match c with
  | Some c => if (rc =? 0)%Z then Some (fold_left (fun c p => cache_put c (mkRec (fst p) (rle_expand (snd p)))) recs c)
              else Some c
  | None => None
  end.
Definition c_reset (c : option cache) : option cache :=
  match c with Some c => Some (cache_new (cache_cap c)) | None => None end.

(* the three append probes of a crash observation *)
Definition probe (fx : fixes) (l : fslog) (d : fs) (id : N) : Z * fslog * fs :=
  let '(rc, l', d', _) := log_append fx l d [(id, [(1, 165)])] in (zb (rc =? 0)%Z, l', d').

Definition crash_obs (fx : fixes) (maxsz : N) (d : fs) : list Z :=
  let '(rc, ol, d1, ms) := open_log fx maxsz d in
  match ol with
  | None => rc :: enc_muts ms
  | Some l =>
    let '(irc, recs) := log_iterate fx l d1 0 in
    let base := fst (last_id l) in
    let '(a1, l1, d2) := probe fx l d1 base in
    let '(a2, l2, d3) := probe fx l1 d2 (base + 2) in
    let '(a3, _, _) := probe fx l2 d3 (base + 1) in
    rc :: enc_muts ms ++ enc_query (UFs l) ++ irc :: enc_recs recs ++ [a1; a2; a3]
  end.

Definition st_max (s : state) : N := match st_under s with UFs l => lg_max l | UMem _ => 0 end.

Definition step (os : option state) (op : list Z) : option state * list Z :=
  match op, os with
  | [1; mode; maxsz; cap; f1; f2; f3; f4]%Z, _ =>
    let fx := mkFx (f1 =? 1)%Z (f2 =? 1)%Z (f3 =? 1)%Z (f4 =? 1)%Z in
    let c := if (2 <=? mode)%Z then Some (cache_new (Z.to_N cap)) else None in
    if (mode =? 0)%Z || (mode =? 2)%Z then
      let '(rc, ol, d, ms) := open_log fx (Z.to_N maxsz) [] in
      match ol with
      | Some l => (Some (mkSt fx (UFs l) c d [] ms), rc :: enc_muts ms ++ enc_query (UFs l))
      | None => (None, rc :: enc_muts ms)
      end
    else (Some (mkSt fx (UMem []) c [] [] []), 0%Z :: enc_muts [] ++ enc_query (UMem []))
  | (2 :: n :: rest)%Z, Some s =>
    match take_recs (Z.to_nat n) rest with
    | Some (recs, []) =>
      let '(rc, u, d, ms) := u_append (st_fx s) (st_under s) (st_fs s) recs in
      (Some (mkSt (st_fx s) u (c_after_append (st_cache s) rc recs) d (st_fs s) ms),
       rc :: enc_muts ms ++ enc_query u)
    | _ => (os, bad)
    end
  | [3; k]%Z, Some s =>
    let '(rc, u, d, ms) := u_truncate (st_fx s) (st_under s) (st_fs s) (Z.to_N k) in
    (Some (mkSt (st_fx s) u (c_reset (st_cache s)) d (st_fs s) ms), rc :: enc_muts ms ++ enc_query u)
  | [4; k]%Z, Some s =>
    let '(rc, u, d, ms) := u_trim (st_under s) (st_fs s) (Z.to_N k) in
    (Some (mkSt (st_fx s) u (c_reset (st_cache s)) d (st_fs s) ms), rc :: enc_muts ms ++ enc_query u)
  | [5; start]%Z, Some s =>
    let '(rc, recs) := c_iterate (st_fx s) (st_cache s) (st_under s) (st_fs s) (Z.to_N start) in
    (os, rc :: enc_recs recs)
  | [6]%Z, Some s =>
    let '(rc, ol, d, ms) := open_log (st_fx s) (st_max s) (st_fs s) in
    match ol with
    | Some l => (Some (mkSt (st_fx s) (UFs l) (c_reset (st_cache s)) d (st_fs s) ms), rc :: enc_muts ms ++ enc_query (UFs l))
    | None => (os, rc :: enc_muts ms ++ [0; 0; 0; 0]%Z)
    end
  | [7; j; cut]%Z, Some s =>
    let c := if (cut <? 0)%Z then None else Some (Z.to_N cut) in
    (os, crash_obs (st_fx s) (st_max s) (crash_fs (st_prev_fs s) (st_last_muts s) (Z.to_nat j) c))
  | (8 :: ty :: thi :: tlo :: nr :: rest)%Z, _ =>
    match take_runs (Z.to_nat nr) rest with
    | Some (d, []) =>
      let e := mkEntry (Z.to_N ty) (Z.to_N thi * two32 + Z.to_N tlo) (rle_expand d) in
      let b := serialize_entry e in
      let '(rc, e') := deserialize_entry b in
      (os, [zN (blen b); zN (crc32c_fast b)] ++ enc_entry rc e')
    | _ => (os, bad)
    end
  | (9 :: nr :: rest)%Z, _ =>
    match take_runs (Z.to_nat nr) rest with
    | Some (d, []) => let '(rc, e') := deserialize_entry (rle_expand d) in (os, enc_entry rc e')
    | _ => (os, bad)
    end
  | _, _ => (os, bad)
  end.

Fixpoint run_from (os : option state) (ops : list (list Z)) : list (list Z) :=
  match ops with
  | [] => []
  | op :: r => let '(os', o) := step os op in o :: run_from os' r
  end.

(* Generic driver entry point: ops of one case -> expected observation lines. *)
Definition run_case (ops : list (list Z)) : list (list Z) := run_from None ops.
