(* C06/CrashCache.v — power loss (definitions only): the file system with a write-back cache.
   Besides the volatile directory (what a running process sees) the state keeps, per object, the versions it went
   through since it was last made durable:
     - the directory: the lists of entries since the last directory sync (oldest first, last = current);
     - each file: its contents since its last fsync (oldest first, last = current); a created file starts with
       the single version "empty"; the versions of an unlinked file are kept (an older directory may still list it).
   After a power loss the directory is ANY of its versions and every file listed in it holds ANY of its versions,
   or a state between two consecutive versions that differ by an append (a torn write): each file keeps at least
   what its last fsync covered, later bytes may be absent or present up to any prefix, an un-synced truncation may
   not have happened; directory and files, and different files, are independent of each other. *)
From Coq Require Import List NArith ZArith Bool.
From BLB Require Import Lib.CRC C06.Model C06.Spec.
Import ListNotations.
Open Scope N_scope.

Record pfs := mkP {
  p_vol : fs;
  p_dirs : list (list N);
  p_files : N -> list bytes }.

Definition names (d : fs) : list N := map fst d.

Definition fh_set (f : N -> list bytes) (s : N) (h : list bytes) : N -> list bytes :=
  fun t => if t =? s then h else f t.

Definition pclean_of (d : fs) : pfs :=
  mkP d [names d] (fun s => match fs_get d s with Some b => [b] | None => [] end).

Definition cur_content (P : pfs) (s : N) : bytes :=
  match fs_get (p_vol P) s with Some b => b | None => [] end.

Definition papply (P : pfs) (m : mut) : pfs :=
  let vol' := apply_mut (p_vol P) m in
  match m with
  | MCreate s =>
    match fs_get (p_vol P) s with
    | Some _ => P
    | None => mkP vol' (p_dirs P ++ [names vol']) (fh_set (p_files P) s [[]])
    end
  | MWrite s x =>
    match fs_get (p_vol P) s with
    | Some b => mkP vol' (p_dirs P) (fh_set (p_files P) s (p_files P s ++ [b ++ x]))
    | None => P
    end
  | MTruncate s n | MRepair s n =>
    match fs_get (p_vol P) s with
    | Some b => mkP vol' (p_dirs P) (fh_set (p_files P) s (p_files P s ++ [firstn (N.to_nat n) b]))
    | None => P
    end
  | MSync s =>
    match fs_get (p_vol P) s with
    | Some b => mkP vol' (p_dirs P) (fh_set (p_files P) s [b])
    | None => P
    end
  | MUnlink s => mkP vol' (p_dirs P ++ [names vol']) (p_files P)
  | MDirSync => mkP vol' [names vol'] (p_files P)
  end.

Definition run_pfs (P : pfs) (ms : list mut) : pfs := fold_left papply ms P.

(* what a file may hold after a power loss, given its versions since the last fsync *)
Inductive cand : list bytes -> bytes -> Prop :=
| cand_here : forall v rest, cand (v :: rest) v
| cand_torn : forall v x rest n, cand (v :: (v ++ x) :: rest) (v ++ firstn n x)
| cand_later : forall v rest c, cand rest c -> cand (v :: rest) c.

Definition crash_cache (P : pfs) (d' : fs) : Prop :=
  exists D, In D (p_dirs P) /\ names d' = D /\ forall s c, In (s, c) d' -> cand (p_files P s) c.

(* the state of the cache along a scenario: all mutations of the completed operations, in order *)
Definition op_muts (fx : fixes) (maxsz : N) (lv : live) (op : wal_op) : list mut :=
  snd (op_run fx maxsz lv op).

Fixpoint scenario_pfs (fx : fixes) (maxsz : N) (lv : live) (P : pfs) (ops : list wal_op) : pfs :=
  match ops with
  | [] => P
  | op :: r => scenario_pfs fx maxsz (step_live fx maxsz lv op) (run_pfs P (op_muts fx maxsz lv op)) r
  end.

(* the property's sentence at a power loss while operation i is in flight with j of its mutations issued *)
Definition powerloss_at (fx : fixes) (maxsz : N) (ops : list wal_op) (i j : nat) : Prop :=
  match nth_error ops i with
  | None => True
  | Some op =>
    let lv := run_ops fx maxsz (firstn i ops) in
    let P := scenario_pfs fx maxsz (mkLive None [] []) (pclean_of []) (firstn i ops) in
    let ms := op_muts fx maxsz lv op in
    (j <= length ms)%nat ->
    forall d', crash_cache (run_pfs P (firstn j ms)) d' ->
      crash_ok fx maxsz d' (must_of op (lv_acked lv)) (may_of op (lv_acked lv))
  end.
