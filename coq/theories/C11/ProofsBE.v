(* C11/ProofsBE.v — round 5: clause (b) as a prefix statement (what every command leaves of the existing tracts; ExtendBlob
   appends and touches nothing else) and clause (e) as an answer statement (every command naming a deleted blob, other than
   Undelete and the final deletion, is refused and changes nothing); the pad-alignment part of clause (g) (provenance of
   every stored extent). *)
From Coq Require Import List Arith NArith Bool Lia ZifyN ZifyNat ZifyBool.
From BLB Require Import Gen.Consts Meta.AMap Meta.Curator Meta.CuratorFacts Meta.CuratorInv C11.Proofs C11.ProofsInv C11.ProofsG.
Import ListNotations.
Open Scope N_scope.

(* ---------- stored tracts are in packed form: rebuilding the flatbuffer gives the same tract back ---------- *)

Definition tnorm (t : tract) : Prop := build_tract t = t.
Definition bnorm (d : dstate) : Prop := forall id b, aget id (d_blobs d) = Some b -> Forall tnorm (b_tracts b).

Lemma mask20_idem : forall x, mask20 (mask20 x) = mask20 x.
Proof. intros. unfold mask20, two20. apply N.mod_mod. lia. Qed.

Lemma u32_idem : forall x, u32 (u32 x) = u32 x.
Proof. intros. unfold u32, two32. apply N.mod_mod. lia. Qed.

Lemma map_u32_idem : forall l, map u32 (map u32 l) = map u32 l.
Proof. induction l; cbn [map]; [reflexivity|]. rewrite u32_idem, IHl. reflexivity. Qed.

Lemma norm_hosts_idem : forall hs, norm_hosts (norm_hosts hs) = norm_hosts hs.
Proof.
  intros [|h0 [|h1 [|h2 r]]]; cbn [norm_hosts]; try reflexivity.
  - destruct (mask20 h0 =? 0) eqn:E0; cbn [norm_hosts]; [reflexivity|]. rewrite mask20_idem, E0. reflexivity.
  - destruct (mask20 h0 =? 0) eqn:E0; cbn [norm_hosts]; [reflexivity|].
    destruct (mask20 h1 =? 0) eqn:E1; cbn [norm_hosts]; rewrite ?mask20_idem, ?E0, ?E1; reflexivity.
  - destruct (mask20 h0 =? 0) eqn:E0; cbn [norm_hosts]; [reflexivity|].
    destruct (mask20 h1 =? 0) eqn:E1; cbn [norm_hosts]; [rewrite ?mask20_idem, ?E0; reflexivity|].
    destruct (mask20 h2 =? 0) eqn:E2; cbn [norm_hosts]; rewrite ?mask20_idem, ?E0, ?E1, ?E2, ?map_u32_idem; reflexivity.
Qed.

Lemma cid_norm_idem : forall c, cid_norm (cid_norm c) = cid_norm c.
Proof.
  intros [p i]. unfold cid_norm. cbn [fst snd]. rewrite u32_idem. f_equal. unfold two48. apply N.mod_mod. lia.
Qed.

Lemma opt_cid_idem : forall o, option_map cid_norm (option_map cid_norm o) = option_map cid_norm o.
Proof. intros [c|]; cbn [option_map]; [rewrite cid_norm_idem|]; reflexivity. Qed.

Lemma build_tract_idem : forall t, tnorm (build_tract t).
Proof.
  intros t. unfold tnorm, build_tract. cbn [t_hosts t_version t_rs1 t_rs2 t_rs3 t_rs4].
  rewrite norm_hosts_idem, u32_idem, !opt_cid_idem. reflexivity.
Qed.

Lemma build_tracts_norm : forall ts, Forall tnorm (map build_tract ts).
Proof. induction ts; cbn [map]; constructor; auto. apply build_tract_idem. Qed.

Lemma map_build_fix : forall ts, Forall tnorm ts -> map build_tract ts = ts.
Proof. induction 1; cbn [map]; [reflexivity|]. rewrite H, IHForall. reflexivity. Qed.

Lemma bnorm_same : forall d d', d_blobs d' = d_blobs d -> bnorm d -> bnorm d'.
Proof. intros d d' E B id b G. rewrite E in G. eauto. Qed.

Lemma bnorm_put : forall d0 d id x d', put_blob d0 id x = Some d' -> d_blobs d0 = d_blobs d -> bnorm d -> bnorm d'.
Proof.
  intros d0 d id x d' Hp E B k b G. rewrite (put_blob_blobs _ _ _ _ Hp), E, aget_aput in G.
  destruct (k =? id); [|eauto]. inv G. cbn [build_blob b_tracts]. apply build_tracts_norm.
Qed.

Lemma apply_mut_bnorm : forall d c d' r, apply_mut d c = Some (d', r) -> bnorm d -> bnorm d'.
Proof.
  intros d c d' r H B. destruct c; cbn [apply_mut] in H.
  - inv H; auto.
  - inv H. break_goal; auto.
  - unfold add_partition in H. destruct (aget p (d_parts d)); inv H; auto.
  - inv H. eapply bnorm_same; [|exact B]. apply fold_blobs_same. intros d0 x. unfold add_partition. break_goal; auto.
  - unfold do_create in H. repeat break_hyp H; try (inv H; auto; fail). inv H.
    eapply bnorm_put; eauto.
  - unfold do_extend in H. repeat break_hyp H; try (inv H; auto; fail). inv H. eapply bnorm_put; eauto.
  - unfold do_delete in H. repeat break_hyp H; try (inv H; auto; fail). inv H. eapply bnorm_put; eauto.
  - unfold do_undelete in H. repeat break_hyp H; try (inv H; auto; fail). inv H. eapply bnorm_put; eauto.
  - unfold do_finish in H. inv H. intros k b G. apply finish_fold_get in G. eauto.
  - unfold do_setmeta in H. repeat break_hyp H; try (inv H; auto; fail). inv H. eapply bnorm_put; eauto.
  - unfold do_change in H. repeat break_hyp H; try (inv H; auto; fail). inv H.
    intros k b1 G. cbn [set_tsids set_blobs d_blobs] in G. rewrite aget_aput in G.
    destruct (k =? bid); [|eauto]. inv G. cbn [set_tracts b_tracts].
    match goal with Hl : live_blob _ _ = Some ?b |- _ => pose proof (B _ _ (has_live _ _ _ Hl)) as Hb end.
    apply Forall_list_set; [exact Hb|].
    match goal with Hn : nth_error _ _ = Some ?t |- _ => pose proof (Forall_nth _ _ _ _ Hb Hn) as Ht; destruct t as [h0 v0 r1 r2 r3 r4] end.
    unfold tnorm, build_tract in Ht |- *. cbn [t_hosts t_version t_rs1 t_rs2 t_rs3 t_rs4] in Ht |- *.
    rewrite norm_hosts_idem, u32_idem. injection Ht as _ _ E1 E2 E3 E4.
    rewrite E1, E2, E3, E4. reflexivity.
  - inv H. intros k b1 G. destruct (update_fold_get _ _ _ _ G) as (b & Gb & T & _). rewrite T. eauto.
  - unfold do_allocrs in H. repeat break_hyp H; inv H; auto.
  - unfold do_commit in H. destruct (commit_precheck d (concat data)); [inv H; auto|].
    unfold do_commit_unchecked in H. repeat break_hyp H; try (inv H; auto; fail). inv H.
    intros k b1 G. cbn [set_tsids set_blobs set_chunks d_blobs] in G. apply fold_aput_get in G.
    destruct G as [G|(bw & _ & ->)]; [eauto|]. cbn [build_blob b_tracts]. apply build_tracts_norm.
  - unfold do_rshosts in H. repeat break_hyp H; inv H; auto.
  - unfold do_updatesc in H. repeat break_hyp H; try (inv H; auto; fail). inv H. eapply bnorm_put; eauto.
  - inv H; auto.
  - inv H; auto.
Qed.

Lemma bnorm_init : bnorm d_init.
Proof. intros id b H. discriminate. Qed.

Lemma dapply_bnorm : forall d i c d' r, dapply d i c = Some (d', r) -> bnorm d -> bnorm d'.
Proof.
  intros d i c d' r H B. destruct (dapply_cases _ _ _ _ _ H) as [[(_ & E2 & _) _]|(A & _)].
  - eapply bnorm_same; eauto.
  - eapply apply_mut_bnorm; [exact A|]. eapply bnorm_same; [|exact B]. reflexivity.
Qed.

Lemma dapply_all_bnorm : forall cs d d' r, dapply_all d cs = Some (d', r) -> bnorm d -> bnorm d'.
Proof.
  induction cs as [|[i c] cs IH]; intros d d' r H C; cbn [dapply_all] in H; [inv H; exact C|].
  destruct (dapply d i c) as [[d1 res]|] eqn:E; [|discriminate].
  destruct (dapply_all d1 cs) as [[d2 rs]|] eqn:E2; [|discriminate]. inv H.
  eapply IH; eauto. eapply dapply_bnorm; eauto.
Qed.

Lemma reachable_bnorm : forall cs s r, apply_all s_init cs = Some (s, r) -> bnorm (fst s).
Proof. intros cs s r H. apply apply_all_dapply_all_inv in H. eapply dapply_all_bnorm; eauto. exact bnorm_init. Qed.

(* ---------- clause (b), prefix form ---------- *)

(* holders of an existing tract in packed form: kept, cleared (UpdateStorageClass to an RS class), or replaced by the
   ChangeTract naming the tract with a list of the same length *)
Definition hrel_n (c : cmd) (id : N) (m : nat) (t t' : tract) : Prop :=
  t_hosts t' = t_hosts t \/ t_hosts t' = []
  \/ (exists idx ver hosts, c = CChangeTract id idx ver hosts /\ N.to_nat idx = m
                            /\ t_hosts t' = norm_hosts hosts /\ length (t_hosts t) = length hosts).

(* every command: tract m of a blob that exists before and after is still at position m *)
Lemma tracts_keep_positions : forall d i c d' r id b b' m t,
  dapply d i c = Some (d', r) -> cinv d -> bnorm d ->
  aget id (d_blobs d) = Some b -> aget id (d_blobs d') = Some b' -> nth_error (b_tracts b) m = Some t ->
  exists t', nth_error (b_tracts b') m = Some t' /\ vrel c id m t t' /\ hrel_n c id m t t'.
Proof.
  intros d i c d' r id b b' m t H C B G G' Hn.
  destruct (dapply_blob_rel _ _ _ _ _ _ _ _ H C G G') as (Len & Vr & _ & _ & Hr & _).
  destruct (nth_error (b_tracts b') m) as [t'|] eqn:E.
  - exists t'. split; [reflexivity|]. split; [eapply Vr; eauto|].
    pose proof (Forall_nth _ _ _ _ (B _ _ G) Hn) as Ht. unfold tnorm, build_tract in Ht.
    assert (Eh : norm_hosts (t_hosts t) = t_hosts t) by (rewrite <- Ht at 2; reflexivity).
    destruct (Hr m t t' Hn E) as [X|[X|[X|X]]]; unfold hrel_n; [auto|rewrite Eh in X; auto|auto|auto].
  - exfalso. apply nth_error_None in E. assert (nth_error (b_tracts b) m <> None) by congruence.
    apply nth_error_Some in H0. lia.
Qed.

(* ExtendBlob: the named blob's new tract list is the old list followed by one fresh tract (version 1, no RS pointer) per
   host list of the command, or the blob is exactly unchanged and the answer is not a success; every other blob is untouched *)
Definition fresh_tract (h : list N) : tract := mkTract (norm_hosts h) 1 None None None None.

Lemma extend_exact : forall d i id first hs d' r,
  dapply d i (CExtend id first hs) = Some (d', r) -> bnorm d ->
  (forall id2, id2 <> id -> aget id2 (d_blobs d') = aget id2 (d_blobs d)) /\
  (forall b, aget id (d_blobs d) = Some b -> exists b', aget id (d_blobs d') = Some b' /\
     ((b' = b /\ forall n, r <> [6; e_NoError; n]) \/
      (r = [6; e_NoError; N.of_nat (length (b_tracts b'))] /\ live_blob d id = Some b /\
       first = N.of_nat (length (b_tracts b)) /\ b_tracts b' = b_tracts b ++ map fresh_tract hs))).
Proof.
  intros d i id first hs d' r H B. unfold dapply in H.
  assert (Fail : forall d0 r0, d_blobs d0 = d_blobs d -> (forall n, r0 <> [6; e_NoError; n]) ->
            (forall id2, id2 <> id -> aget id2 (d_blobs d0) = aget id2 (d_blobs d)) /\
            (forall b, aget id (d_blobs d) = Some b -> exists b', aget id (d_blobs d0) = Some b' /\
               ((b' = b /\ forall n, r0 <> [6; e_NoError; n]) \/
                (r0 = [6; e_NoError; N.of_nat (length (b_tracts b'))] /\ live_blob d id = Some b /\
                 first = N.of_nat (length (b_tracts b)) /\ b_tracts b' = b_tracts b ++ map fresh_tract hs)))).
  { intros d0 r0 E Hr. rewrite E. split; [reflexivity|]. intros b G. exists b. split; [exact G|]. left. split; auto. }
  destruct (i <=? d_index d); [inv H; apply Fail; [reflexivity|intros n; discriminate]|].
  destruct (d_ro (set_index d i)); [inv H; apply Fail; [reflexivity|intros n; discriminate]|].
  cbn [apply_mut] in H. unfold do_extend in H.
  assert (L : live_blob (set_index d i) id = live_blob d id) by reflexivity. rewrite L in H.
  destruct (live_blob d id) as [b0|] eqn:El; [|inv H; apply Fail; [reflexivity|intros n; discriminate]].
  destruct (negb (first =? N.of_nat (length (b_tracts b0)))) eqn:Ef; [inv H; apply Fail; [reflexivity|intros n; discriminate]|].
  destruct (negb (forallb (fun h => N.of_nat (length h) =? b_repl b0) hs)); [inv H; apply Fail; [reflexivity|intros n; discriminate]|].
  destruct (put_blob _ _ _) as [d2|] eqn:Ep; [|discriminate]. inv H.
  rewrite (put_blob_blobs _ _ _ _ Ep). cbn [set_index d_blobs].
  split; [intros id2 Hne; apply aget_aput_ne; exact Hne|].
  intros b G. rewrite (has_live _ _ _ El) in G. inv G. eexists. split; [apply aget_aput_eq|]. right.
  cbn [build_blob set_tracts b_tracts]. rewrite map_length. split; [reflexivity|]. split; [reflexivity|].
  apply negb_false_iff, N.eqb_eq in Ef. split; [exact Ef|].
  rewrite map_app, map_map. rewrite (map_build_fix _ (B _ _ (has_live _ _ _ El))). reflexivity.
Qed.

(* the two together, over every state reachable from the empty database by any list of (index, command) pairs *)
Lemma extend_keeps_lemma : forall cs s rs i c d' r id b,
  apply_all s_init cs = Some (s, rs) -> dapply (fst s) i c = Some (d', r) -> aget id (d_blobs (fst s)) = Some b ->
  (forall b' m t, aget id (d_blobs d') = Some b' -> nth_error (b_tracts b) m = Some t ->
     exists t', nth_error (b_tracts b') m = Some t' /\ vrel c id m t t' /\ hrel_n c id m t t') /\
  (forall eid first hs, c = CExtend eid first hs ->
     exists b', aget id (d_blobs d') = Some b' /\
       (b' = b \/ (eid = id /\ r = [6; e_NoError; N.of_nat (length (b_tracts b'))] /\ live_blob (fst s) id = Some b /\
                   first = N.of_nat (length (b_tracts b)) /\ b_tracts b' = b_tracts b ++ map fresh_tract hs))).
Proof.
  intros cs s rs i c d' r id b Hr H G.
  pose proof (reachable_cinv _ _ _ Hr) as C. pose proof (reachable_bnorm _ _ _ Hr) as B.
  split; [intros b' m t G' Hn; eapply tracts_keep_positions; eauto|].
  intros eid first hs ->. destruct (extend_exact _ _ _ _ _ _ _ H B) as [Oth Named].
  destruct (N.eq_dec id eid) as [->|Hne].
  - destruct (Named b G) as (b' & G' & [[E _]|(E1 & E2 & E3 & E4)]); exists b'; (split; [exact G'|]); [left; exact E|].
    right. repeat split; auto.
  - exists b. split; [rewrite (Oth id Hne); exact G|left; reflexivity].
Qed.

(* non-vacuity: a blob with one tract at version 2 (after a replica change) is extended by two tracts *)
Definition exb_cmds : list (N * cmd) :=
  [(1, CSetReg 1); (2, CAddPart 1); (3, CCreate 3 (1600000000 * nano) 0 0);
   (4, CExtend 4294967297 0 [[1; 2; 3]]); (5, CChangeTract 4294967297 0 2 [1; 2; 4])].

Example exb_extend :
  exists d rs d' b b',
    dapply_all d_init exb_cmds = Some (d, rs) /\
    dapply d 6 (CExtend 4294967297 1 [[4; 5; 6]; [7; 8; 9]]) = Some (d', [6; e_NoError; 3]) /\
    aget 4294967297 (d_blobs d) = Some b /\ aget 4294967297 (d_blobs d') = Some b' /\
    b_tracts b = [mkTract [1; 2; 4] 2 None None None None] /\
    b_tracts b' = b_tracts b ++ map fresh_tract [[4; 5; 6]; [7; 8; 9]].
Proof.
  pose (d := match dapply_all d_init exb_cmds with Some (d, _) => d | None => d_init end).
  pose (rs := match dapply_all d_init exb_cmds with Some (_, r) => r | None => [] end).
  pose (d' := match dapply d 6 (CExtend 4294967297 1 [[4; 5; 6]; [7; 8; 9]]) with Some (x, _) => x | None => d_init end).
  pose (bb := fun x : dstate => match aget 4294967297 (d_blobs x) with Some b => b | None => mkBlob 9 9 9 9 9 9 9 [] end).
  exists d, rs, d', (bb d), (bb d'). repeat (match goal with |- _ /\ _ => split end); vm_compute; reflexivity.
Qed.

(* ---------- clause (e), answer form ---------- *)

(* commands that name exactly one blob and start with GetBlob *)
Definition names_one (c : cmd) (id : N) : Prop :=
  match c with
  | CExtend i _ _ | CDelete i _ | CSetMeta i _ _ _ _ | CChangeTract i _ _ _ | CUpdateSC i _ => i = id
  | _ => False
  end.

(* the ErrNoSuchBlob answer in the result type of the command *)
Definition nosuch_answer (c : cmd) : list N :=
  match c with
  | CExtend _ _ _ => [6; e_NoSuchBlob; 0]
  | CDelete _ _ => [7; e_NoSuchBlob]
  | _ => r_err e_NoSuchBlob
  end.

Definition names_commit (c : cmd) (id : N) : Prop :=
  exists cid cls hosts data e, c = CCommitRS cid cls hosts data /\ In e (concat data) /\ et_blob e = id.

Lemma precheck_err : forall d es e, commit_precheck d es = Some e -> e <> e_NoError.
Proof.
  induction es as [|x es IH]; intros e H; cbn [commit_precheck] in H; [discriminate|].
  repeat break_hyp H; eauto; inv H; discriminate.
Qed.

Lemma commit_one_err : forall d cid cls upd e x, commit_one d cid cls upd e = CRErr x -> x <> e_NoError.
Proof. intros d cid cls upd e x H. unfold commit_one in H. repeat break_hyp H; inv H; discriminate. Qed.

Lemma commit_loop_err : forall d cid cls es upd x, commit_loop d cid cls upd es = CRErr x -> x <> e_NoError.
Proof.
  induction es as [|e es IH]; intros upd x H; cbn [commit_loop] in H; [discriminate|].
  destruct (commit_one d cid cls upd e) eqn:E; [eauto|inv H; eapply commit_one_err; eauto|discriminate].
Qed.

Lemma commit_loop_deleted : forall d cid cls id es upd upd' e,
  live_blob d id = None -> aget id upd = None -> In e es -> et_blob e = id ->
  commit_loop d cid cls upd es <> CROk upd'.
Proof.
  induction es as [|x es IH]; intros upd upd' e L U Hin He; [destruct Hin|].
  cbn [commit_loop]. destruct (commit_one d cid cls upd x) eqn:E; [|discriminate|discriminate].
  destruct Hin as [->|Hin].
  - exfalso. unfold commit_one in E. rewrite He, U, L in E. discriminate.
  - eapply IH; eauto. unfold commit_one in E.
    destruct (N.eq_dec (et_blob x) id) as [Ex|Ex]; [rewrite Ex, U, L in E; discriminate|].
    repeat break_hyp E; inv E; rewrite aget_aput_ne; auto.
Qed.

Lemma update_fold_deleted : forall ups d id b,
  aget id (d_blobs d) = Some b -> b_deleted b <> 0 -> aget id (d_blobs (fold_left update_one ups d)) = Some b.
Proof.
  induction ups as [|[bid [m a]] ups IH]; intros d id b G Hn; cbn [fold_left]; [exact G|].
  apply IH; [|exact Hn]. unfold update_one. destruct (live_blob d bid) as [b0|] eqn:L; [|exact G].
  cbn [set_blobs d_blobs]. rewrite aget_aput. destruct (id =? bid) eqn:E; [|exact G].
  apply N.eqb_eq in E; subst. rewrite (deleted_invisible_lemma _ _ _ G Hn) in L. discriminate.
Qed.

Lemma deleted_refused_lemma : forall d i c d' r id b,
  dapply d i c = Some (d', r) -> aget id (d_blobs d) = Some b -> b_deleted b <> 0 ->
  d_index d < i -> d_ro d = false ->
  (names_one c id -> r = nosuch_answer c /\ d' = set_index d i) /\
  (names_commit c id -> (exists e, r = r_err e /\ e <> e_NoError) /\ d' = set_index d i) /\
  (forall ups, c = CUpdateTimes ups -> r = r_err e_NoError /\ aget id (d_blobs d') = Some b).
Proof.
  intros d i c d' r id b H G Hn Hi Hro.
  pose proof (deleted_invisible_lemma (set_index d i) id b G Hn) as L.
  unfold dapply in H. apply N.leb_gt in Hi. rewrite Hi in H.
  split; [|split].
  - intros Hc. destruct c; cbn [names_one] in Hc; try contradiction; subst;
      change (d_ro (set_index d i)) with (d_ro d) in H; rewrite Hro in H; cbn [apply_mut] in H;
      unfold do_extend, do_delete, do_setmeta, do_change, do_updatesc in H; rewrite L in H; inv H; split; reflexivity.
  - intros (cid & cls & hosts & data & e & -> & Hin & He).
    change (d_ro (set_index d i)) with (d_ro d) in H; rewrite Hro in H; cbn [apply_mut] in H.
    unfold do_commit in H. destruct (commit_precheck (set_index d i) (concat data)) as [x|] eqn:Ep.
    + inv H. split; [|reflexivity]. exists x. split; [reflexivity|eapply precheck_err; eauto].
    + unfold do_commit_unchecked in H. destruct (aget (chunk_key cid) (d_chunks (set_index d i))).
      * inv H. split; [|reflexivity]. eexists. split; [reflexivity|discriminate].
      * destruct (commit_loop (set_index d i) cid cls [] (concat data)) as [upd|x|] eqn:Ec; [|inv H|discriminate].
        -- exfalso. exact (commit_loop_deleted _ _ _ id _ [] upd e L eq_refl Hin He Ec).
        -- split; [|reflexivity]. exists x. split; [reflexivity|eapply commit_loop_err; eauto].
  - intros ups ->. change (d_ro (set_index d i)) with (d_ro d) in H; rewrite Hro in H; cbn [apply_mut] in H. inv H.
    split; [reflexivity|]. apply update_fold_deleted; auto.
Qed.

(* non-vacuity: blob 4294967297 has one tract and is marked deleted; every single-blob command and a CommitRSChunk naming it
   are refused with ErrNoSuchBlob and leave everything but txn_index alone; Undelete succeeds *)
Definition exe_cmds : list (N * cmd) :=
  [(1, CSetReg 1); (2, CAddPart 1); (3, CCreate 3 (1600000000 * nano) 0 0);
   (4, CExtend 4294967297 0 [[1; 2; 3]]); (5, CAllocRS 9); (6, CDelete 4294967297 (1600000005 * nano))].

Example exe_refused :
  exists d rs b,
    dapply_all d_init exe_cmds = Some (d, rs) /\ aget 4294967297 (d_blobs d) = Some b /\
    b_deleted b = 1600000005 /\ d_ro d = false /\ d_index d = 6 /\
    dapply d 7 (CExtend 4294967297 1 [[4; 5; 6]]) = Some (set_index d 7, [6; e_NoSuchBlob; 0]) /\
    dapply d 7 (CDelete 4294967297 (1600000006 * nano)) = Some (set_index d 7, [7; e_NoSuchBlob]) /\
    dapply d 7 (CSetMeta 4294967297 0 0 (1700000000 * nano) 0) = Some (set_index d 7, r_err e_NoSuchBlob) /\
    dapply d 7 (CChangeTract 4294967297 0 2 [1; 2; 4]) = Some (set_index d 7, r_err e_NoSuchBlob) /\
    dapply d 7 (CUpdateSC 4294967297 c_ClassRS63) = Some (set_index d 7, r_err e_NoSuchBlob) /\
    dapply d 7 (CCommitRS (2147483649, 1) c_ClassRS63 [1; 2; 3; 4; 5; 6; 7; 8; 9]
                  [[mkET 4294967297 0 0 100 2]; []; []; []; []; []]) = Some (set_index d 7, r_err e_NoSuchBlob) /\
    option_map snd (dapply d 7 (CUndelete 4294967297)) = Some [8; e_NoError].
Proof.
  pose (d := match dapply_all d_init exe_cmds with Some (d, _) => d | None => d_init end).
  pose (rs := match dapply_all d_init exe_cmds with Some (_, r) => r | None => [] end).
  pose (b := match aget 4294967297 (d_blobs d) with Some b => b | None => mkBlob 9 9 9 9 9 9 9 [] end).
  exists d, rs, b. repeat (match goal with |- _ /\ _ => split end); vm_compute; reflexivity.
Qed.

(* ---------- the round-1 structural invariant is contained in cinv ---------- *)
(* parts_ok / parts_wf (Meta/CuratorInv.v: reachable_ok, dapply_wf, step_shape_parts_ok, used by C10's no-crash lemma) follow
   from cinv, so meta_inv_reachable covers what the former meta_inv_*_partial theorems said *)
Lemma cinv_structural : forall d, cinv d -> parts_ok d /\ parts_wf d.
Proof.
  intros d ((Hs & Hp) & Ia & _). split.
  - intros id Hh. destruct (Ia id Hh) as (p & Gp & _). unfold has. congruence.
  - unfold parts_wf. apply Forall_forall. intros [k p] Hin. cbn [snd].
    exact (proj1 (Hp k p (asorted_In_aget _ _ _ Hs Hin))).
Qed.

(* ---------- clause (g), pad alignment: where the stored extents come from ---------- *)

Definition ext_in (m : amap chunk) (x : rsc_tract) : Prop :=
  exists k c piece, aget k m = Some c /\ In piece (c_data c) /\ In x piece.

Lemma remove_first_sub : forall {A} (f : A -> bool) p p' x, remove_first f p = Some p' -> In x p' -> In x p.
Proof.
  induction p as [|y p IH]; intros p' x H Hin; cbn [remove_first] in H; [discriminate|].
  destruct (f y); [inv H; right; exact Hin|].
  destruct (remove_first f p) as [q|] eqn:E; [|discriminate]. cbn [option_map] in H. inv H.
  destruct Hin as [->|Hin]; [left; reflexivity|right; eauto].
Qed.

Lemma remove_from_data_sub : forall bid idx data data' piece' x,
  remove_from_data bid idx data = Some data' -> In piece' data' -> In x piece' -> exists piece, In piece data /\ In x piece.
Proof.
  induction data as [|p data IH]; intros data' piece' x H Hp Hx; cbn [remove_from_data] in H; [discriminate|].
  destruct (remove_first (rt_is bid idx) p) as [p'|] eqn:E.
  - inv H. destruct Hp as [<-|Hp].
    + exists p. split; [left; reflexivity|eapply remove_first_sub; eauto].
    + exists piece'. split; [right; exact Hp|exact Hx].
  - destruct (remove_from_data bid idx data) as [dd|] eqn:E2; [|discriminate]. cbn [option_map] in H. inv H.
    destruct Hp as [<-|Hp].
    + exists p. split; [left; reflexivity|exact Hx].
    + destruct (IH _ _ _ eq_refl Hp Hx) as (q & Hq & Hxq). exists q. split; [right; exact Hq|exact Hxq].
Qed.

Lemma remove_tract_sub : forall chunks cid bid idx x,
  ext_in (remove_tract_from_chunk chunks cid bid idx) x -> ext_in chunks x.
Proof.
  intros chunks cid bid idx x. unfold remove_tract_from_chunk.
  destruct (aget (chunk_key cid) chunks) as [c|] eqn:G; [|auto].
  destruct (remove_from_data bid idx (c_data c)) as [data'|] eqn:E; [|auto].
  intros (k & c' & piece & Gk & Hp & Hx). rewrite aget_aput in Gk. destruct (k =? chunk_key cid) eqn:Ek.
  - inv Gk. cbn [c_data] in Hp. destruct (remove_from_data_sub _ _ _ _ _ _ E Hp Hx) as (p0 & H0 & H1).
    exists (chunk_key cid), c, p0. auto.
  - exists k, c', piece. auto.
Qed.

Lemma remove_tracts_sub : forall ts chunks bid n x,
  ext_in (remove_tracts_from_chunks chunks bid n ts) x -> ext_in chunks x.
Proof.
  induction ts as [|t ts IH]; intros chunks bid n x H; cbn [remove_tracts_from_chunks] in H; [exact H|].
  apply IH in H. revert H. generalize (tract_pointers t). intros l. revert chunks.
  induction l as [|cid l IHl]; intros chunks H; cbn [fold_left] in H; [exact H|].
  apply IHl in H. destruct (cid_valid cid); [eapply remove_tract_sub; eauto|exact H].
Qed.

Lemma finish_one_sub : forall d id x, ext_in (d_chunks (finish_one d id)) x -> ext_in (d_chunks d) x.
Proof.
  intros d id x. unfold finish_one. cbn [set_blobs set_chunks d_chunks].
  destruct (aget id (d_blobs d)); [apply remove_tracts_sub|auto].
Qed.

Lemma finish_fold_sub : forall ids d x, ext_in (d_chunks (fold_left finish_one ids d)) x -> ext_in (d_chunks d) x.
Proof.
  induction ids as [|id ids IH]; intros d x H; cbn [fold_left] in H; [exact H|].
  apply IH in H. eapply finish_one_sub; eauto.
Qed.

(* one command: every extent stored afterwards was stored before, or is an entry of the CommitRSChunk just applied *)
Lemma extents_apply_mut : forall d c d' r x, apply_mut d c = Some (d', r) -> ext_in (d_chunks d') x ->
  ext_in (d_chunks d) x
  \/ exists cid cls hosts data e, c = CCommitRS cid cls hosts data /\ In e (concat data) /\ x = mk_rt e.
Proof.
  intros d c d' r x H X.
  assert (Same : d_chunks d' = d_chunks d -> ext_in (d_chunks d) x
            \/ exists cid cls hosts data e, c = CCommitRS cid cls hosts data /\ In e (concat data) /\ x = mk_rt e).
  { intros E. rewrite E in X. left. exact X. }
  assert (Put : forall d0 id b, put_blob d0 id b = Some d' -> d_chunks d0 = d_chunks d -> d_chunks d' = d_chunks d).
  { intros d0 id b Hp E. rewrite (put_blob_chunks _ _ _ _ Hp). exact E. }
  destruct c; cbn [apply_mut] in H.
  - inv H. auto.
  - inv H. apply Same. break_goal; reflexivity.
  - unfold add_partition in H. destruct (aget p (d_parts d)); inv H; auto.
  - inv H. apply Same. apply fold_chunks_same. intros d0 y. unfold add_partition. break_goal; reflexivity.
  - unfold do_create in H. repeat break_hyp H; inv H; auto. apply Same. eapply Put; eauto.
  - unfold do_extend in H. repeat break_hyp H; inv H; auto. apply Same. eapply Put; eauto.
  - unfold do_delete in H. repeat break_hyp H; inv H; auto. apply Same. eapply Put; eauto.
  - unfold do_undelete in H. repeat break_hyp H; inv H; auto. apply Same. eapply Put; eauto.
  - unfold do_finish in H. inv H. left. eapply finish_fold_sub; eauto.
  - unfold do_setmeta in H. repeat break_hyp H; inv H; auto. apply Same. eapply Put; eauto.
  - unfold do_change in H. repeat break_hyp H; inv H; auto.
  - inv H. apply Same. apply fold_chunks_same. intros d0 [b [m a]]. unfold update_one. break_goal; reflexivity.
  - unfold do_allocrs in H. repeat break_hyp H; inv H; auto.
  - unfold do_commit in H. destruct (commit_precheck d (concat data)); [inv H; auto|].
    unfold do_commit_unchecked in H. repeat break_hyp H; try (inv H; auto; fail). inv H.
    cbn [set_tsids set_blobs set_chunks d_chunks] in X. destruct X as (k & c' & piece & Gk & Hp & Hx).
    rewrite aget_aput in Gk. destruct (k =? chunk_key cid).
    + inv Gk. cbn [c_data] in Hp. right. exists cid, cls, hosts, data.
      apply in_map_iff in Hp. destruct Hp as (p0 & <- & Hp0). apply in_map_iff in Hx. destruct Hx as (e & <- & He).
      exists e. split; [reflexivity|]. split; [|reflexivity]. apply in_concat. exists p0. auto.
    + left. exists k, c', piece. auto.
  - unfold do_rshosts in H. repeat break_hyp H; try (inv H; auto; fail). inv H.
    cbn [set_tsids set_chunks d_chunks] in X. destruct X as (k & c' & piece & Gk & Hp & Hx).
    rewrite aget_aput in Gk. destruct (k =? chunk_key cid).
    + inv Gk. cbn [c_data] in Hp. left. exists (chunk_key cid). eauto.
    + left. exists k, c', piece. auto.
  - unfold do_updatesc in H. repeat break_hyp H; inv H; auto. apply Same. eapply Put; eauto.
  - inv H. auto.
  - inv H. auto.
Qed.

Lemma extents_step : forall d i c d' r x, dapply d i c = Some (d', r) -> ext_in (d_chunks d') x ->
  ext_in (d_chunks d) x
  \/ exists cid cls hosts data e, c = CCommitRS cid cls hosts data /\ In e (concat data) /\ x = mk_rt e.
Proof.
  intros d i c d' r x H X. destruct (dapply_cases _ _ _ _ _ H) as [[(_ & _ & E3 & _) _]|(A & _)].
  - rewrite E3 in X. left. exact X.
  - exact (extents_apply_mut _ _ _ _ _ A X).
Qed.

(* the alignment half of C13 wf_pchunk as a hypothesis on submitted layouts: every extent starts at a multiple of padToLength *)
Definition aligned_sub (c : cmd) : Prop :=
  match c with
  | CCommitRS _ _ _ data => Forall (fun e => et_off e mod c13_padToLength = 0) (concat data)
  | _ => True
  end.

Definition inv_pad (d : dstate) : Prop := forall x, ext_in (d_chunks d) x -> rt_off x mod c13_padToLength = 0.

Lemma cmd_spec_off_le : forall p s e x, cmd_spec s p = Some e -> In x p -> et_off x <= e.
Proof.
  induction p as [|y p IH]; intros s e x H Hin; [destruct Hin|]. cbn [cmd_spec] in H.
  destruct (et_off y <? s) eqn:E; [discriminate|]. destruct Hin as [->|Hin].
  - pose proof (cmd_spec_ge _ _ _ H). lia.
  - eapply IH; eauto.
Qed.

Lemma inv_pad_step : forall d i c d' r, dapply d i c = Some (d', r) -> layout_sub c -> aligned_sub c -> inv_pad d -> inv_pad d'.
Proof.
  intros d i c d' r H L A I x X. destruct (extents_step _ _ _ _ _ _ H X) as [X0|(cid & cls & hosts & data & e & -> & He & ->)]; [auto|].
  cbn [layout_sub aligned_sub] in L, A. cbn [mk_rt rt_off].
  destruct (in_concat_inv _ _ He) as (p & Hp & Hep).
  rewrite Forall_forall in L, A. destruct (L p Hp) as (en & Hs & Hle). pose proof (cmd_spec_off_le _ _ _ _ Hs Hep) as Ho.
  rewrite u32_small by (unfold c_meta_RSPieceLength, two32 in *; lia). exact (A e He).
Qed.

Lemma inv_pad_init : inv_pad d_init.
Proof. intros x (k & c & piece & G & _). discriminate. Qed.

Lemma inv_pad_run : forall cs d d' r, dapply_all d cs = Some (d', r) ->
  Forall (fun e => layout_sub (snd e) /\ aligned_sub (snd e)) cs -> inv_pad d -> inv_pad d'.
Proof.
  induction cs as [|[i c] cs IH]; intros d d' r H Hs I; cbn [dapply_all] in H; [inv H; exact I|].
  destruct (dapply d i c) as [[d1 res]|] eqn:E; [|discriminate].
  destruct (dapply_all d1 cs) as [[d2 rs]|] eqn:E2; [|discriminate]. inv H.
  inversion Hs as [|? ? [Hl Ha] Hr]; subst. eapply IH; eauto. eapply inv_pad_step; eauto.
Qed.

(* the three statements of the property-level theorem *)
Lemma pad_aligned_lemma :
  (forall d i c d' r, dapply d i c = Some (d', r) -> layout_sub c -> aligned_sub c -> inv_pad d -> inv_pad d') /\
  (forall cs d rs, dapply_all d_init cs = Some (d, rs) ->
     Forall (fun e => layout_sub (snd e) /\ aligned_sub (snd e)) cs -> inv_pad d) /\
  (forall d k ch piece x, inv_pad d -> aget k (d_chunks d) = Some ch -> In piece (c_data ch) -> In x piece ->
     rt_off x mod c13_padToLength = 0).
Proof.
  split; [exact inv_pad_step|]. split.
  - intros cs d rs H Hs. eapply inv_pad_run; eauto. exact inv_pad_init.
  - intros d k ch piece x I G Hp Hx. apply I. exists k, ch, piece. auto.
Qed.

(* non-vacuity: a commit whose first piece holds two tracts at offsets 0 and padToLength; the hypotheses hold for the whole
   history and the stored chunk has exactly these two extents *)
Definition exp_cmds : list (N * cmd) :=
  [(1, CSetReg 1); (2, CAddPart 1); (3, CCreate 3 (1600000000 * nano) 0 0); (4, CCreate 3 (1600000001 * nano) 0 0);
   (5, CExtend 4294967297 0 [[1; 2; 3]]); (6, CExtend 4294967298 0 [[4; 5; 6]]); (7, CAllocRS 9);
   (8, CCommitRS (2147483649, 1) c_ClassRS63 [1; 2; 3; 4; 5; 6; 7; 8; 9]
         [[mkET 4294967297 0 0 100 2; mkET 4294967298 0 65532 200 2]; []; []; []; []; []])].

Example exp_sub : Forall (fun e => layout_sub (snd e) /\ aligned_sub (snd e)) exp_cmds.
Proof.
  repeat constructor; cbn;
    try (exists 65732; split; [reflexivity|unfold c_meta_RSPieceLength; lia]);
    try (exists 0; split; [reflexivity|unfold c_meta_RSPieceLength; lia]).
Qed.

Example exp_run :
  exists d rs ch,
    dapply_all d_init exp_cmds = Some (d, rs) /\ nth_error rs 7 = Some [1; e_NoError] /\
    aget (chunk_key (2147483649, 1)) (d_chunks d) = Some ch /\
    nth_error (c_data ch) 0 = Some [mkRT 4294967297 0 100 0; mkRT 4294967298 0 200 65532].
Proof.
  pose (d := match dapply_all d_init exp_cmds with Some (d, _) => d | None => d_init end).
  pose (rs := match dapply_all d_init exp_cmds with Some (_, r) => r | None => [] end).
  pose (ch := match aget (chunk_key (2147483649, 1)) (d_chunks d) with Some c => c | None => mkChunk [] [] end).
  exists d, rs, ch. repeat (match goal with |- _ /\ _ => split end); vm_compute; reflexivity.
Qed.

Example exp_inv_pad : forall d rs, dapply_all d_init exp_cmds = Some (d, rs) -> inv_pad d.
Proof. intros d rs H. exact (proj1 (proj2 pad_aligned_lemma) exp_cmds d rs H exp_sub). Qed.
