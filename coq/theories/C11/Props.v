(* C11/Props.v — property-level theorems only. Tags are read by bin/check. *)
From Coq Require Import List NArith.
From BLB Require Import Gen.Consts Meta.AMap Meta.Curator Meta.CuratorFacts Meta.CuratorInv C11.Proofs.
Import ListNotations.
Open Scope N_scope.

(* [PARTIAL] structural part of the invariant, for ALL command sequences: initial state *)
Theorem meta_inv_init_partial : parts_ok d_init /\ parts_wf d_init.
Proof. split; [exact parts_ok_init|constructor]. Qed.
Print Assumptions meta_inv_init_partial.

(* [PARTIAL] structural part of the invariant is preserved by every Apply: every blob lives in an existing partition, partitions never disappear, NextBlobKey stays a uint32 *)
Theorem meta_inv_step_partial :
  forall d i c d' r, dapply d i c = Some (d', r) ->
    parts_ok d /\ parts_wf d -> (parts_ok d' /\ parts_wf d') /\ step_shape d d'.
Proof.
  intros d i c d' r H [P W]. pose proof (dapply_shape _ _ _ _ _ H) as S.
  repeat split; try exact (proj1 S); try exact (proj2 S).
  - eapply step_shape_parts_ok; eauto.
  - eapply dapply_wf; eauto.
Qed.
Print Assumptions meta_inv_step_partial.

(* [PARTIAL] hence it holds in every reachable state; clauses a for NextBlobKey above every key, c, g and h of DESIGN C11 are not proved, they are checked on the real code by the monitor only *)
Theorem meta_inv_reachable_partial :
  forall cs s r, apply_all s_init cs = Some (s, r) -> parts_ok (fst s) /\ parts_wf (fst s).
Proof. exact reachable_ok. Qed.
Print Assumptions meta_inv_reachable_partial.

(* [FULL] clause f: while read-only mode is set, a command other than SetReadOnlyMode changes nothing but txn_index *)
Theorem readonly_freezes_metadata :
  forall d i c d' r,
    dapply d i c = Some (d', r) -> d_ro d = true -> (forall b, c <> CSetRO b) ->
    d' = d \/ d' = set_index d i.
Proof. exact readonly_freezes_lemma. Qed.
Print Assumptions readonly_freezes_metadata.

(* [FULL] clause e with the F18 case carved out: a blob disappears from the database only through a FinishDelete that names it, and if that command carries a cutoff (repaired code; cutoff 0 = the current code and old log entries) the blob is, in the state the command is applied to, marked deleted or expired with respect to the cutoff *)
Theorem live_blob_never_removed :
  forall d i c d' r id b,
    dapply d i c = Some (d', r) -> aget id (d_blobs d) = Some b -> aget id (d_blobs d') = None ->
    exists cutoff ids, c = CFinishDelete cutoff ids /\ In id ids /\ (cutoff <> 0 -> gc_eligible b cutoff = true).
Proof. exact blob_removed_lemma. Qed.
Print Assumptions live_blob_never_removed.

(* [REFUTED] without the cutoff: create, delete, undelete, FinishDelete from the stale scan removes a blob that is neither marked deleted nor has an expiry, finding F18 *)
Theorem live_blob_never_removed_refuted :
  exists d d' r b,
    dapply_all d_init (firstn 5 f18_cmds) = Some (d, r) /\
    aget 4294967297 (d_blobs d) = Some b /\ b_deleted b = 0 /\ b_expires b = 0 /\
    dapply d 6 (CFinishDelete 0 [4294967297]) = Some (d', [1; e_NoError]) /\
    aget 4294967297 (d_blobs d') = None.
Proof. exact live_blob_removed_witness. Qed.
Print Assumptions live_blob_never_removed_refuted.

(* [FULL] clause d for ChangeTract: a successful ChangeTract requires NewVersion = stored version + 1, stores it as uint32 in exactly the named tract, and leaves every other tract and blob alone *)
Theorem changetract_raises_version_by_one :
  forall d bid idx ver hosts d',
    do_change d bid idx ver hosts = Some (d', r_err e_NoError) ->
    exists b b' t t',
      live_blob d bid = Some b /\ aget bid (d_blobs d') = Some b' /\
      nth_error (b_tracts b) (N.to_nat idx) = Some t /\ nth_error (b_tracts b') (N.to_nat idx) = Some t' /\
      ver = t_version t + 1 /\ t_version t' = u32 (t_version t + 1) /\
      (forall m, m <> N.to_nat idx -> nth_error (b_tracts b') m = nth_error (b_tracts b) m) /\
      (forall id2, id2 <> bid -> aget id2 (d_blobs d') = aget id2 (d_blobs d)).
Proof. exact change_version_lemma. Qed.
Print Assumptions changetract_raises_version_by_one.

(* [REFUTED] clause d for CommitRSChunk: a commit built from a scan made at version 1 and applied at version 3 succeeds and lowers the version to 2, finding F6, owned by C14 *)
Theorem commitrs_version_plus_one_refuted :
  exists d d' b b' t t',
    dapply_all d_init (firstn 7 f6_cmds) = Some (d, [[2; 1]; [3; 0]; [5; 4294967297; 0]; [6; 0; 1]; [1; 0]; [1; 0]; [9; 0; 2147483649; 1]]) /\
    dapply d 8 (CCommitRS (2147483649, 1) c_ClassRS63 [1; 2; 3; 4; 5; 6; 7; 8; 9]
                 [[mkET 4294967297 0 0 100 2]; []; []; []; []; []]) = Some (d', [1; e_NoError]) /\
    aget 4294967297 (d_blobs d) = Some b /\ aget 4294967297 (d_blobs d') = Some b' /\
    nth_error (b_tracts b) 0 = Some t /\ nth_error (b_tracts b') 0 = Some t' /\
    t_version t = 3 /\ t_version t' = 2.
Proof. exact commit_lowers_version_witness. Qed.
Print Assumptions commitrs_version_plus_one_refuted.
