(* C11/Props.v — property-level theorems only. Tags are read by bin/check. *)
From Coq Require Import List NArith Lia.
From BLB Require Import Gen.Consts Meta.AMap Meta.Curator Meta.CuratorFacts Meta.CuratorInv C11.Proofs C11.ProofsInv C11.ProofsG C11.ProofsBE C11.BridgeC13.
Import ListNotations.
Open Scope N_scope.

(* The round-1 structural theorems meta_inv_init_partial, meta_inv_step_partial and meta_inv_reachable_partial are no longer
   obligations: what they said, parts_ok and parts_wf in every reachable state, is contained in meta_inv_reachable below,
   machine-checked by ProofsBE.cinv_structural. The lemmas they rested on stay in Meta/CuratorInv.v, where C10 uses them. *)

(* [FULL] clause f: while read-only mode is set, a command other than SetReadOnlyMode changes nothing but txn_index *)
Theorem readonly_freezes_metadata :
  forall d i c d' r,
    dapply d i c = Some (d', r) -> d_ro d = true -> (forall b, c <> CSetRO b) ->
    d' = d \/ d' = set_index d i.
Proof. exact readonly_freezes_lemma. Qed.
Print Assumptions readonly_freezes_metadata.

(* [FULL] clause e with the F18 case carved out: a blob disappears from the database only through a FinishDelete that names it, and if that command carries a cutoff (repaired code; cutoff 0 = the current code and old log entries) the blob is, in the state the command is applied to, marked deleted or expired with respect to the cutoff *)
Theorem live_blob_never_removed :
  forall d i c d' r id b,
    dapply d i c = Some (d', r) -> aget id (d_blobs d) = Some b -> aget id (d_blobs d') = None ->
    exists cutoff ids, c = CFinishDelete cutoff ids /\ In id ids /\ (cutoff <> 0 -> gc_eligible b cutoff = true).
Proof. exact blob_removed_lemma. Qed.
Print Assumptions live_blob_never_removed.

(* [REFUTED] without the cutoff: create, delete, undelete, FinishDelete from the stale scan removes a blob that is neither marked deleted nor has an expiry, finding F18 *)
Theorem live_blob_never_removed_refuted :
  exists d d' r b,
    dapply_all d_init (firstn 5 f18_cmds) = Some (d, r) /\
    aget 4294967297 (d_blobs d) = Some b /\ b_deleted b = 0 /\ b_expires b = 0 /\
    dapply d 6 (CFinishDelete 0 [4294967297]) = Some (d', [1; e_NoError]) /\
    aget 4294967297 (d_blobs d') = None.
Proof. exact live_blob_removed_witness. Qed.
Print Assumptions live_blob_never_removed_refuted.

(* [FULL] clause d for ChangeTract: a successful ChangeTract requires NewVersion = stored version + 1, stores it as uint32 in exactly the named tract, and leaves every other tract and blob alone *)
Theorem changetract_raises_version_by_one :
  forall d bid idx ver hosts d',
    do_change d bid idx ver hosts = Some (d', r_err e_NoError) ->
    exists b b' t t',
      live_blob d bid = Some b /\ aget bid (d_blobs d') = Some b' /\
      nth_error (b_tracts b) (N.to_nat idx) = Some t /\ nth_error (b_tracts b') (N.to_nat idx) = Some t' /\
      ver = t_version t + 1 /\ t_version t' = u32 (t_version t + 1) /\
      (forall m, m <> N.to_nat idx -> nth_error (b_tracts b') m = nth_error (b_tracts b) m) /\
      (forall id2, id2 <> bid -> aget id2 (d_blobs d') = aget id2 (d_blobs d)).
Proof. exact change_version_lemma. Qed.
Print Assumptions changetract_raises_version_by_one.

(* [REFUTED] clause d for CommitRSChunk WITHOUT the version check, the code before commit defd77a, do_commit_unchecked = PutRSChunk alone: a commit built from a scan made at version 1 and applied at version 3 succeeds and lowers the version to 2, finding F6; the repaired command do_commit refuses the same commit with ErrConflictingState and leaves the state alone *)
Theorem commitrs_version_plus_one_refuted :
  exists d d' b b' t t',
    dapply_all d_init (firstn 7 f6_cmds) = Some (d, [[2; 1]; [3; 0]; [5; 4294967297; 0]; [6; 0; 1]; [1; 0]; [1; 0]; [9; 0; 2147483649; 1]]) /\
    do_commit_unchecked d (2147483649, 1) c_ClassRS63 [1; 2; 3; 4; 5; 6; 7; 8; 9]
                 [[mkET 4294967297 0 0 100 2]; []; []; []; []; []] = Some (d', [1; e_NoError]) /\
    aget 4294967297 (d_blobs d) = Some b /\ aget 4294967297 (d_blobs d') = Some b' /\
    nth_error (b_tracts b) 0 = Some t /\ nth_error (b_tracts b') 0 = Some t' /\
    t_version t = 3 /\ t_version t' = 2 /\
    do_commit d (2147483649, 1) c_ClassRS63 [1; 2; 3; 4; 5; 6; 7; 8; 9]
                 [[mkET 4294967297 0 0 100 2]; []; []; []; []; []] = Some (d, [1; e_ConflictingState]).
Proof. exact commit_lowers_version_witness. Qed.
Print Assumptions commitrs_version_plus_one_refuted.

(* ------------------------------------------------------------------------------------------------------------
   The invariant clause by clause. cinv = partition table sorted with uint32 NextBlobKey and NextRsChunkKey within
   range, every blob key below its partition's NextBlobKey, every stored tract version a uint32. All theorems are
   about dapply / dapply_all, the database projection of Apply, for ANY command and ANY (index, command) list. *)

(* [FULL] the combined invariant holds initially, is preserved by every Apply and therefore holds in every state reachable from the empty database by any list of (index, command) pairs *)
Theorem meta_inv_reachable :
  cinv d_init /\
  (forall d i c d' r, dapply d i c = Some (d', r) -> cinv d -> cinv d') /\
  (forall cs s r, apply_all s_init cs = Some (s, r) -> cinv (fst s)).
Proof. split; [exact cinv_init|]. split; [exact dapply_cinv|exact reachable_cinv]. Qed.
Print Assumptions meta_inv_reachable.

(* [FULL] clause a, state form: in every reachable state every existing blob lies in an existing partition whose NextBlobKey is greater than the blob's key, so a later CreateBlob cannot hand the id out again *)
Theorem blob_keys_below_next :
  forall cs s r id, apply_all s_init cs = Some (s, r) -> has id (d_blobs (fst s)) ->
    exists p, aget (blob_part id) (d_parts (fst s)) = Some p /\ id mod two32 < p_nextblob p.
Proof. intros cs s r id H Hh. destruct (reachable_cinv _ _ _ H) as (_ & Ia & _). exact (Ia id Hh). Qed.
Print Assumptions blob_keys_below_next.

(* [FULL] clause a, counters: one Apply never removes a partition and never decreases its NextBlobKey or NextRsChunkKey; alloc_sane only excludes an AllocateRSChunkIDs count so large that the uint64 sum wraps *)
Theorem id_counters_never_decrease :
  forall d i c d' r q p,
    dapply d i c = Some (d', r) -> pinv d -> alloc_sane c -> aget q (d_parts d) = Some p ->
    exists p', aget q (d_parts d') = Some p' /\ p_nextblob p <= p_nextblob p' /\ p_nextrs p <= p_nextrs p'.
Proof. exact counters_monotone_lemma. Qed.
Print Assumptions id_counters_never_decrease.

(* [FULL] clause a, history form: for any list of (index, command) pairs applied to the empty database, the blob ids returned by the successful CreateBlob commands are pairwise distinct, also across final deletions in between *)
Theorem created_ids_never_repeat :
  forall cs d rs, dapply_all d_init cs = Some (d, rs) -> NoDup (created rs).
Proof. intros cs d rs H. exact (proj1 (created_fresh _ _ _ _ H pinv_init)). Qed.
Print Assumptions created_ids_never_repeat.

(* [FULL] clause b: across one Apply on a state satisfying the invariant, a blob that exists before and after never has fewer tracts; together with live_blob_never_removed the tract list only grows while the blob exists *)
Theorem tract_list_only_grows :
  forall d i c d' r id b b',
    dapply d i c = Some (d', r) -> cinv d ->
    aget id (d_blobs d) = Some b -> aget id (d_blobs d') = Some b' ->
    (length (b_tracts b) <= length (b_tracts b'))%nat.
Proof. intros. exact (proj1 (dapply_blob_rel _ _ _ _ _ _ _ _ H H0 H1 H2)). Qed.
Print Assumptions tract_list_only_grows.

(* [FULL] clause b, prefix form, in every state reachable from the empty database by any list of index and command pairs and for any next command: tract m of a blob that exists before and after is still at position m, its version related by vrel as in clause d, its holders kept, cleared, or replaced by the ChangeTract naming it with a list of the same length; and if the command is an ExtendBlob, then every blob is exactly unchanged except, on success, the named live blob, whose new tract list is the old list followed by one fresh tract, version 1 and no RS pointer, per host list of the command, first being the old length *)
Theorem extend_keeps_existing_tracts :
  forall cs s rs i c d' r id b,
    apply_all s_init cs = Some (s, rs) -> dapply (fst s) i c = Some (d', r) -> aget id (d_blobs (fst s)) = Some b ->
    (forall b' m t, aget id (d_blobs d') = Some b' -> nth_error (b_tracts b) m = Some t ->
       exists t', nth_error (b_tracts b') m = Some t' /\ vrel c id m t t' /\ hrel_n c id m t t') /\
    (forall eid first hs, c = CExtend eid first hs ->
       exists b', aget id (d_blobs d') = Some b' /\
         (b' = b \/ (eid = id /\ r = [6; e_NoError; N.of_nat (length (b_tracts b'))] /\ live_blob (fst s) id = Some b /\
                     first = N.of_nat (length (b_tracts b)) /\ b_tracts b' = b_tracts b ++ map fresh_tract hs))).
Proof. exact extend_keeps_lemma. Qed.
Print Assumptions extend_keeps_existing_tracts.

(* [FULL] clause d: across one Apply the version of an existing tract is unchanged, or is raised by exactly one as uint32 by the ChangeTract that names this tract and demands exactly that, or is set to NewVersion by a CommitRSChunk entry naming this tract, and then NewVersion is the stored version plus one, the repair of finding F6, unless the entry carries NewVersion below 2, which the repaired command deliberately does not check *)
Theorem tract_versions_change_only_by_one :
  forall d i c d' r id b b' m t t',
    dapply d i c = Some (d', r) -> cinv d ->
    aget id (d_blobs d) = Some b -> aget id (d_blobs d') = Some b' ->
    nth_error (b_tracts b) m = Some t -> nth_error (b_tracts b') m = Some t' ->
    vrel c id m t t'.
Proof. intros. exact (proj1 (proj2 (dapply_blob_rel _ _ _ _ _ _ _ _ H H0 H1 H2)) m t t' H3 H4). Qed.
Print Assumptions tract_versions_change_only_by_one.

(* [FULL] clause d as monotonicity, no carve-out left for real versions: for every command whose CommitRSChunk entries, if any, carry NewVersion of at least 2, and every stored version below 2^32 - 1, the version of an existing tract never decreases and moves by at most one; what remains outside is exactly a CommitRSChunk entry with NewVersion 0 or 1, which the command stores unchecked *)
Theorem tract_versions_never_decrease :
  forall d i c d' r id b b' m t t',
    dapply d i c = Some (d', r) -> cinv d ->
    (forall cid cls hosts data e, c = CCommitRS cid cls hosts data -> In e (concat data) -> 2 <= et_newver e) ->
    aget id (d_blobs d) = Some b -> aget id (d_blobs d') = Some b' ->
    nth_error (b_tracts b) m = Some t -> nth_error (b_tracts b') m = Some t' ->
    t_version t + 1 < two32 -> t_version t' = t_version t \/ t_version t' = t_version t + 1.
Proof.
  intros d i c d' r id b b' m t t' H C Hc G G' N1 N2 Hb.
  destruct (proj1 (proj2 (dapply_blob_rel _ _ _ _ _ _ _ _ H C G G')) m t t' N1 N2)
    as [E|[(idx & ver & hosts & _ & _ & _ & E)|(cid & cls & hosts & data & e & Ec & Hin & _ & _ & E & Hv)]].
  - left. exact E.
  - right. rewrite E. unfold u32. apply N.mod_small. exact Hb.
  - pose proof (Hc _ _ _ _ _ Ec Hin) as H2. destruct Hv as [Hv|Hv]; [exfalso; apply (N.lt_irrefl 2); eapply N.le_lt_trans; eauto|].
    right. rewrite E, Hv. unfold u32. apply N.mod_small. exact Hb.
Qed.
Print Assumptions tract_versions_never_decrease.

(* [REFUTED] what remains of the carve-out: a CommitRSChunk entry with NewVersion below 2 is applied without any version check and sets the stored version 3 back to 1 *)
Theorem commitrs_without_version_unchecked :
  exists d d' b b' t t',
    dapply_all d_init (firstn 7 f6_cmds) = Some (d, [[2; 1]; [3; 0]; [5; 4294967297; 0]; [6; 0; 1]; [1; 0]; [1; 0]; [9; 0; 2147483649; 1]]) /\
    dapply d 8 (CCommitRS (2147483649, 1) c_ClassRS63 [1; 2; 3; 4; 5; 6; 7; 8; 9]
                 [[mkET 4294967297 0 0 100 1]; []; []; []; []; []]) = Some (d', [1; e_NoError]) /\
    aget 4294967297 (d_blobs d) = Some b /\ aget 4294967297 (d_blobs d') = Some b' /\
    nth_error (b_tracts b) 0 = Some t /\ nth_error (b_tracts b') 0 = Some t' /\
    t_version t = 3 /\ t_version t' = 1.
Proof.
  pose (d := match dapply_all d_init (firstn 7 f6_cmds) with Some (d, _) => d | None => d_init end).
  pose (d' := match dapply d 8 (CCommitRS (2147483649, 1) c_ClassRS63 [1; 2; 3; 4; 5; 6; 7; 8; 9]
                 [[mkET 4294967297 0 0 100 1]; []; []; []; []; []]) with Some (d', _) => d' | None => d_init end).
  pose (bb := fun x : dstate => match aget 4294967297 (d_blobs x) with Some b => b | None => mkBlob 9 9 9 9 9 9 9 [] end).
  pose (tt := fun x : dstate => match nth_error (b_tracts (bb x)) 0 with Some t => t | None => mkTract [] 99 None None None None end).
  exists d, d', (bb d), (bb d'), (tt d), (tt d'). repeat (match goal with |- _ /\ _ => split end); vm_compute; reflexivity.
Qed.
Print Assumptions commitrs_without_version_unchecked.

(* [FULL] clause e: a blob marked deleted is returned by no lookup, and across one Apply it is either gone, which by live_blob_never_removed only a FinishDelete naming it does, or exactly unchanged, unless the command is an Undelete *)
Theorem deleted_blob_invisible_and_unchanged :
  forall d i c d' r id b,
    dapply d i c = Some (d', r) -> cinv d ->
    aget id (d_blobs d) = Some b -> b_deleted b <> 0 ->
    live_blob d id = None /\
    ((forall u, c <> CUndelete u) -> aget id (d_blobs d') = None \/ aget id (d_blobs d') = Some b).
Proof.
  intros d i c d' r id b H C G Hn. split; [eapply deleted_invisible_lemma; eauto|].
  intros Hu. destruct (aget id (d_blobs d')) as [b'|] eqn:G'; [right|left; reflexivity].
  f_equal. exact (proj1 (proj2 (proj2 (dapply_blob_rel _ _ _ _ _ _ _ _ H C G G'))) Hn Hu).
Qed.
Print Assumptions deleted_blob_invisible_and_unchanged.

(* [FULL] clause e, answer form, for any state and any command that is actually executed, index above txn_index and not in read-only mode: if the blob id is present and marked deleted, then ExtendBlob, DeleteBlob, SetMetadata, ChangeTract and UpdateStorageClass naming it answer ErrNoSuchBlob in their result type and change nothing but txn_index; a CommitRSChunk with an entry naming it fails with an error, ErrNoSuchBlob unless an earlier entry or the chunk-exists check fails first, and changes nothing but txn_index; UpdateTimes answers NoError and leaves the blob exactly as it is. Undelete is the exception, FinishDelete is the final deletion of live_blob_never_removed, the remaining commands name no blob *)
Theorem deleted_blob_commands_refused :
  forall d i c d' r id b,
    dapply d i c = Some (d', r) -> aget id (d_blobs d) = Some b -> b_deleted b <> 0 ->
    d_index d < i -> d_ro d = false ->
    (names_one c id -> r = nosuch_answer c /\ d' = set_index d i) /\
    (names_commit c id -> (exists e, r = r_err e /\ e <> e_NoError) /\ d' = set_index d i) /\
    (forall ups, c = CUpdateTimes ups -> r = r_err e_NoError /\ aget id (d_blobs d') = Some b).
Proof. exact deleted_refused_lemma. Qed.
Print Assumptions deleted_blob_commands_refused.

(* [FULL] clause a for RS chunk ids: a successful AllocateRSChunkIDs n returns the NextRsChunkKey k of a partition, none of the ids k to k+n-1 had been handed out before and all of them count as handed out afterwards; n below 2^64 - MaxRSChunkKey excludes only a uint64 wrap *)
Theorem rs_chunk_ids_fresh :
  forall d i n d' rp k, dapply d i (CAllocRS n) = Some (d', [9; e_NoError; rp; k]) -> pinv d ->
    n < two64 - c_MaxRSChunkKey ->
    exists pid, rp = rs_partition_id pid /\
      forall j, k <= j -> j < k + n -> ~ below_rs d pid j /\ below_rs d' pid j.
Proof. exact alloc_fresh. Qed.
Print Assumptions rs_chunk_ids_fresh.

(* [FULL] clause a for RS chunk ids, second half: an id that has been handed out stays handed out across every later Apply, so with rs_chunk_ids_fresh no RS chunk id is ever returned twice *)
Theorem rs_chunk_ids_stay_taken :
  forall d i c d' r pid k, dapply d i c = Some (d', r) -> pinv d -> alloc_sane c ->
    below_rs d pid k -> below_rs d' pid k.
Proof. exact below_rs_step. Qed.
Print Assumptions rs_chunk_ids_stay_taken.

(* [FULL] clause c under the submittable hypothesis on host lists, tractserver ids of ExtendBlob and ChangeTract between 1 and 2^20 - 1: preserved by every Apply and hence true in every state reachable by such commands, every tract has either no replicated holders, after UpdateStorageClass to an RS class, or exactly repl of them, all non-zero and below 2^20 *)
Theorem replicated_tracts_have_repl_holders :
  (forall d i c d' r, dapply d i c = Some (d', r) -> cinv d -> hosts_sub c -> inv_c d -> inv_c d') /\
  (forall cs d rs, dapply_all d_init cs = Some (d, rs) -> Forall (fun e => hosts_sub (snd e)) cs -> inv_c d).
Proof.
  split; [exact inv_c_step|]. intros cs d rs H Hs. eapply inv_c_run; eauto; [exact cinv_init|exact inv_c_init].
Qed.
Print Assumptions replicated_tracts_have_repl_holders.

(* [FULL] clause h under the same host-list hypothesis as clause c, needed because the first three host slots are stored truncated to 20 bits while the known set stores the full id: preserved by every Apply and true in every state reachable by such commands, the known-tractserver set contains every holder of every tract and every host of every RS chunk *)
Theorem known_tsids_cover_all_holders :
  (forall d i c d' r, dapply d i c = Some (d', r) -> inv_c d -> hosts_sub c -> inv_h d -> inv_h d') /\
  (forall cs d rs, dapply_all d_init cs = Some (d, rs) -> Forall (fun e => hosts_sub (snd e)) cs -> inv_h d).
Proof.
  split; [exact inv_h_step|]. intros cs d rs H Hs.
  exact (proj2 (inv_ch_run _ _ _ _ H cinv_init Hs (conj inv_c_init inv_h_init))).
Qed.
Print Assumptions known_tsids_cover_all_holders.

(* [FULL] clause g under the layout hypothesis layout_sub, every data piece of a submitted CommitRSChunk is accepted by checkTractSpec for RSPieceLength, which is what C13 proved about packTracts, see packtracts_layouts_satisfy_layout_sub: inv_g is preserved by every Apply, holds in every state reachable by such commands from the empty database, and means that every RS pointer of every tract of every blob names a chunk present in the chunk table, one of whose pieces lists exactly that blob id and tract index at an extent that ends inside the piece and overlaps no other extent of the piece; every stored piece is moreover sorted and in range. Only the direction tract to chunk is claimed, UpdateStorageClass may leave chunk entries behind *)
Theorem rs_pointers_well_formed :
  (forall d i c d' r, dapply d i c = Some (d', r) -> cinv d -> layout_sub c -> inv_g d -> inv_g d') /\
  (forall cs d rs, dapply_all d_init cs = Some (d, rs) -> Forall (fun e => layout_sub (snd e)) cs -> inv_g d) /\
  (forall d id b m t cls cid, inv_g d ->
     aget id (d_blobs d) = Some b -> nth_error (b_tracts b) m = Some t -> rs_get cls t = Some cid ->
     exists ch piece r, aget (chunk_key cid) (d_chunks d) = Some ch /\ In piece (c_data ch) /\ In r piece /\
       rt_blob r = id /\ rt_idx r = N.of_nat m /\ rt_off r + rt_len r <= c_meta_RSPieceLength /\
       forall i j ri rj, (i < j)%nat -> nth_error piece i = Some ri -> nth_error piece j = Some rj ->
                         rt_off ri + rt_len ri <= rt_off rj).
Proof.
  split; [exact inv_g_step|]. split; [|exact inv_g_meaning].
  intros cs d rs H Hs. eapply inv_g_run; eauto; [exact cinv_init|exact inv_g_init].
Qed.
Print Assumptions rs_pointers_well_formed.

(* [FULL] the layout hypothesis is what C13 proved: for tract lengths whose padded length fits RSPieceLength, every chunk that first-fit-decreasing packTracts produces, transcribed extent by extent into CommitRSChunk entries with any tract ids and versions, is a piece accepted by cmd_spec within RSPieceLength; uses C13 pack_layout_wf *)
Theorem packtracts_layouts_satisfy_layout_sub :
  forall lens (mk : C13.Model.ext -> enc_tract),
    (forall x, et_off (mk x) = C13.Model.e_off x /\ et_len (mk x) = C13.Model.e_len x) ->
    Forall (fun l => C13.Model.padded l <= c_meta_RSPieceLength) lens ->
    Forall (fun c => exists e, cmd_spec 0 (map mk (C13.Model.pc_exts c)) = Some e /\ e <= c_meta_RSPieceLength)
           (C13.Model.ffd lens c_meta_RSPieceLength).
Proof. exact packed_layouts_accepted. Qed.
Print Assumptions packtracts_layouts_satisfy_layout_sub.

(* [FULL] clause g, pad alignment, under layout_sub and the alignment hypothesis aligned_sub, every extent of a submitted CommitRSChunk starts at a multiple of padToLength: inv_pad is preserved by every Apply, holds in every state reachable by such commands from the empty database, and means that every extent of every piece of every stored chunk starts at a multiple of padToLength; extents are only ever removed, by FinishDelete, or added as the layout of a CommitRSChunk *)
Theorem rs_extents_pad_aligned :
  (forall d i c d' r, dapply d i c = Some (d', r) -> layout_sub c -> aligned_sub c -> inv_pad d -> inv_pad d') /\
  (forall cs d rs, dapply_all d_init cs = Some (d, rs) ->
     Forall (fun e => layout_sub (snd e) /\ aligned_sub (snd e)) cs -> inv_pad d) /\
  (forall d k ch piece x, inv_pad d -> aget k (d_chunks d) = Some ch -> In piece (c_data ch) -> In x piece ->
     rt_off x mod c13_padToLength = 0).
Proof. exact pad_aligned_lemma. Qed.
Print Assumptions rs_extents_pad_aligned.

(* [FULL] the alignment hypothesis is the other half of what C13 proved about packTracts: under the same conditions as packtracts_layouts_satisfy_layout_sub every extent of every chunk of first-fit-decreasing packTracts starts at a multiple of padToLength; uses C13 pack_layout_wf *)
Theorem packtracts_layouts_aligned :
  forall lens (mk : C13.Model.ext -> enc_tract),
    (forall x, et_off (mk x) = C13.Model.e_off x /\ et_len (mk x) = C13.Model.e_len x) ->
    Forall (fun l => C13.Model.padded l <= c_meta_RSPieceLength) lens ->
    Forall (fun c => Forall (fun e => et_off e mod c13_padToLength = 0) (map mk (C13.Model.pc_exts c)))
           (C13.Model.ffd lens c_meta_RSPieceLength).
Proof. exact packed_layouts_aligned. Qed.
Print Assumptions packtracts_layouts_aligned.

(* non-vacuity: a history with two creates, an extend, a replica change, a delete, a final delete and a re-create; the
   hypotheses of the step theorems are met at every step (cinv by meta_inv_reachable) and the conclusions are not trivial *)
Definition ex11 : list (N * cmd) :=
  [(1, CSetReg 1); (2, CAddPart 1); (3, CCreate 3 (1600000000 * nano) 0 0); (4, CCreate 2 (1600000001 * nano) 0 0);
   (5, CExtend 4294967297 0 [[1; 2; 3]; [4; 5; 6]]); (6, CChangeTract 4294967297 1 2 [4; 5; 7]);
   (7, CDelete 4294967298 (1600000005 * nano)); (8, CFinishDelete (1600000009 * nano) [4294967298]);
   (9, CCreate 1 (1600000010 * nano) 0 0); (10, CAllocRS 9)].
Example ex11_run :
  exists d rs b t,
    dapply_all d_init ex11 = Some (d, rs) /\ created rs = [4294967297; 4294967298; 4294967299] /\
    aget 4294967298 (d_blobs d) = None /\ aget 4294967297 (d_blobs d) = Some b /\
    length (b_tracts b) = 2%nat /\ nth_error (b_tracts b) 1 = Some t /\ t_version t = 2 /\
    aget 1 (d_parts d) = Some (mkPart 4 10) /\
    t_hosts t = [4; 5; 7] /\ b_repl b = 3 /\ nth_error rs 9 = Some [9; e_NoError; rs_partition_id 1; 1] /\
    d_tsids d = [1; 2; 3; 4; 5; 6; 7].
Proof.
  pose (d := match dapply_all d_init ex11 with Some (d, _) => d | None => d_init end).
  pose (rs := match dapply_all d_init ex11 with Some (_, r) => r | None => [] end).
  pose (b := match aget 4294967297 (d_blobs d) with Some b => b | None => mkBlob 9 9 9 9 9 9 9 [] end).
  pose (t := match nth_error (b_tracts b) 1 with Some t => t | None => mkTract [] 99 None None None None end).
  exists d, rs, b, t. repeat (match goal with |- _ /\ _ => split end); vm_compute; reflexivity.
Qed.

Example ex11_hosts_sub : Forall (fun e => hosts_sub (snd e)) ex11.
Proof. repeat constructor; cbn; unfold host_ok, two20; repeat constructor; lia. Qed.

(* non-vacuity for clause g: one chunk whose first piece packs tract 0 of blob A and tract 0 of blob B; B is deleted and
   finally deleted; A's pointer still names the chunk, whose piece now lists only A's tract *)
Definition exg : list (N * cmd) :=
  [(1, CSetReg 1); (2, CAddPart 1); (3, CCreate 3 (1600000000 * nano) 0 0); (4, CCreate 3 (1600000001 * nano) 0 0);
   (5, CExtend 4294967297 0 [[1; 2; 3]]); (6, CExtend 4294967298 0 [[4; 5; 6]]); (7, CAllocRS 9);
   (8, CCommitRS (2147483649, 1) c_ClassRS63 [1; 2; 3; 4; 5; 6; 7; 8; 9]
         [[mkET 4294967297 0 0 100 2; mkET 4294967298 0 4096 200 2]; []; []; []; []; []]);
   (9, CDelete 4294967298 (1600000005 * nano)); (10, CFinishDelete (1600000009 * nano) [4294967298])].

Example exg_layout_sub : Forall (fun e => layout_sub (snd e)) exg.
Proof.
  repeat constructor; cbn; try (exists 4296; split; [reflexivity|unfold c_meta_RSPieceLength; lia]);
    try (exists 0; split; [reflexivity|unfold c_meta_RSPieceLength; lia]).
Qed.

Example exg_run :
  exists d rs bA tA ch,
    dapply_all d_init exg = Some (d, rs) /\ nth_error rs 7 = Some [1; e_NoError] /\
    aget 4294967298 (d_blobs d) = None /\ aget 4294967297 (d_blobs d) = Some bA /\
    nth_error (b_tracts bA) 0 = Some tA /\ rs_get c_ClassRS63 tA = Some (2147483649, 1) /\ t_version tA = 2 /\
    aget (chunk_key (2147483649, 1)) (d_chunks d) = Some ch /\
    nth_error (c_data ch) 0 = Some [mkRT 4294967297 0 100 0].
Proof.
  pose (d := match dapply_all d_init exg with Some (d, _) => d | None => d_init end).
  pose (rs := match dapply_all d_init exg with Some (_, r) => r | None => [] end).
  pose (b := match aget 4294967297 (d_blobs d) with Some b => b | None => mkBlob 9 9 9 9 9 9 9 [] end).
  pose (t := match nth_error (b_tracts b) 0 with Some t => t | None => mkTract [] 99 None None None None end).
  pose (ch := match aget (chunk_key (2147483649, 1)) (d_chunks d) with Some c => c | None => mkChunk [] [] end).
  exists d, rs, b, t, ch. repeat (match goal with |- _ /\ _ => split end); vm_compute; reflexivity.
Qed.

(* and the theorem applies to it *)
Example exg_inv_g : forall d rs, dapply_all d_init exg = Some (d, rs) -> inv_g d.
Proof. intros d rs H. exact (proj1 (proj2 rs_pointers_well_formed) exg d rs H exg_layout_sub). Qed.
