(* C11/Props.v — property-level theorems only. Tags are read by bin/check. *)
From Coq Require Import List NArith.
From BLB Require Import Meta.AMap Meta.Curator.
Import ListNotations.
Open Scope N_scope.
