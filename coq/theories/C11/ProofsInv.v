(* C11/ProofsInv.v — the C11 invariant clause by clause, each as a step theorem about [dapply] (any command, any index)
   and a reachability theorem about [dapply_all] from the empty database (any (index, command) list). *)
From Coq Require Import List Arith NArith Bool Lia ZifyN ZifyNat ZifyBool.
From BLB Require Import Gen.Consts Meta.AMap Meta.Curator Meta.CuratorFacts Meta.CuratorInv C11.Proofs.
Import ListNotations.
Open Scope N_scope.

(* ---------- sorted partition table: first_part and aget agree ---------- *)

Lemma asorted_lt : forall {V} (r : amap V) k' v' k v, asorted ((k', v') :: r) -> In (k, v) r -> k' < k.
Proof.
  induction r as [|[k2 v2] r IH]; intros k' v' k v S H; [contradiction|].
  destruct S as [S1 S2]. destruct H as [H|H].
  - inv H. exact S1.
  - pose proof (IH k2 v2 k v S2 H). lia.
Qed.

Lemma asorted_In_aget : forall {V} (m : amap V) k v, asorted m -> In (k, v) m -> aget k m = Some v.
Proof.
  induction m as [|[k' v'] r IH]; intros k v S H; [contradiction|]. cbn [aget].
  destruct H as [H|H].
  - inv H. now rewrite N.eqb_refl.
  - pose proof (asorted_lt _ _ _ _ _ S H). destruct (k =? k') eqn:E; [lia|].
    apply IH; auto. cbn [asorted] in S. tauto.
Qed.

Lemma first_part_aget : forall f ps k p, asorted ps -> first_part f ps = Some (k, p) -> aget k ps = Some p /\ f p = true.
Proof.
  intros f ps k p S H. split; [apply asorted_In_aget; auto; eapply first_part_In; eauto|].
  clear S. induction ps as [|[k' p'] r IH]; cbn in H; [discriminate|].
  destruct (f p') eqn:E; [inv H; exact E|auto].
Qed.

Definition psorted (d : dstate) : Prop := asorted (d_parts d).

Lemma fold_psorted : forall {A} (f : dstate -> A -> dstate) l d,
  (forall d x, psorted d -> psorted (f d x)) -> psorted d -> psorted (fold_left f l d).
Proof. induction l; intros; cbn; auto. Qed.

Lemma add_partition_sorted : forall d p, psorted d -> psorted (fst (add_partition d p)).
Proof. intros. unfold add_partition. destruct (aget p (d_parts d)); cbn; auto. apply asorted_aput; auto. Qed.

Lemma apply_mut_psorted : forall d c d' r, apply_mut d c = Some (d', r) -> psorted d -> psorted d'.
Proof.
  intros d c d' r H W. destruct c; cbn [apply_mut] in H.
  - inv H; auto.
  - inv H. break_goal; auto.
  - pose proof (add_partition_sorted d p W). destruct (add_partition d p). inv H. exact H0.
  - inv H. apply fold_psorted; auto. intros; apply add_partition_sorted; auto.
  - unfold do_create in H. repeat break_hyp H; try (inv H; exact W).
    inv H. unfold psorted. rewrite (put_blob_parts _ _ _ _ Heqo0). cbn. apply asorted_aput; auto.
  - unfold do_extend in H. repeat break_hyp H; inv H; auto. unfold psorted. erewrite put_blob_parts; eauto.
  - unfold do_delete in H. repeat break_hyp H; inv H; auto. unfold psorted. erewrite put_blob_parts; eauto.
  - unfold do_undelete in H. repeat break_hyp H; inv H; auto. unfold psorted. erewrite put_blob_parts; eauto.
  - unfold do_finish in H. inv H. apply fold_psorted; auto.
  - unfold do_setmeta in H. repeat break_hyp H; inv H; auto. unfold psorted. erewrite put_blob_parts; eauto.
  - unfold do_change in H. repeat break_hyp H; inv H; auto.
  - inv H. apply fold_psorted; auto. intros d0 [b [m a]] W0. unfold update_one. break_goal; auto.
  - unfold do_allocrs in H. repeat break_hyp H; inv H; auto. unfold psorted. cbn. apply asorted_aput; auto.
  - unfold do_commit, do_commit_unchecked in H. repeat break_hyp H; inv H; auto.
  - unfold do_rshosts in H. repeat break_hyp H; inv H; auto.
  - unfold do_updatesc in H. repeat break_hyp H; inv H; auto. unfold psorted. erewrite put_blob_parts; eauto.
  - inv H; auto.
  - inv H; auto.
Qed.

Lemma dapply_psorted : forall d i c d' r, dapply d i c = Some (d', r) -> psorted d -> psorted d'.
Proof.
  intros d i c d' r H W. unfold dapply in H. destruct (i <=? d_index d); [inv H; auto|].
  destruct c;
    try (destruct (d_ro (set_index d i)); [inv H; exact W|]; eapply apply_mut_psorted; [exact H|exact W]);
    try (inv H; exact W).
Qed.

Lemma fold_parts_same : forall {A} (f : dstate -> A -> dstate) l d,
  (forall d x, d_parts (f d x) = d_parts d) -> d_parts (fold_left f l d) = d_parts d.
Proof. induction l; intros; cbn; auto. rewrite IHl; auto. Qed.

Ltac pbp := match goal with Hp : put_blob _ _ _ = Some _ |- _ => rewrite (put_blob_parts _ _ _ _ Hp) end.

(* ---------- how one command changes the partition table ---------- *)

Definition pchange (c : cmd) (x x' : option part) : Prop :=
  x' = x
  \/ (x = None /\ x' = Some (mkPart 1 1))
  \/ (exists p, x = Some p /\ p_nextblob p <> c_MaxBlobKey /\ x' = Some (mkPart (u32 (p_nextblob p + 1)) (p_nextrs p)))
  \/ (exists p n, c = CAllocRS n /\ x = Some p /\ x' = Some (mkPart (p_nextblob p) ((p_nextrs p + n) mod two64))).

Lemma add_partition_get : forall d p q,
  aget q (d_parts (fst (add_partition d p))) = aget q (d_parts d)
  \/ (aget q (d_parts d) = None /\ aget q (d_parts (fst (add_partition d p))) = Some (mkPart 1 1)).
Proof.
  intros. unfold add_partition. destruct (aget p (d_parts d)) eqn:E; cbn; [now left|].
  rewrite aget_aput. destruct (q =? p) eqn:E2; [|now left]. apply N.eqb_eq in E2; subst. now right.
Qed.

Lemma sync_get : forall ps d q,
  aget q (d_parts (fold_left (fun acc p => fst (add_partition acc p)) ps d)) = aget q (d_parts d)
  \/ (aget q (d_parts d) = None /\
      aget q (d_parts (fold_left (fun acc p => fst (add_partition acc p)) ps d)) = Some (mkPart 1 1)).
Proof.
  induction ps as [|p ps IH]; intros d q; cbn [fold_left]; [now left|].
  destruct (IH (fst (add_partition d p)) q) as [H|[H1 H2]]; destruct (add_partition_get d p q) as [G|[G1 G2]].
  - left; congruence.
  - right; split; congruence.
  - right; split; congruence.
  - congruence.
Qed.

Lemma apply_mut_pchange : forall d c d' r q, psorted d -> apply_mut d c = Some (d', r) ->
  pchange c (aget q (d_parts d)) (aget q (d_parts d')).
Proof.
  intros d c d' r q S H. destruct c; cbn [apply_mut] in H.
  - inv H; now left.
  - inv H. break_goal; now left.
  - pose proof (add_partition_get d p q) as G. destruct (add_partition d p). inv H. cbn in G.
    destruct G as [G|G]; [left; auto|right; left; auto].
  - inv H. destruct (sync_get ps d q) as [G|G]; [left; auto|right; left; auto].
  - unfold do_create in H. repeat break_hyp H; try (inv H; now left).
    inv H. rewrite (put_blob_parts _ _ _ _ Heqo0). cbn. rewrite aget_aput.
    destruct (q =? n) eqn:E; [|now left]. apply N.eqb_eq in E; subst.
    destruct (first_part_aget _ _ _ _ S Heqo) as [G1 G2]. right. right. left.
    exists p0. rewrite G1. repeat split; auto. apply negb_true_iff, N.eqb_neq in G2. exact G2.
  - unfold do_extend in H. repeat break_hyp H; inv H; try now left. pbp. now left.
  - unfold do_delete in H. repeat break_hyp H; inv H; try now left. pbp. now left.
  - unfold do_undelete in H. repeat break_hyp H; inv H; try now left. pbp. now left.
  - unfold do_finish in H. inv H. left. rewrite fold_parts_same; auto.
  - unfold do_setmeta in H. repeat break_hyp H; inv H; try now left. pbp. now left.
  - unfold do_change in H. repeat break_hyp H; inv H; now left.
  - inv H. left. rewrite fold_parts_same; auto. intros d0 [b [m a]]. unfold update_one. break_goal; auto.
  - unfold do_allocrs in H. repeat break_hyp H; inv H; try now left.
    cbn. rewrite aget_aput. destruct (q =? n0) eqn:E; [|now left]. apply N.eqb_eq in E; subst.
    destruct (first_part_aget _ _ _ _ S Heqo) as [G1 G2]. right. right. right.
    exists p0, n. rewrite G1. auto.
  - unfold do_commit, do_commit_unchecked in H. repeat break_hyp H; inv H; now left.
  - unfold do_rshosts in H. repeat break_hyp H; inv H; now left.
  - unfold do_updatesc in H. repeat break_hyp H; inv H; try now left. pbp. now left.
  - inv H; now left.
  - inv H; now left.
Qed.

(* ---------- lifting from apply_mut to dapply ---------- *)

Definition same_data (d d' : dstate) : Prop :=
  d_parts d' = d_parts d /\ d_blobs d' = d_blobs d /\ d_chunks d' = d_chunks d /\ d_tsids d' = d_tsids d /\ d_cid d' = d_cid d.

Lemma dapply_cases : forall d i c d' r, dapply d i c = Some (d', r) ->
  (same_data d d' /\ hd 0 r <> 5 /\ hd 0 r <> 9)
  \/ (apply_mut (set_index d i) c = Some (d', r) /\ d_ro d = false /\ d_index d < i /\ is_write c = true).
Proof.
  intros d i c d' r H. unfold dapply in H.
  destruct (i <=? d_index d) eqn:E; [inv H; left; repeat split; cbn; lia|].
  destruct c;
    try (destruct (d_ro (set_index d i)) eqn:Er;
         [inv H; left; repeat split; cbn; try lia; unfold e_ReadOnlyMode; lia
         |right; repeat split; auto; lia]);
    try (inv H; left; repeat split; cbn; lia).
Qed.

(* ---------- partition counters: well-formed, never decreasing ---------- *)

Definition pinv (d : dstate) : Prop :=
  psorted d /\ forall q p, aget q (d_parts d) = Some p -> p_nextblob p < two32 /\ p_nextrs p <= c_MaxRSChunkKey.

(* pchange with the allocation guard made explicit *)
Lemma allocrs_guard : forall d n d' r q p p',
  psorted d -> do_allocrs d n = Some (d', r) -> aget q (d_parts d) = Some p -> aget q (d_parts d') = Some p' ->
  p' = p \/ (p_nextblob p' = p_nextblob p /\ p_nextrs p' = (p_nextrs p + n) mod two64 /\ p_nextrs p' <= c_MaxRSChunkKey).
Proof.
  intros d n d' r q p p' S H G G'. unfold do_allocrs in H. repeat break_hyp H; inv H; try (left; congruence).
  match goal with Hf : first_part _ _ = Some (?k, ?pp) |- _ =>
    cbn in G'; rewrite aget_aput in G'; destruct (q =? k) eqn:E; [|left; congruence];
    apply N.eqb_eq in E; subst; destruct (first_part_aget _ _ _ _ S Hf) as [G1 G2] end.
  inv G'. rewrite G in G1. inv G1. right. cbn. repeat split; auto. lia.
Qed.

Lemma apply_mut_pinv : forall d c d' r, apply_mut d c = Some (d', r) -> pinv d -> pinv d'.
Proof.
  intros d c d' r H [S W]. split; [eapply apply_mut_psorted; eauto|].
  intros q p' G'. pose proof (apply_mut_pchange d c d' r q S H) as P. rewrite G' in P.
  destruct P as [P|[[P1 P2]|[(p & P1 & P2 & P3)|(p & n & P0 & P1 & P2)]]].
  - apply (W q). congruence.
  - inv P2. cbn. unfold two32, c_MaxRSChunkKey. lia.
  - inv P3. cbn. split; [apply u32_lt|]. apply (W q p). congruence.
  - subst c. cbn [apply_mut] in H. 
    destruct (allocrs_guard _ _ _ _ _ _ _ S H P1 G') as [->|(A & B & C)]; [apply (W q); auto|].
    split; [rewrite A; apply (W q p P1)|exact C].
Qed.

Lemma pinv_init : pinv d_init.
Proof. split; [exact I|]. intros q p H. discriminate. Qed.

Lemma dapply_pinv : forall d i c d' r, dapply d i c = Some (d', r) -> pinv d -> pinv d'.
Proof.
  intros d i c d' r H P. destruct (dapply_cases _ _ _ _ _ H) as [[(E1 & _) _]|(A & _)].
  - unfold pinv, psorted in *. rewrite E1. exact P.
  - eapply apply_mut_pinv; eauto.
Qed.

Lemma dapply_all_pinv : forall cs d d' r, dapply_all d cs = Some (d', r) -> pinv d -> pinv d'.
Proof.
  induction cs as [|[i c] cs IH]; intros d d' r H P; cbn [dapply_all] in H; [inv H; exact P|].
  destruct (dapply d i c) as [[d1 res]|] eqn:E; [|discriminate].
  destruct (dapply_all d1 cs) as [[d2 rs]|] eqn:E2; [|discriminate]. inv H.
  eapply IH; eauto. eapply dapply_pinv; eauto.
Qed.

(* an allocation request of a sane size (the Go int is positive; 2^63 is far beyond MaxRSChunkKey) *)
Definition alloc_sane (c : cmd) : Prop := forall n, c = CAllocRS n -> n < two64 - c_MaxRSChunkKey.

(* clause (a), counters: a partition never disappears and its two allocators never decrease *)
Lemma counters_monotone_lemma : forall d i c d' r q p,
  dapply d i c = Some (d', r) -> pinv d -> alloc_sane c -> aget q (d_parts d) = Some p ->
  exists p', aget q (d_parts d') = Some p' /\ p_nextblob p <= p_nextblob p' /\ p_nextrs p <= p_nextrs p'.
Proof.
  intros d i c d' r q p H [S W] Ha G.
  destruct (dapply_cases _ _ _ _ _ H) as [[(E1 & _) _]|(A & _)].
  - rewrite E1. exists p. split; auto. lia.
  - pose proof (apply_mut_pchange (set_index d i) c d' r q S A) as P. cbn [set_index d_parts] in P. rewrite G in P.
    destruct (W q p G) as [W1 W2].
    destruct P as [P|[[P1 P2]|[(p0 & P1 & P2 & P3)|(p0 & n & P0 & P1 & P2)]]].
    + exists p. split; auto. lia.
    + discriminate.
    + inv P1. rewrite P3. eexists; split; [reflexivity|]. cbn. unfold u32. unfold c_MaxBlobKey, two32 in *.
      rewrite N.mod_small by lia. lia.
    + inv P1. rewrite P2. eexists; split; [reflexivity|]. cbn. split; [lia|].
      specialize (Ha n eq_refl). unfold c_MaxRSChunkKey, two64 in *. rewrite N.mod_small by lia. lia.
Qed.

(* ---------- clause (a): blob keys stay below NextBlobKey; CreateBlob never returns an id twice ---------- *)

Lemma put_blob_blobs : forall d id x d', put_blob d id x = Some d' -> d_blobs d' = aput id (build_blob x) (d_blobs d).
Proof. unfold put_blob; intros. break_hyp H; [inv H; reflexivity|discriminate]. Qed.

Ltac pbb := match goal with Hp : put_blob _ _ _ = Some _ |- _ => rewrite (put_blob_blobs _ _ _ _ Hp) in * end.

Lemma has_live : forall d id b, live_blob d id = Some b -> aget id (d_blobs d) = Some b.
Proof. unfold live_blob; intros. destruct (aget id (d_blobs d)); [|discriminate]. break_hyp H; inv H. reflexivity. Qed.

Lemma fold_nonew : forall {A} (f : dstate -> A -> dstate) l d k,
  (forall d x, has k (d_blobs (f d x)) -> has k (d_blobs d)) -> has k (d_blobs (fold_left f l d)) -> has k (d_blobs d).
Proof. induction l as [|x l IH]; intros d k H Hh; cbn in *; auto. apply (H d x). eapply IH; eauto. Qed.

(* the only command that makes a new blob key appear is a successful CreateBlob, and the key is the partition's NextBlobKey *)
Lemma apply_mut_newkey : forall d c d' r id, psorted d -> apply_mut d c = Some (d', r) -> has id (d_blobs d') ->
  has id (d_blobs d)
  \/ exists pid p, aget pid (d_parts d) = Some p /\ p_nextblob p <> c_MaxBlobKey /\ id = pid * two32 + p_nextblob p
       /\ aget pid (d_parts d') = Some (mkPart (u32 (p_nextblob p + 1)) (p_nextrs p)) /\ r = [5; id; e_NoError].
Proof.
  intros d c d' r id S H Hh. destruct c; cbn [apply_mut] in H.
  - inv H; auto.
  - inv H. left. revert Hh. break_goal; auto.
  - unfold add_partition in H. destruct (aget p (d_parts d)); inv H; auto.
  - inv H. left. eapply fold_nonew; [|exact Hh]. intros d0 x. unfold add_partition. break_goal; auto.
  - unfold do_create in H. repeat break_hyp H; try (inv H; auto; fail).
    inv H. pbb. apply has_aput in Hh. destruct Hh as [->|Hh]; [|left; exact Hh].
    match goal with Hf : first_part _ _ = Some (?k, ?pp) |- _ => destruct (first_part_aget _ _ _ _ S Hf) as [G1 G2] end.
    right. do 2 eexists. split; [exact G1|]. split; [apply negb_true_iff, N.eqb_neq in G2; exact G2|].
    split; [reflexivity|]. split; [|reflexivity]. pbp. cbn. apply aget_aput_eq.
  - unfold do_extend in H. repeat break_hyp H; inv H; auto. pbb. apply has_aput in Hh. destruct Hh as [->|Hh]; auto.
    left. eapply live_blob_has; eauto.
  - unfold do_delete in H. repeat break_hyp H; inv H; auto. pbb. apply has_aput in Hh. destruct Hh as [->|Hh]; auto.
    left. eapply live_blob_has; eauto.
  - unfold do_undelete in H. repeat break_hyp H; inv H; auto. pbb. apply has_aput in Hh. destruct Hh as [->|Hh]; auto.
    left. unfold has. congruence.
  - unfold do_finish in H. inv H. left. eapply fold_nonew; [|exact Hh]. intros d0 x Hx. apply (has_adel x). exact Hx.
  - unfold do_setmeta in H. repeat break_hyp H; inv H; auto. pbb. apply has_aput in Hh. destruct Hh as [->|Hh]; auto.
    left. eapply live_blob_has; eauto.
  - unfold do_change in H. repeat break_hyp H; inv H; auto. cbn in Hh. apply has_aput in Hh. destruct Hh as [->|Hh]; auto.
    left. eapply live_blob_has; eauto.
  - inv H. left. eapply fold_nonew; [|exact Hh]. intros d0 [b [m a]]. unfold update_one. break_goal; auto.
    cbn. intros Hx. apply has_aput in Hx. destruct Hx as [->|Hx]; auto. eapply live_blob_has; eauto.
  - unfold do_allocrs in H. repeat break_hyp H; inv H; auto.
  - unfold do_commit, do_commit_unchecked in H. repeat break_hyp H; inv H; auto. cbn in Hh. left.
    apply fold_aput_has in Hh. destruct Hh as [Hh|Hh]; auto.
    eapply commit_loop_keys; eauto. intros k Hk. exfalso. apply Hk. reflexivity.
  - unfold do_rshosts in H. repeat break_hyp H; inv H; auto.
  - unfold do_updatesc in H. repeat break_hyp H; inv H; auto. pbb. apply has_aput in Hh. destruct Hh as [->|Hh]; auto.
    left. eapply live_blob_has; eauto.
  - inv H; auto.
  - inv H; auto.
Qed.

(* "id is already spoken for": its partition exists and its key is below the partition's NextBlobKey *)
Definition below (d : dstate) (id : N) : Prop :=
  exists p, aget (blob_part id) (d_parts d) = Some p /\ id mod two32 < p_nextblob p.

Definition inv_a (d : dstate) : Prop := forall id, has id (d_blobs d) -> below d id.

Lemma u32_succ : forall x, x < two32 -> x <> c_MaxBlobKey -> u32 (x + 1) = x + 1.
Proof. intros. unfold u32, c_MaxBlobKey, two32 in *. apply N.mod_small. lia. Qed.

Lemma below_step : forall d i c d' r id, dapply d i c = Some (d', r) -> pinv d -> below d id -> below d' id.
Proof.
  intros d i c d' r id H P (p & G & L).
  destruct (dapply_cases _ _ _ _ _ H) as [[(E1 & _) _]|(A & _)].
  - exists p. rewrite E1. auto.
  - destruct P as [S W].
    pose proof (apply_mut_pchange (set_index d i) c d' r (blob_part id) S A) as Pc. cbn [set_index d_parts] in Pc.
    rewrite G in Pc. destruct (W _ _ G) as [W1 _].
    destruct Pc as [Pc|[[P1 P2]|[(p0 & P1 & P2 & P3)|(p0 & n & P0 & P1 & P2)]]].
    + exists p. split; [congruence|auto].
    + discriminate.
    + inv P1. eexists; split; [exact P3|]. cbn. rewrite u32_succ by auto. lia.
    + inv P1. eexists; split; [exact P2|]. cbn. auto.
Qed.

Lemma new_id_parts : forall pid p, p_nextblob p < two32 ->
  blob_part (pid * two32 + p_nextblob p) = pid /\ (pid * two32 + p_nextblob p) mod two32 = p_nextblob p.
Proof.
  intros. unfold blob_part, two32 in *. split.
  - rewrite N.div_add_l by lia. rewrite N.div_small by lia. lia.
  - rewrite N.add_comm, N.mod_add by lia. apply N.mod_small. lia.
Qed.

Lemma inv_a_step : forall d i c d' r, dapply d i c = Some (d', r) -> pinv d -> inv_a d -> inv_a d'.
Proof.
  intros d i c d' r H P Ia id Hh.
  destruct (dapply_cases _ _ _ _ _ H) as [[(E1 & E2 & _) _]|(A & _)].
  - rewrite E2 in Hh. destruct (Ia id Hh) as (p & G & L). exists p. rewrite E1. auto.
  - destruct (apply_mut_newkey (set_index d i) c d' r id (proj1 P) A Hh) as [Hold|(pid & p & G & Nm & -> & G' & _)].
    + eapply below_step; eauto.
    + cbn [set_index d_parts] in G. destruct (proj2 P _ _ G) as [W1 _].
      destruct (new_id_parts pid p W1) as [B1 B2]. unfold below. rewrite B1, B2.
      eexists; split; [exact G'|]. cbn. rewrite u32_succ by auto. lia.
Qed.

Lemma inv_a_init : inv_a d_init.
Proof. intros id H. exfalso. apply H. reflexivity. Qed.

(* the id a successful CreateBlob returns is NOT below NextBlobKey beforehand: it is new, also with respect to blobs that
   were finally deleted in the meantime *)
Lemma create_returns_fresh : forall d i c d' r id, dapply d i c = Some (d', r) -> pinv d ->
  r = [5; id; e_NoError] -> ~ below d id /\ below d' id.
Proof.
  intros d i c d' r id H P Hr.
  destruct (dapply_cases _ _ _ _ _ H) as [[_ [N5 _]]|(A & _)]; [subst r; cbn in N5; congruence|].
  destruct c; cbn [apply_mut] in A; try (subst r; repeat break_hyp A; inv A; fail).
  all: try (unfold do_extend, do_delete, do_undelete, do_finish, do_setmeta, do_change, do_allocrs, do_commit, do_commit_unchecked, do_rshosts, do_updatesc, add_partition in A;
            subst r; repeat break_hyp A; inv A; fail).
  unfold do_create in A. subst r. repeat break_hyp A; try (inv A; unfold e_GenBlobID, e_NoError in *; discriminate).
  injection A as <- Hid.
  match goal with Hf : first_part _ _ = Some (?k, ?pp) |- _ => destruct (first_part_aget _ _ _ _ (proj1 P) Hf) as [G1 G2] end.
  cbn [set_index d_parts] in G1. destruct (proj2 P _ _ G1) as [W1 _].
  match type of G1 with aget ?k _ = Some ?pp => destruct (new_id_parts k pp W1) as [B1 B2]; subst id end.
  split.
  - intros (p' & G & L). rewrite B1 in G. rewrite B2 in L. rewrite G1 in G. inv G. lia.
  - unfold below. rewrite B1, B2. pbp. cbn. rewrite aget_aput_eq. eexists; split; [reflexivity|]. cbn.
    apply negb_true_iff, N.eqb_neq in G2. rewrite u32_succ by auto. lia.
Qed.

Lemma dapply_all_inv_a : forall cs d d' r, dapply_all d cs = Some (d', r) -> pinv d -> inv_a d -> inv_a d'.
Proof.
  induction cs as [|[i c] cs IH]; intros d d' r H P Ia; cbn [dapply_all] in H; [inv H; exact Ia|].
  destruct (dapply d i c) as [[d1 res]|] eqn:E; [|discriminate].
  destruct (dapply_all d1 cs) as [[d2 rs]|] eqn:E2; [|discriminate]. inv H.
  eapply IH; eauto; [eapply dapply_pinv; eauto|eapply inv_a_step; eauto].
Qed.

Lemma below_run : forall cs d d' r id, dapply_all d cs = Some (d', r) -> pinv d -> below d id -> below d' id.
Proof.
  induction cs as [|[i c] cs IH]; intros d d' r id H P B; cbn [dapply_all] in H; [inv H; exact B|].
  destruct (dapply d i c) as [[d1 res]|] eqn:E; [|discriminate].
  destruct (dapply_all d1 cs) as [[d2 rs]|] eqn:E2; [|discriminate]. inv H.
  eapply IH; eauto; [eapply dapply_pinv; eauto|eapply below_step; eauto].
Qed.

(* the blob ids handed out by the successful CreateBlob commands of a run, in order *)
Definition created_of (r : list N) : list N :=
  match r with
  | [t; id; e] => if (t =? 5) && (e =? e_NoError) then [id] else []
  | _ => []
  end.
Definition created (rs : list (list N)) : list N := flat_map created_of rs.

Lemma created_of_spec : forall r id, In id (created_of r) -> r = [5; id; e_NoError].
Proof.
  intros r id H. unfold created_of in H.
  destruct r as [|t [|id' [|e [|]]]]; try contradiction.
  destruct (t =? 5) eqn:E1; [|contradiction]. destruct (e =? e_NoError) eqn:E2; [|contradiction].
  cbn in H. destruct H as [->|[]]. apply N.eqb_eq in E1, E2. subst. reflexivity.
Qed.

Lemma NoDup_app_intro : forall {A} (a b : list A), NoDup a -> NoDup b -> (forall x, In x a -> In x b -> False) -> NoDup (a ++ b).
Proof.
  induction a as [|x a IH]; intros b Ha Hb Hd; cbn; [exact Hb|].
  inversion Ha; subst. constructor.
  - intro Hin. apply in_app_or in Hin. destruct Hin as [Hin|Hin]; [contradiction|]. eapply Hd; [left; reflexivity|exact Hin].
  - apply IH; auto. intros y Hy1 Hy2. eapply Hd; [right; exact Hy1|exact Hy2].
Qed.

Lemma created_fresh : forall cs d d' rs, dapply_all d cs = Some (d', rs) -> pinv d ->
  NoDup (created rs) /\ forall id, In id (created rs) -> ~ below d id /\ below d' id.
Proof.
  induction cs as [|[i c] cs IH]; intros d d' rs H P; cbn [dapply_all] in H; [inv H; split; [constructor|contradiction]|].
  destruct (dapply d i c) as [[d1 res]|] eqn:E; [|discriminate].
  destruct (dapply_all d1 cs) as [[d2 rs1]|] eqn:E2; [|discriminate]. inv H.
  pose proof (dapply_pinv _ _ _ _ _ E P) as P1.
  destruct (IH _ _ _ E2 P1) as [ND Hf].
  assert (Hhead : forall id, In id (created_of res) -> ~ below d id /\ below d1 id).
  { intros id Hin. apply created_of_spec in Hin. eapply create_returns_fresh; eauto. }
  unfold created. cbn [flat_map]. fold (created rs1). split.
  - apply NoDup_app_intro; [|exact ND|].
    + unfold created_of. destruct res as [|t [|id' [|e [|]]]]; try constructor.
      destruct ((t =? 5) && (e =? e_NoError)); repeat constructor. intros [].
    + intros id H1 H2. destruct (Hhead id H1) as [_ B1]. destruct (Hf id H2) as [NB _]. contradiction.
  - intros id Hin. apply in_app_or in Hin. destruct Hin as [Hin|Hin].
    + destruct (Hhead id Hin) as [NB B1]. split; auto. eapply below_run; eauto.
    + destruct (Hf id Hin) as [NB B2]. split; auto. intro B. apply NB. eapply below_step; eauto.
Qed.

(* ---------- clauses (b), (d), (e): what one command does to one blob ---------- *)

Definition tract_ok (t : tract) : Prop := t_version t < two32.
Definition blobs_ok (d : dstate) : Prop := forall id b, aget id (d_blobs d) = Some b -> Forall tract_ok (b_tracts b).

(* how the version of tract m of blob id may change: not at all; +1 (as uint32) by the ChangeTract that names it and
   requires exactly that; or to NewVersion by a CommitRSChunk entry naming it, which (repair of F6) is stored version + 1
   unless the entry carries NewVersion < 2 ("no version": not checked by the command) *)
Definition vrel (c : cmd) (id : N) (m : nat) (t t' : tract) : Prop :=
  t_version t' = t_version t
  \/ (exists idx ver hosts, c = CChangeTract id idx ver hosts /\ N.to_nat idx = m /\ ver = t_version t + 1
                            /\ t_version t' = u32 (t_version t + 1))
  \/ (exists cid cls hosts data e, c = CCommitRS cid cls hosts data /\ In e (concat data)
        /\ et_blob e = id /\ N.to_nat (et_idx e) = m /\ t_version t' = u32 (et_newver e)
        /\ (et_newver e < 2 \/ et_newver e = t_version t + 1)).

(* ---------- RS pointers of a tract ---------- *)
Ltac rs_cases :=
  unfold rs_get, rs_set, is_rs_class, known_class, c_ClassREPLICATED, c_ClassRS63, c_ClassRS83, c_ClassRS103, c_ClassRS125 in *;
  repeat match goal with
         | |- context [?a =? ?b] => destruct (N.eqb_spec a b)
         | H : context [?a =? ?b] |- _ => destruct (N.eqb_spec a b)
         end; subst; cbn in *; try reflexivity; try congruence; try discriminate; try lia.

Lemma rs_get_set_same : forall c v t, is_rs_class c = true -> rs_get c (rs_set c v t) = v.
Proof. intros. rs_cases. Qed.

Lemma rs_get_set_other : forall c c2 v t, c2 <> c -> rs_get c2 (rs_set c v t) = rs_get c2 t.
Proof. intros. rs_cases. Qed.

Lemma rs_get_build : forall cls t, rs_get cls (build_tract t) = option_map cid_norm (rs_get cls t).
Proof. intros. unfold build_tract. rs_cases. Qed.

Lemma rs_get_fresh : forall cls h v, rs_get cls (mkTract h v None None None None) = None.
Proof. intros. rs_cases. Qed.

Lemma rs_get_fields : forall cls t h v, rs_get cls (mkTract h v (t_rs1 t) (t_rs2 t) (t_rs3 t) (t_rs4 t)) = rs_get cls t.
Proof. intros. rs_cases. Qed.

Lemma chunk_key_norm : forall c, chunk_key (cid_norm c) = chunk_key c.
Proof.
  intros [p i]. unfold chunk_key, cid_norm, u32, two32, two48. cbn [fst snd].
  rewrite !N.mod_mod by lia. reflexivity.
Qed.

Lemma rs_set_none_ptr : forall c cls t cid, rs_get cls (rs_set c None t) = Some cid -> rs_get cls t = Some cid.
Proof.
  intros c cls t cid H. destruct (N.eq_dec cls c) as [->|Hne].
  - destruct (is_rs_class c) eqn:E; [rewrite rs_get_set_same in H by auto; discriminate|].
    revert H. clear - E. rs_cases.
  - rewrite rs_get_set_other in H by auto. exact H.
Qed.

Lemma clear_others_ptr : forall k cls t cid, rs_get cls (clear_others k t) = Some cid -> rs_get cls t = Some cid.
Proof.
  intros k cls t cid H. unfold clear_others in H.
  assert (G : forall l t0, rs_get cls (fold_left (fun acc c => if c =? k then acc else rs_set c None acc) l t0) = Some cid -> rs_get cls t0 = Some cid).
  { induction l; intros t0 Hf; cbn [fold_left] in Hf; [exact Hf|]. apply IHl in Hf.
    destruct (a =? k); [exact Hf|eapply rs_set_none_ptr; exact Hf]. }
  apply G in H. destruct (k =? c_ClassREPLICATED); exact H.
Qed.

(* how the RS pointers of an existing tract may change: a pointer of the new tract is one the old tract had (possibly
   re-packed: same chunk key), or the chunk of the CommitRSChunk whose layout names this tract *)
Definition prel (c : cmd) (id : N) (m : nat) (t t' : tract) : Prop :=
  forall cls cid', rs_get cls t' = Some cid' ->
    (exists cid0, rs_get cls t = Some cid0 /\ chunk_key cid' = chunk_key cid0)
    \/ (exists cid cls0 hosts data e, c = CCommitRS cid cls0 hosts data /\ chunk_key cid' = chunk_key cid
          /\ In e (concat data) /\ et_blob e = id /\ N.to_nat (et_idx e) = m).

(* how the holders of an existing tract may change: kept (possibly re-packed), cleared by UpdateStorageClass, or
   replaced by the ChangeTract naming the tract with a list of the same length *)
Definition hrel (c : cmd) (id : N) (m : nat) (t t' : tract) : Prop :=
  t_hosts t' = t_hosts t \/ t_hosts t' = norm_hosts (t_hosts t) \/ t_hosts t' = []
  \/ (exists idx ver hosts, c = CChangeTract id idx ver hosts /\ N.to_nat idx = m
                            /\ t_hosts t' = norm_hosts hosts /\ length (t_hosts t) = length hosts).

(* where a tract beyond the old length comes from: one host list of the ExtendBlob naming the blob, of length repl *)
Definition newrel (c : cmd) (id : N) (b : blob) (t' : tract) : Prop :=
  exists first hs h, c = CExtend id first hs /\ In h hs /\ t_hosts t' = norm_hosts h /\ N.of_nat (length h) = b_repl b
                     /\ forall cls, rs_get cls t' = None.

Definition blob_rel (c : cmd) (id : N) (b b' : blob) : Prop :=
  (length (b_tracts b) <= length (b_tracts b'))%nat
  /\ (forall m t t', nth_error (b_tracts b) m = Some t -> nth_error (b_tracts b') m = Some t' -> vrel c id m t t')
  /\ (b_deleted b <> 0 -> (forall u, c <> CUndelete u) -> b' = b)
  /\ Forall tract_ok (b_tracts b')
  /\ (forall m t t', nth_error (b_tracts b) m = Some t -> nth_error (b_tracts b') m = Some t' -> hrel c id m t t')
  /\ (forall m t', nth_error (b_tracts b) m = None -> nth_error (b_tracts b') m = Some t' -> newrel c id b t')
  /\ (b_repl b' = b_repl b \/ b_repl b' = u8 (b_repl b))
  /\ (forall m t t', nth_error (b_tracts b) m = Some t -> nth_error (b_tracts b') m = Some t' -> prel c id m t t').

Lemma blob_rel_refl : forall c id b, Forall tract_ok (b_tracts b) -> blob_rel c id b b.
Proof.
  intros. repeat split; auto.
  - intros m t t' H1 H2. left. congruence.
  - intros m t t' H1 H2. left. congruence.
  - intros m t' H1 H2. congruence.
  - intros m t t' H1 H2 cls cid' Hp. left. exists cid'. split; [congruence|reflexivity].
Qed.

Lemma build_tracts_ok : forall ts, Forall tract_ok (map build_tract ts).
Proof. induction ts; cbn; constructor; auto. unfold tract_ok. cbn. apply u32_lt. Qed.

Lemma nth_error_map_inv : forall {A B} (f : A -> B) l m y, nth_error (map f l) m = Some y ->
  exists x, nth_error l m = Some x /\ y = f x.
Proof.
  induction l; intros m y H; destruct m; cbn in *; try discriminate.
  - inv H. eauto.
  - eauto.
Qed.

Lemma Forall_nth : forall {A} (P : A -> Prop) l m x, Forall P l -> nth_error l m = Some x -> P x.
Proof. intros. rewrite Forall_forall in H. apply H. eapply nth_error_In; eauto. Qed.

(* a blob rewritten through PutBlob from a struct whose tracts extend the old ones with unchanged versions *)
Lemma blob_rel_build : forall c id b x,
  Forall tract_ok (b_tracts b) ->
  (b_deleted b = 0 \/ exists u, c = CUndelete u) ->
  (length (b_tracts b) <= length (b_tracts x))%nat ->
  (forall m t tx, nth_error (b_tracts b) m = Some t -> nth_error (b_tracts x) m = Some tx ->
     t_version tx = t_version t /\ (t_hosts tx = t_hosts t \/ t_hosts tx = [])
     /\ (forall cls cid, rs_get cls tx = Some cid -> rs_get cls t = Some cid)) ->
  (forall m tx, nth_error (b_tracts b) m = None -> nth_error (b_tracts x) m = Some tx ->
     exists first hs h, c = CExtend id first hs /\ In h hs /\ t_hosts tx = h /\ N.of_nat (length h) = b_repl b
                        /\ forall cls, rs_get cls tx = None) ->
  b_repl x = b_repl b ->
  blob_rel c id b (build_blob x).
Proof.
  intros c id b x Hok Hd Hl Hv Hnew Hrepl. unfold blob_rel. cbn [build_blob b_tracts b_repl].
  split; [rewrite map_length; exact Hl|]. split; [|split; [|split; [apply build_tracts_ok|split; [|split; [|split]]]]].
  - intros m t t' H1 H2. apply nth_error_map_inv in H2. destruct H2 as (tx & H2 & ->). left. cbn.
    rewrite (proj1 (Hv _ _ _ H1 H2)). unfold u32. apply N.mod_small. exact (Forall_nth _ _ _ _ Hok H1).
  - intros Hn Hu. destruct Hd as [Hd|[u Hd]]; [contradiction|]. exfalso. eapply Hu; eauto.
  - intros m t t' H1 H2. apply nth_error_map_inv in H2. destruct H2 as (tx & H2 & ->).
    unfold hrel. cbn [build_tract t_hosts].
    destruct (proj1 (proj2 (Hv _ _ _ H1 H2))) as [E|E]; rewrite E; [right; left; reflexivity|right; right; left; reflexivity].
  - intros m t' H1 H2. apply nth_error_map_inv in H2. destruct H2 as (tx & H2 & ->).
    destruct (Hnew _ _ H1 H2) as (first & hs & h & Ec & Hin & Eh & El & Hp). exists first, hs, h.
    cbn [build_tract t_hosts]. rewrite Eh. repeat split; auto. intros cls. rewrite rs_get_build, Hp. reflexivity.
  - right. rewrite Hrepl. reflexivity.
  - intros m t t' H1 H2. apply nth_error_map_inv in H2. destruct H2 as (tx & H2 & ->).
    intros cls cid' Hp. rewrite rs_get_build in Hp. destruct (rs_get cls tx) as [c0|] eqn:E0; [|discriminate]. cbn in Hp.
    injection Hp as <-. left. exists c0. split; [apply (proj2 (proj2 (Hv _ _ _ H1 H2))); exact E0|apply chunk_key_norm].
Qed.

Lemma length_list_set : forall {A} n (x : A) l, length (list_set n x l) = length l.
Proof. induction n; intros; destruct l; cbn; auto. Qed.

Lemma Forall_list_set : forall {A} (P : A -> Prop) n x l, Forall P l -> P x -> Forall P (list_set n x l).
Proof.
  induction n; intros x l Hl Hx; destruct l; cbn; auto; inversion Hl; subst; constructor; auto.
Qed.

Lemma clear_others_version : forall k t, t_version (clear_others k t) = t_version t.
Proof.
  intros. unfold clear_others.
  assert (G : forall l t0, t_version (fold_left (fun acc c => if c =? k then acc else rs_set c None acc) l t0) = t_version t0).
  { induction l; intros; cbn; auto. rewrite IHl. destruct (a =? k); auto. unfold rs_set. repeat break_goal; reflexivity. }
  rewrite G. destruct (k =? c_ClassREPLICATED); reflexivity.
Qed.

Lemma aget_adel_some : forall {V} k k2 (m : amap V) v, aget k2 (adel k m) = Some v -> aget k2 m = Some v.
Proof. intros V k k2 m v. rewrite aget_adel. destruct (k2 =? k); [discriminate|auto]. Qed.

Lemma finish_fold_get : forall ids d id b, aget id (d_blobs (fold_left finish_one ids d)) = Some b -> aget id (d_blobs d) = Some b.
Proof.
  induction ids as [|x ids IH]; intros d id b H; cbn [fold_left] in H; [exact H|].
  apply IH in H. change (d_blobs (finish_one d x)) with (adel x (d_blobs d)) in H. eapply aget_adel_some; eauto.
Qed.

Lemma rs_set_hosts : forall c v t, t_hosts (rs_set c v t) = t_hosts t.
Proof. intros. unfold rs_set. repeat break_goal; reflexivity. Qed.

Lemma clear_others_hosts : forall k t, t_hosts (clear_others k t) = t_hosts t \/ t_hosts (clear_others k t) = [].
Proof.
  intros. unfold clear_others.
  assert (G : forall l t0, t_hosts (fold_left (fun acc c => if c =? k then acc else rs_set c None acc) l t0) = t_hosts t0).
  { induction l; intros; cbn; auto. rewrite IHl. destruct (a =? k); auto. apply rs_set_hosts. }
  rewrite G. destruct (k =? c_ClassREPLICATED); cbn; auto.
Qed.

Lemma u8_lt : forall x, u8 x < two8.
Proof. intros. unfold u8. apply N.mod_lt. unfold two8. lia. Qed.

Lemma live_deleted0 : forall d id b, live_blob d id = Some b -> b_deleted b = 0.
Proof.
  intros d id b H. unfold live_blob in H. destruct (aget id (d_blobs d)); [|discriminate].
  destruct (b_deleted b0 =? 0) eqn:E; inv H. apply N.eqb_eq; auto.
Qed.

(* UpdateTimes: only mtime/atime of live blobs *)
Lemma update_one_get : forall d u id b1, aget id (d_blobs (update_one d u)) = Some b1 ->
  exists b, aget id (d_blobs d) = Some b /\ b_tracts b1 = b_tracts b /\ b_deleted b1 = b_deleted b
            /\ (b_deleted b <> 0 -> b1 = b) /\ b_repl b1 = b_repl b.
Proof.
  intros d [bid [m a]] id b1 H. unfold update_one in H.
  destruct (live_blob d bid) as [b|] eqn:E; [|exists b1; repeat split; auto].
  cbn in H. rewrite aget_aput in H. destruct (id =? bid) eqn:E2; [|exists b1; repeat split; auto].
  apply N.eqb_eq in E2; subst. inv H. exists b. split; [apply has_live; auto|]. cbn. repeat split; auto.
  intros Hn. rewrite (live_deleted0 _ _ _ E) in Hn. contradiction.
Qed.

Lemma update_fold_get : forall ups d id b1, aget id (d_blobs (fold_left update_one ups d)) = Some b1 ->
  exists b, aget id (d_blobs d) = Some b /\ b_tracts b1 = b_tracts b /\ b_deleted b1 = b_deleted b
            /\ (b_deleted b <> 0 -> b1 = b) /\ b_repl b1 = b_repl b.
Proof.
  induction ups as [|u ups IH]; intros d id b1 H; cbn [fold_left] in H; [exists b1; repeat split; auto|].
  destruct (IH _ _ _ H) as (b2 & G2 & T2 & D2 & E2 & R2).
  destruct (update_one_get _ _ _ _ G2) as (b & G & T & D & E & R).
  exists b. repeat split; try congruence. intros Hn. rewrite E2, E; auto. rewrite D. exact Hn.
Qed.

(* CommitRSChunk: the working copies are live blobs with the same number of tracts *)
Lemma In_aput : forall {V} k (v : V) m k2 v2, In (k2, v2) (aput k v m) -> (k2 = k /\ v2 = v) \/ In (k2, v2) m.
Proof.
  induction m as [|[k' v'] r IH]; intros k2 v2 H; cbn [aput] in H.
  - destruct H as [H|[]]. inv H. auto.
  - destruct (k <? k'); [destruct H as [H|H]; [inv H; auto|auto]|].
    destruct (k =? k'); [destruct H as [H|H]; [inv H; auto|right; right; auto]|].
    destruct H as [H|H]; [right; left; auto|]. destruct (IH _ _ H); auto. right. right. auto.
Qed.

Definition same_shape (b0 bw : blob) : Prop :=
  length (b_tracts bw) = length (b_tracts b0) /\ b_repl bw = b_repl b0 /\
  forall m t0 tw, nth_error (b_tracts b0) m = Some t0 -> nth_error (b_tracts bw) m = Some tw -> t_hosts tw = t_hosts t0.

Definition vtrack (all : list enc_tract) (k : N) (b0 bw : blob) : Prop :=
  forall m t0 tw, nth_error (b_tracts b0) m = Some t0 -> nth_error (b_tracts bw) m = Some tw ->
    t_version tw = t_version t0
    \/ exists e, In e all /\ et_blob e = k /\ N.to_nat (et_idx e) = m /\ t_version tw = et_newver e.

Definition ptrack (all : list enc_tract) (cid : chunkid) (k : N) (b0 bw : blob) : Prop :=
  forall m t0 tw cls c', nth_error (b_tracts b0) m = Some t0 -> nth_error (b_tracts bw) m = Some tw ->
    rs_get cls tw = Some c' ->
    rs_get cls t0 = Some c' \/ (c' = cid /\ exists e, In e all /\ et_blob e = k /\ N.to_nat (et_idx e) = m).

Definition upd_ok (all : list enc_tract) (cid : chunkid) (d : dstate) (upd : amap blob) : Prop :=
  forall k bw, In (k, bw) upd ->
    exists b0, live_blob d k = Some b0 /\ same_shape b0 bw /\ vtrack all k b0 bw /\ ptrack all cid k b0 bw.

Lemma ptrack_refl : forall all cid k b, ptrack all cid k b b.
Proof. intros all cid k b m t0 tw cls c' H1 H2 H3. left. congruence. Qed.

Lemma ptrack_set : forall all cid cls k b0 bw e t t'', ptrack all cid k b0 bw -> In e all -> et_blob e = k ->
  nth_error (b_tracts bw) (N.to_nat (et_idx e)) = Some t ->
  (forall c2, rs_get c2 t'' = rs_get c2 (rs_set cls (Some cid) t)) -> is_rs_class cls = true ->
  ptrack all cid k b0 (set_tracts bw (list_set (N.to_nat (et_idx e)) t'' (b_tracts bw))).
Proof.
  intros all cid cls k b0 bw e t t'' Hp Hin Hk Hn Ht Hc m t0 tw c2 c' H0 Hw Hg. cbn [set_tracts b_tracts] in Hw.
  destruct (Nat.eq_dec (N.to_nat (et_idx e)) m) as [<-|Hne].
  - rewrite nth_error_list_set in Hw by (apply nth_error_Some; congruence). injection Hw as <-.
    rewrite Ht in Hg. destruct (N.eq_dec c2 cls) as [->|Hc2].
    + rewrite rs_get_set_same in Hg by auto. injection Hg as <-. right. split; [reflexivity|]. exists e. auto.
    + rewrite rs_get_set_other in Hg by auto. eapply Hp; eauto.
  - rewrite nth_error_list_set_ne in Hw by auto. eapply Hp; eauto.
Qed.

Lemma vtrack_refl : forall all k b, vtrack all k b b.
Proof. intros all k b m t0 tw H1 H2. left. congruence. Qed.

Lemma vtrack_set : forall all k b0 bw e t'', vtrack all k b0 bw -> In e all -> et_blob e = k -> t_version t'' = et_newver e ->
  vtrack all k b0 (set_tracts bw (list_set (N.to_nat (et_idx e)) t'' (b_tracts bw))).
Proof.
  intros all k b0 bw e t'' Hv Hin Hk Ht m t0 tw H0 Hw. cbn [set_tracts b_tracts] in Hw.
  destruct (Nat.eq_dec (N.to_nat (et_idx e)) m) as [<-|Hne].
  - destruct (nth_error (b_tracts bw) (N.to_nat (et_idx e))) eqn:E.
    + rewrite nth_error_list_set in Hw by (apply nth_error_Some; congruence). inv Hw. right. exists e. auto.
    + exfalso. apply nth_error_None in E. assert (nth_error (list_set (N.to_nat (et_idx e)) t'' (b_tracts bw)) (N.to_nat (et_idx e)) <> None) by congruence.
      apply nth_error_Some in H. rewrite length_list_set in H. lia.
  - rewrite nth_error_list_set_ne in Hw by auto. eapply Hv; eauto.
Qed.

Lemma same_shape_refl : forall b, same_shape b b.
Proof. intros. repeat split; auto. intros. congruence. Qed.

Lemma same_shape_set : forall b0 bw idx t t'', same_shape b0 bw -> nth_error (b_tracts bw) idx = Some t -> t_hosts t'' = t_hosts t ->
  same_shape b0 (set_tracts bw (list_set idx t'' (b_tracts bw))).
Proof.
  intros b0 bw idx t t'' (L & R & Hh) Hn Ht. unfold same_shape. cbn [set_tracts b_tracts b_repl]. rewrite length_list_set.
  repeat split; auto. intros m t0 tw H0 Hw. destruct (Nat.eq_dec idx m) as [<-|Hne].
  - rewrite nth_error_list_set in Hw by (apply nth_error_Some; congruence). inv Hw. rewrite Ht. eapply Hh; eauto.
  - rewrite nth_error_list_set_ne in Hw by auto. eapply Hh; eauto.
Qed.

Lemma commit_one_rs_class : forall d cid cls upd e upd', commit_one d cid cls upd e = CROk upd' -> is_rs_class cls = true.
Proof.
  intros d cid cls upd e upd' H. unfold commit_one in H. repeat break_hyp H; try discriminate.
  all: unfold known_class in *; destruct (is_rs_class cls); auto;
       match goal with Hk : negb (_ || false) = false, Hr : (_ =? c_ClassREPLICATED) = false |- _ =>
         rewrite Hr in Hk; discriminate end.
Qed.

Lemma commit_loop_upd_ok : forall all d cid cls es upd upd', commit_loop d cid cls upd es = CROk upd' -> incl es all ->
  upd_ok all cid d upd -> upd_ok all cid d upd'.
Proof.
  induction es as [|e es IH]; intros upd upd' H Hi Hk; cbn [commit_loop] in H; [inv H; auto|].
  destruct (commit_one d cid cls upd e) as [upd1| |] eqn:E; try discriminate.
  assert (Hie : In e all) by (apply Hi; now left).
  pose proof (commit_one_rs_class _ _ _ _ _ _ E) as Hcls.
  eapply IH; eauto; [eapply incl_cons_inv; eauto|]. intros k bw Hin.
  unfold commit_one in E.
  destruct (aget (et_blob e) upd) eqn:E0.
  - destruct (nth_error (b_tracts b) (N.to_nat (et_idx e))) as [t|] eqn:En; [|discriminate].
    repeat break_hyp E; inv E. apply In_aput in Hin. destruct Hin as [[-> ->]|Hin]; [|auto].
    destruct (Hk _ _ (aget_In _ _ _ E0)) as (b0 & L & Sh & Vt & Pt). exists b0. split; auto. split; [|split].
    + eapply same_shape_set; eauto. cbn. apply rs_set_hosts.
    + eapply vtrack_set; eauto.
    + eapply ptrack_set; eauto. intros c2. apply rs_get_fields.
  - destruct (live_blob d (et_blob e)) eqn:E1; [|discriminate].
    destruct (nth_error (b_tracts b) (N.to_nat (et_idx e))) as [t|] eqn:En; [|discriminate].
    repeat break_hyp E; inv E. apply In_aput in Hin. destruct Hin as [[-> ->]|Hin]; [|auto].
    eexists; split; [exact E1|]. split; [|split].
    + eapply same_shape_set; eauto; [apply same_shape_refl|]. cbn. apply rs_set_hosts.
    + eapply vtrack_set; eauto. apply vtrack_refl.
    + eapply ptrack_set; eauto; [apply ptrack_refl|]. intros c2. apply rs_get_fields.
Qed.

Lemma upd_ok_nil : forall all cid d, upd_ok all cid d [].
Proof. intros all cid d k bw []. Qed.

(* what the version check of the repaired command guarantees *)
Lemma precheck_ok : forall d es e, commit_precheck d es = None -> In e es -> 2 <= et_newver e ->
  exists b t, live_blob d (et_blob e) = Some b /\ nth_error (b_tracts b) (N.to_nat (et_idx e)) = Some t
              /\ et_newver e = t_version t + 1.
Proof.
  induction es as [|x es IH]; intros e H Hin Hv; [contradiction|]. cbn [commit_precheck] in H.
  destruct (et_newver x <? 2) eqn:E2.
  - destruct Hin as [->|Hin]; [lia|eauto].
  - destruct (live_blob d (et_blob x)) as [b|] eqn:El; [|discriminate].
    destruct (nth_error (b_tracts b) (N.to_nat (et_idx x))) as [t|] eqn:En; [|discriminate].
    destruct (t_version t + 1 =? et_newver x) eqn:Ev; [|discriminate].
    destruct Hin as [->|Hin]; [|eauto]. apply N.eqb_eq in Ev. eauto.
Qed.

Lemma fold_aput_get : forall (upd : amap blob) (m : amap blob) k b',
  aget k (fold_left (fun acc kv => aput (fst kv) (build_blob (snd kv)) acc) upd m) = Some b' ->
  aget k m = Some b' \/ exists bw, In (k, bw) upd /\ b' = build_blob bw.
Proof.
  induction upd as [|[k1 b1] upd IH]; intros m k b' H; cbn [fold_left] in H; [auto|].
  apply IH in H. destruct H as [H|(bw & Hin & ->)]; [|right; exists bw; split; [right|]; auto].
  cbn [fst snd] in H. rewrite aget_aput in H. destruct (k =? k1) eqn:E; [|auto].
  apply N.eqb_eq in E; subst. inv H. right. exists b1. split; [left|]; auto.
Qed.

Lemma fold_blobs_same : forall {A} (f : dstate -> A -> dstate) l d,
  (forall d x, d_blobs (f d x) = d_blobs d) -> d_blobs (fold_left f l d) = d_blobs d.
Proof. induction l; intros; cbn; auto. rewrite IHl; auto. Qed.

Definition is_create (c : cmd) : Prop := exists repl now exp hint, c = CCreate repl now exp hint.

(* the central case analysis: every blob of the new state is the old one in relation blob_rel, or was just created *)
Ltac live_setup Hok :=
  match goal with Hl : live_blob _ _ = Some ?b |- _ =>
    pose proof (has_live _ _ _ Hl) as Gb; pose proof (live_deleted0 _ _ _ Hl) as Hdel; pose proof (Hok _ _ Gb) as Hb end.

Ltac same_tracts :=
  [> cbn; lia
   | intros m t tx H1 H2; cbn in H2; split; [congruence|split; [left; congruence|intros cls0 cid0 Hp0; congruence]]
   | intros m tx H1 H2; cbn in H2; congruence
   | reflexivity ].

Lemma blob_step : forall d c d' r id b',
  blobs_ok d -> apply_mut d c = Some (d', r) -> aget id (d_blobs d') = Some b' ->
  (exists b, aget id (d_blobs d) = Some b /\ blob_rel c id b b')
  \/ (is_create c /\ b_tracts b' = [] /\ r = [5; id; e_NoError] /\ b_repl b' < two8).
Proof.
  intros d c d' r id b' Hok H G.
  assert (Same : aget id (d_blobs d) = Some b' -> (exists b, aget id (d_blobs d) = Some b /\ blob_rel c id b b')
                 \/ (is_create c /\ b_tracts b' = [] /\ r = [5; id; e_NoError] /\ b_repl b' < two8)).
  { intros G0. left. exists b'. split; auto. apply blob_rel_refl. eapply Hok; eauto. }
  assert (Put : forall d0 bid b x, put_blob d0 bid x = Some d' -> d_blobs d0 = d_blobs d -> aget bid (d_blobs d) = Some b ->
                 blob_rel c bid b (build_blob x) ->
                 (exists b, aget id (d_blobs d) = Some b /\ blob_rel c id b b')
                 \/ (is_create c /\ b_tracts b' = [] /\ r = [5; id; e_NoError] /\ b_repl b' < two8)).
  { intros d0 bid b x Hp E0 Gb Rel. rewrite (put_blob_blobs _ _ _ _ Hp), E0, aget_aput in G.
    destruct (id =? bid) eqn:E; [|auto]. apply N.eqb_eq in E; subst. inv G. left. eauto. }
  destruct c; cbn [apply_mut] in H.
  - inv H; auto.
  - inv H. revert G. break_goal; auto.
  - unfold add_partition in H. destruct (aget p (d_parts d)); inv H; auto.
  - inv H. apply Same. rewrite fold_blobs_same in G; auto. intros d0 x. unfold add_partition. break_goal; auto.
  - unfold do_create in H. repeat break_hyp H; try (inv H; auto; fail).
    inv H. pbb. cbn [set_parts d_blobs] in G. rewrite aget_aput in G.
    match type of G with (if ?i =? ?k then _ else _) = _ => destruct (i =? k) eqn:E end; [|auto].
    apply N.eqb_eq in E. subst id. inv G. right. split; [do 4 eexists; reflexivity|].
    split; [reflexivity|]. split; [reflexivity|]. cbn. apply u8_lt.
  - unfold do_extend in H. repeat break_hyp H; try (inv H; auto; fail). inv H. live_setup Hok.
    match goal with Hp : put_blob _ _ _ = Some _ |- _ => eapply (Put _ _ _ _ Hp); [reflexivity|exact Gb|] end.
    apply blob_rel_build; [exact Hb|left; exact Hdel|..].
    + cbn. rewrite app_length. lia.
    + intros m t tx H1 H2. cbn in H2. rewrite nth_error_app1 in H2 by (apply nth_error_Some; congruence).
      split; [congruence|split; [left; congruence|intros cls0 cid0 Hp0; congruence]].
    + intros m tx H1 H2. cbn in H2. apply nth_error_None in H1. rewrite nth_error_app2 in H2 by lia.
      apply nth_error_map_inv in H2. destruct H2 as (h & H2 & ->). cbn.
      exists first, hosts, h. split; [reflexivity|]. split; [eapply nth_error_In; eauto|]. split; [reflexivity|].
      split; [|intros cls0; apply rs_get_fresh].
      match goal with Hf : negb (forallb _ hosts) = false |- _ =>
        apply negb_false_iff in Hf; rewrite forallb_forall in Hf; specialize (Hf h (nth_error_In _ _ H2)); apply N.eqb_eq in Hf; exact Hf end.
    + reflexivity.
  - unfold do_delete in H. repeat break_hyp H; try (inv H; auto; fail). inv H. live_setup Hok.
    match goal with Hp : put_blob _ _ _ = Some _ |- _ => eapply (Put _ _ _ _ Hp); [reflexivity|exact Gb|] end.
    apply blob_rel_build; [exact Hb|left; exact Hdel|..]; same_tracts.
  - unfold do_undelete in H. repeat break_hyp H; try (inv H; auto; fail). inv H.
    match goal with Hl : aget _ _ = Some ?b, Hp : put_blob _ _ _ = Some _ |- _ =>
      eapply (Put _ _ b _ Hp); [reflexivity|exact Hl|];
      apply blob_rel_build; [eapply Hok; exact Hl|right; eauto|..]; same_tracts end.
  - unfold do_finish in H. inv H. apply Same. eapply finish_fold_get; eauto.
  - unfold do_setmeta in H. repeat break_hyp H; try (inv H; auto; fail). inv H. live_setup Hok.
    match goal with Hp : put_blob _ _ _ = Some _ |- _ => eapply (Put _ _ _ _ Hp); [reflexivity|exact Gb|] end.
    apply blob_rel_build; [exact Hb|left; exact Hdel|..]; same_tracts.
  - unfold do_change in H. repeat break_hyp H; try (inv H; auto; fail). inv H.
    cbn [set_tsids set_blobs d_blobs] in G. rewrite aget_aput in G.
    destruct (id =? bid) eqn:E; [|auto]. apply N.eqb_eq in E; subst. inv G. live_setup Hok.
    match goal with Hl : live_blob _ _ = Some ?b |- _ => left; exists b; split; [exact Gb|] end.
    match goal with Hn : nth_error _ (N.to_nat idx) = Some ?t |- _ => rename Hn into Hnth end.
    match goal with Hv : negb (_ + 1 =? ver) = false |- _ => apply negb_false_iff, N.eqb_eq in Hv; subst ver end.
    match goal with Hh : negb (_ =? length hosts)%nat = false |- _ => apply negb_false_iff, Nat.eqb_eq in Hh; rename Hh into Hlen end.
    unfold blob_rel. cbn [set_tracts b_tracts b_repl]. rewrite length_list_set.
    split; [lia|]. split; [|split; [|split; [|split; [|split; [|split]]]]].
    + intros m t1 t1' H1 H2. destruct (Nat.eq_dec (N.to_nat idx) m) as [<-|Hne].
      * rewrite nth_error_list_set in H2 by (apply nth_error_Some; congruence). inv H2. rewrite Hnth in H1. inv H1.
        right. left. do 3 eexists. split; [reflexivity|]. repeat split; reflexivity.
      * rewrite nth_error_list_set_ne in H2 by auto. left. congruence.
    + intros Hn. contradiction.
    + apply Forall_list_set; auto. unfold tract_ok. cbn. apply u32_lt.
    + intros m t1 t1' H1 H2. destruct (Nat.eq_dec (N.to_nat idx) m) as [<-|Hne].
      * rewrite nth_error_list_set in H2 by (apply nth_error_Some; congruence). inv H2. rewrite Hnth in H1. inv H1.
        right. right. right. do 3 eexists. split; [reflexivity|]. repeat split; auto.
      * rewrite nth_error_list_set_ne in H2 by auto. left. congruence.
    + intros m t1' H1 H2. apply nth_error_None in H1.
      assert (nth_error (list_set (N.to_nat idx) {| t_hosts := norm_hosts hosts; t_version := u32 (t_version t + 1); t_rs1 := t_rs1 t; t_rs2 := t_rs2 t; t_rs3 := t_rs3 t; t_rs4 := t_rs4 t |} (b_tracts b)) m <> None) by congruence.
      apply nth_error_Some in H. rewrite length_list_set in H. lia.
    + left. reflexivity.
    + intros m t1 t1' H1 H2 cls0 cid0 Hp0. left. exists cid0. split; [|reflexivity].
      destruct (Nat.eq_dec (N.to_nat idx) m) as [<-|Hne].
      * rewrite nth_error_list_set in H2 by (apply nth_error_Some; congruence). inv H2. rewrite Hnth in H1. inv H1.
        rewrite rs_get_fields in Hp0. exact Hp0.
      * rewrite nth_error_list_set_ne in H2 by auto. congruence.
  - inv H. destruct (update_fold_get _ _ _ _ G) as (b & Gb & T & D & E & R).
    left. exists b. split; auto. pose proof (Hok _ _ Gb) as Hb.
    unfold blob_rel. rewrite T. repeat split; auto.
    + intros m t t' H1 H2. left. congruence.
    + intros m t t' H1 H2. left. congruence.
    + intros m t' H1 H2. congruence.
    + intros m t t' H1 H2 cls0 cid0 Hp0. left. exists cid0. split; [congruence|reflexivity].
  - unfold do_allocrs in H. repeat break_hyp H; inv H; auto.
  - unfold do_commit in H. destruct (commit_precheck d (concat data)) eqn:Epre; [inv H; auto|].
    unfold do_commit_unchecked in H. repeat break_hyp H; try (inv H; auto; fail). inv H.
    cbn [set_tsids set_blobs set_chunks d_blobs] in G. apply fold_aput_get in G.
    destruct G as [G|(bw & Hin & ->)]; [auto|].
    match goal with Hc : commit_loop _ _ _ _ _ = CROk _ |- _ =>
      destruct (commit_loop_upd_ok (concat data) _ _ _ _ _ _ Hc (incl_refl _) (upd_ok_nil _ _ _) _ _ Hin) as (b0 & L & (Len & Rp & Hh) & Vt & Pt) end.
    left. exists b0. split; [apply has_live; auto|]. pose proof (Hok _ _ (has_live _ _ _ L)) as Hb0.
    unfold blob_rel. cbn [build_blob b_tracts b_repl]. rewrite map_length.
    split; [lia|]. split; [|split; [|split; [apply build_tracts_ok|split; [|split; [|split]]]]].
    + intros m t t' H1 H2. apply nth_error_map_inv in H2. destruct H2 as (tw & H2 & ->).
      destruct (Vt m t tw H1 H2) as [Ev|(e & He & Hk & Hm & Ev)].
      * left. cbn. rewrite Ev. unfold u32. apply N.mod_small. exact (Forall_nth _ _ _ _ Hb0 H1).
      * right. right. exists cid, cls, hosts, data, e. repeat split; auto; [cbn; rewrite Ev; reflexivity|].
        destruct (et_newver e <? 2) eqn:E2; [left; lia|right].
        destruct (precheck_ok _ _ e Epre He ltac:(lia)) as (b1 & t1 & L1 & N1 & V1).
        rewrite Hk in L1. rewrite L in L1. injection L1 as <-. rewrite Hm in N1. rewrite H1 in N1. injection N1 as <-. exact V1.
    + intros Hn. rewrite (live_deleted0 _ _ _ L) in Hn. contradiction.
    + intros m t t' H1 H2. apply nth_error_map_inv in H2. destruct H2 as (tw & H2 & ->).
      right. left. cbn. rewrite (Hh _ _ _ H1 H2). reflexivity.
    + intros m t' H1 H2. apply nth_error_map_inv in H2. destruct H2 as (tw & H2 & ->).
      apply nth_error_None in H1. assert (nth_error (b_tracts bw) m <> None) by congruence. apply nth_error_Some in H. lia.
    + right. rewrite Rp. reflexivity.
    + intros m t t' H1 H2. apply nth_error_map_inv in H2. destruct H2 as (tw & H2 & ->).
      intros cls0 cid' Hp. rewrite rs_get_build in Hp. destruct (rs_get cls0 tw) as [c0|] eqn:E0; [|discriminate]. cbn in Hp.
      injection Hp as <-. destruct (Pt m t tw cls0 c0 H1 H2 E0) as [Eo|(-> & e & He & Hk & Hm)].
      * left. exists c0. split; [exact Eo|apply chunk_key_norm].
      * right. exists cid, cls, hosts, data, e. split; [reflexivity|]. split; [apply chunk_key_norm|]. auto.
  - unfold do_rshosts in H. repeat break_hyp H; inv H; auto.
  - unfold do_updatesc in H. repeat break_hyp H; try (inv H; auto; fail). inv H. live_setup Hok.
    match goal with Hp : put_blob _ _ _ = Some _ |- _ => eapply (Put _ _ _ _ Hp); [reflexivity|exact Gb|] end.
    apply blob_rel_build; [exact Hb|left; exact Hdel|..].
    + cbn. rewrite map_length. lia.
    + intros m t tx H1 H2. cbn in H2. apply nth_error_map_inv in H2. destruct H2 as (t0 & H2 & ->).
      rewrite H1 in H2. inv H2. split; [apply clear_others_version|split; [apply clear_others_hosts|]].
      intros cls0 cid0 Hp0. eapply clear_others_ptr; eauto.
    + intros m tx H1 H2. cbn in H2. apply nth_error_map_inv in H2. destruct H2 as (t0 & H2 & _). congruence.
    + reflexivity.
  - inv H; auto.
  - inv H; auto.
Qed.

(* ---------- the combined invariant and the step theorems at the level of Apply ---------- *)

Definition cinv (d : dstate) : Prop := pinv d /\ inv_a d /\ blobs_ok d.

Lemma cinv_init : cinv d_init.
Proof. split; [exact pinv_init|]. split; [exact inv_a_init|]. intros id b H. discriminate. Qed.

(* every blob present before and after one Apply is related by blob_rel (a CreateBlob never lands on an existing id) *)
Lemma dapply_blob_rel : forall d i c d' r id b b',
  dapply d i c = Some (d', r) -> cinv d ->
  aget id (d_blobs d) = Some b -> aget id (d_blobs d') = Some b' -> blob_rel c id b b'.
Proof.
  intros d i c d' r id b b' H (P & Ia & Ok) G G'.
  destruct (dapply_cases _ _ _ _ _ H) as [[(_ & E2 & _) _]|(A & _)].
  - rewrite E2 in G'. rewrite G in G'. inv G'. apply blob_rel_refl. eapply Ok; eauto.
  - destruct (blob_step (set_index d i) c d' r id b' Ok A G') as [(b0 & G0 & R)|(_ & _ & Hr & _)].
    + cbn [set_index d_blobs] in G0. rewrite G in G0. inv G0. exact R.
    + exfalso. destruct (create_returns_fresh _ _ _ _ _ _ H P Hr) as [NB _]. apply NB. apply Ia. unfold has. congruence.
Qed.

Lemma dapply_blobs_ok : forall d i c d' r, dapply d i c = Some (d', r) -> cinv d -> blobs_ok d'.
Proof.
  intros d i c d' r H (P & Ia & Ok) id b' G'.
  destruct (dapply_cases _ _ _ _ _ H) as [[(_ & E2 & _) _]|(A & _)].
  - rewrite E2 in G'. eapply Ok; eauto.
  - destruct (blob_step (set_index d i) c d' r id b' Ok A G') as [(b0 & G0 & R)|(_ & T & _)].
    + apply R.
    + rewrite T. constructor.
Qed.

Lemma dapply_cinv : forall d i c d' r, dapply d i c = Some (d', r) -> cinv d -> cinv d'.
Proof.
  intros d i c d' r H C. pose proof C as (P & Ia & Ok).
  split; [eapply dapply_pinv; eauto|]. split; [eapply inv_a_step; eauto|eapply dapply_blobs_ok; eauto].
Qed.

Lemma dapply_all_cinv : forall cs d d' r, dapply_all d cs = Some (d', r) -> cinv d -> cinv d'.
Proof.
  induction cs as [|[i c] cs IH]; intros d d' r H C; cbn [dapply_all] in H; [inv H; exact C|].
  destruct (dapply d i c) as [[d1 res]|] eqn:E; [|discriminate].
  destruct (dapply_all d1 cs) as [[d2 rs]|] eqn:E2; [|discriminate]. inv H.
  eapply IH; eauto. eapply dapply_cinv; eauto.
Qed.

Lemma reachable_cinv : forall cs s r, apply_all s_init cs = Some (s, r) -> cinv (fst s).
Proof. intros cs s r H. apply apply_all_dapply_all_inv in H. eapply dapply_all_cinv; eauto. exact cinv_init. Qed.

(* (e) invisibility to lookups *)
Lemma deleted_invisible_lemma : forall d id b, aget id (d_blobs d) = Some b -> b_deleted b <> 0 -> live_blob d id = None.
Proof.
  intros d id b G Hn. unfold live_blob. rewrite G. destruct (b_deleted b =? 0) eqn:E; [apply N.eqb_eq in E; contradiction|reflexivity].
Qed.

(* ---------- clause (c): replicated tracts have exactly repl holders, all non-zero ---------- *)

Definition host_ok (h : N) : Prop := 0 < h /\ h < two20.

(* the part of `submittable` this clause needs: tractserver ids in host lists are master-issued ids below 2^20 *)
Definition hosts_sub (c : cmd) : Prop :=
  match c with
  | CExtend _ _ hs => Forall (Forall host_ok) hs
  | CChangeTract _ _ _ hosts => Forall host_ok hosts
  | _ => True
  end.

Definition tract_c (b : blob) (t : tract) : Prop :=
  Forall host_ok (t_hosts t) /\ (t_hosts t = [] \/ N.of_nat (length (t_hosts t)) = b_repl b).

Definition inv_c (d : dstate) : Prop :=
  forall id b, aget id (d_blobs d) = Some b -> b_repl b < two8 /\ Forall (tract_c b) (b_tracts b).

Lemma mask20_ok : forall h, host_ok h -> mask20 h = h.
Proof. intros h [H1 H2]. unfold mask20. apply N.mod_small. exact H2. Qed.

Lemma map_u32_ok : forall hs, Forall host_ok hs -> map u32 hs = hs.
Proof.
  induction hs; intros H; cbn; auto. inversion H; subst. rewrite IHhs by auto. f_equal.
  unfold u32. apply N.mod_small. destruct H2. unfold two20, two32 in *. lia.
Qed.

Lemma norm_hosts_fix : forall hs, Forall host_ok hs -> norm_hosts hs = hs.
Proof.
  intros hs H. unfold norm_hosts.
  destruct hs as [|h0 r0]; [reflexivity|]. inversion H as [|? ? H0 Hr0]; subst.
  rewrite (mask20_ok _ H0). destruct (h0 =? 0) eqn:E0; [apply N.eqb_eq in E0; destruct H0; lia|].
  destruct r0 as [|h1 r1]; [reflexivity|]. inversion Hr0 as [|? ? H1 Hr1]; subst.
  rewrite (mask20_ok _ H1). destruct (h1 =? 0) eqn:E1; [apply N.eqb_eq in E1; destruct H1; lia|].
  destruct r1 as [|h2 r2]; [reflexivity|]. inversion Hr1 as [|? ? H2 Hr2]; subst.
  rewrite (mask20_ok _ H2). destruct (h2 =? 0) eqn:E2; [apply N.eqb_eq in E2; destruct H2; lia|].
  rewrite map_u32_ok by auto. reflexivity.
Qed.

Lemma Forall_of_nth : forall {A} (P : A -> Prop) l, (forall m x, nth_error l m = Some x -> P x) -> Forall P l.
Proof.
  induction l; intros H; constructor.
  - apply (H 0%nat). reflexivity.
  - apply IHl. intros m x Hm. apply (H (S m)). exact Hm.
Qed.

Lemma u8_small : forall x, x < two8 -> u8 x = x.
Proof. intros. unfold u8. apply N.mod_small. auto. Qed.

Lemma inv_c_step : forall d i c d' r, dapply d i c = Some (d', r) -> cinv d -> hosts_sub c -> inv_c d -> inv_c d'.
Proof.
  intros d i c d' r H (P & Ia & Ok) Hs Ic id b' G'.
  destruct (dapply_cases _ _ _ _ _ H) as [[(_ & E2 & _) _]|(A & _)].
  - rewrite E2 in G'. apply (Ic id b' G').
  - destruct (blob_step (set_index d i) c d' r id b' Ok A G') as [(b & G & R)|(_ & T & _ & Rp)].
    + cbn [set_index d_blobs] in G. destruct (Ic id b G) as [Rb Tb].
      destruct R as (_ & _ & _ & _ & Hh & Hn & Rr & _).
      assert (Er : b_repl b' = b_repl b) by (destruct Rr as [Rr|Rr]; [exact Rr|rewrite Rr; apply u8_small; exact Rb]).
      split; [rewrite Er; exact Rb|].
      apply Forall_of_nth. intros m t' Hm. unfold tract_c. rewrite Er.
      destruct (nth_error (b_tracts b) m) as [t|] eqn:Em.
      * destruct (Forall_nth _ _ _ _ Tb Em) as [T1 T2].
        destruct (Hh m t t' Em Hm) as [E|[E|[E|(idx & ver & hosts & -> & _ & E & L)]]].
        -- rewrite E. auto.
        -- rewrite E, norm_hosts_fix by auto. auto.
        -- rewrite E. split; [constructor|left; reflexivity].
        -- cbn [hosts_sub] in Hs. rewrite E, norm_hosts_fix by auto. split; [exact Hs|].
           destruct T2 as [T2|T2]; [left; rewrite T2 in L; destruct hosts; [reflexivity|discriminate]|right; rewrite <- L; exact T2].
      * destruct (Hn m t' Em Hm) as (first & hs & h & -> & Hin & E & L & _).
        cbn [hosts_sub] in Hs. rewrite Forall_forall in Hs. specialize (Hs h Hin).
        rewrite E, norm_hosts_fix by auto. split; [exact Hs|right; exact L].
    + split; [exact Rp|]. rewrite T. constructor.
Qed.

Lemma inv_c_init : inv_c d_init.
Proof. intros id b H. discriminate. Qed.

Lemma inv_c_run : forall cs d d' r, dapply_all d cs = Some (d', r) -> cinv d -> Forall (fun e => hosts_sub (snd e)) cs ->
  inv_c d -> inv_c d'.
Proof.
  induction cs as [|[i c] cs IH]; intros d d' r H C Hs Ic; cbn [dapply_all] in H; [inv H; exact Ic|].
  destruct (dapply d i c) as [[d1 res]|] eqn:E; [|discriminate].
  destruct (dapply_all d1 cs) as [[d2 rs]|] eqn:E2; [|discriminate]. inv H.
  inversion Hs; subst. eapply IH; eauto; [eapply dapply_cinv; eauto|eapply inv_c_step; eauto].
Qed.

(* ---------- clause (a) for RS chunk ids ---------- *)

(* chunk id k of (the RS twin of) partition pid has been handed out *)
Definition below_rs (d : dstate) (pid k : N) : Prop := exists p, aget pid (d_parts d) = Some p /\ k < p_nextrs p.

Lemma below_rs_step : forall d i c d' r pid k, dapply d i c = Some (d', r) -> pinv d -> alloc_sane c ->
  below_rs d pid k -> below_rs d' pid k.
Proof.
  intros d i c d' r pid k H P Ha (p & G & L).
  destruct (counters_monotone_lemma _ _ _ _ _ _ _ H P Ha G) as (p' & G' & _ & L'). exists p'. split; auto. lia.
Qed.

(* a successful AllocateRSChunkIDs n returns the partition's NextRsChunkKey k; none of k .. k+n-1 was handed out
   before, all of them are afterwards *)
Lemma alloc_fresh : forall d i n d' rp k, dapply d i (CAllocRS n) = Some (d', [9; e_NoError; rp; k]) -> pinv d ->
  n < two64 - c_MaxRSChunkKey ->
  exists pid, rp = rs_partition_id pid /\
    forall j, k <= j -> j < k + n -> ~ below_rs d pid j /\ below_rs d' pid j.
Proof.
  intros d i n d' rp k H [S W] Hn.
  destruct (dapply_cases _ _ _ _ _ H) as [[_ [_ N9]]|(A & _)]; [cbn in N9; congruence|].
  cbn [apply_mut] in A. unfold do_allocrs in A. repeat break_hyp A; try (inv A; unfold e_GenBlobID, e_NoError in *; discriminate).
  match goal with Hf : first_part _ _ = Some (?q, ?pp) |- _ =>
    destruct (first_part_aget _ _ _ _ S Hf) as [G1 G2]; cbn [set_index d_parts] in G1; exists q end.
  injection A as <- <- <-. split; [reflexivity|].
  intros j J1 J2. destruct (W _ _ G1) as [_ W2]. split.
  - intros (p' & G & L). rewrite G1 in G. inv G. lia.
  - eexists. cbn. rewrite aget_aput_eq. split; [reflexivity|]. cbn.
    unfold c_MaxRSChunkKey, two64 in *. rewrite N.mod_small by lia. lia.
Qed.

(* ---------- clause (h): the known-tractserver set covers every holder mentioned ---------- *)

Definition inv_h (d : dstate) : Prop :=
  (forall id b t h, aget id (d_blobs d) = Some b -> In t (b_tracts b) -> In h (t_hosts t) -> In h (d_tsids d)) /\
  (forall k c h, aget k (d_chunks d) = Some c -> In h (c_hosts c) -> In h (d_tsids d)).

Definition tracts_host_ok (b : blob) : Prop := forall t, In t (b_tracts b) -> Forall host_ok (t_hosts t).

Lemma inv_c_host_ok : forall d id b, inv_c d -> aget id (d_blobs d) = Some b -> tracts_host_ok b.
Proof.
  intros d id b Ic G t Ht. destruct (Ic id b G) as [_ F]. rewrite Forall_forall in F. apply (F t Ht).
Qed.

Lemma u32_host_ok : forall h, host_ok h -> u32 h = h.
Proof. intros h [H1 H2]. unfold u32. apply N.mod_small. unfold two20, two32 in *. lia. Qed.

Lemma put_blob_h : forall d id x d', put_blob d id x = Some d' -> inv_h d -> tracts_host_ok x -> inv_h d'.
Proof.
  intros d id x d' H [Hb Hc] Hx. unfold put_blob in H. destruct (aget (blob_part id) (d_parts d)); [|discriminate]. inv H.
  split; cbn [set_tsids set_blobs d_blobs d_tsids d_chunks].
  - intros id2 b t h G Ht Hh. apply set_add_all_In. rewrite aget_aput in G. destruct (id2 =? id) eqn:E.
    + inv G. left. cbn [build_blob b_tracts] in Ht. apply in_map_iff in Ht. destruct Ht as (tx & <- & Htx).
      cbn [build_tract t_hosts] in Hh. rewrite norm_hosts_fix in Hh by (apply Hx; exact Htx).
      apply in_map_iff. exists h. split; [apply u32_host_ok; pose proof (Hx _ Htx) as F; rewrite Forall_forall in F; auto|].
      unfold all_hosts. apply in_concat. exists (t_hosts tx). split; [apply in_map; exact Htx|exact Hh].
    + right. eapply Hb; eauto.
  - intros k c h G Hh. apply set_add_all_In. right. eapply Hc; eauto.
Qed.

Lemma same_data_h : forall d d', d_blobs d' = d_blobs d -> d_chunks d' = d_chunks d -> d_tsids d' = d_tsids d -> inv_h d -> inv_h d'.
Proof. intros d d' E1 E2 E3 [Hb Hc]. split; rewrite ?E1, ?E2, E3; auto. Qed.

Lemma remove_tract_hosts : forall chunks cid bid idx k c', aget k (remove_tract_from_chunk chunks cid bid idx) = Some c' ->
  exists c, aget k chunks = Some c /\ c_hosts c' = c_hosts c.
Proof.
  intros chunks cid bid idx k c' H. unfold remove_tract_from_chunk in H.
  destruct (aget (chunk_key cid) chunks) as [c0|] eqn:E; [|eauto].
  destruct (remove_from_data bid idx (c_data c0)); [|eauto].
  rewrite aget_aput in H. destruct (k =? chunk_key cid) eqn:E2; [|eauto].
  apply N.eqb_eq in E2; subst. inv H. eauto.
Qed.

Lemma remove_tracts_hosts : forall ts chunks bid n k c', aget k (remove_tracts_from_chunks chunks bid n ts) = Some c' ->
  exists c, aget k chunks = Some c /\ c_hosts c' = c_hosts c.
Proof.
  induction ts as [|t ts IH]; intros chunks bid n k c' H; cbn [remove_tracts_from_chunks] in H; [eauto|].
  apply IH in H. destruct H as (c1 & G1 & E1).
  assert (F : forall l ch c1, aget k (fold_left (fun acc cid => if cid_valid cid then remove_tract_from_chunk acc cid bid n else acc) l ch) = Some c1 ->
              exists c, aget k ch = Some c /\ c_hosts c1 = c_hosts c).
  { induction l as [|x l IHl]; intros ch c2 Hf; cbn [fold_left] in Hf; [eauto|].
    apply IHl in Hf. destruct Hf as (c3 & G3 & E3). destruct (cid_valid x); [|eauto].
    apply remove_tract_hosts in G3. destruct G3 as (c4 & G4 & E4). exists c4. split; auto. congruence. }
  apply F in G1. destruct G1 as (c & G & E). exists c. split; auto. congruence.
Qed.

Lemma finish_one_h : forall d id, inv_h d -> inv_h (finish_one d id).
Proof.
  intros d id [Hb Hc]. unfold finish_one. split; cbn [set_blobs set_chunks d_blobs d_chunks d_tsids].
  - intros id2 b t h G. apply aget_adel_some in G. eapply Hb; eauto.
  - intros k c' h G Hh. destruct (aget id (d_blobs d)); [|eapply Hc; eauto].
    apply remove_tracts_hosts in G. destruct G as (c & G & E). rewrite E in Hh. eapply Hc; eauto.
Qed.

Lemma fold_h : forall {A} (f : dstate -> A -> dstate) l d, (forall d x, inv_h d -> inv_h (f d x)) -> inv_h d -> inv_h (fold_left f l d).
Proof. induction l; intros; cbn; auto. Qed.

Lemma update_one_h : forall d u, inv_h d -> inv_h (update_one d u).
Proof.
  intros d [bid [m a]] [Hb Hc]. unfold update_one. destruct (live_blob d bid) as [b|] eqn:E; [|split; auto].
  split; cbn [set_blobs d_blobs d_chunks d_tsids]; [|auto].
  intros id2 b2 t h G. rewrite aget_aput in G. destruct (id2 =? bid) eqn:E2; [|eapply Hb; eauto].
  apply N.eqb_eq in E2; subst. inv G. cbn [set_times b_tracts] in *.
  eapply Hb; [apply has_live; exact E|eassumption|eassumption].
Qed.

Lemma in_list_set : forall {A} n (x : A) l y, In y (list_set n x l) -> y = x \/ In y l.
Proof.
  induction n; intros x l y H; destruct l; cbn in *; auto.
  - destruct H; auto.
  - destruct H as [H|H]; auto. destruct (IHn _ _ _ H); auto.
Qed.

Lemma apply_mut_h : forall d c d' r, apply_mut d c = Some (d', r) -> inv_c d -> hosts_sub c -> inv_h d -> inv_h d'.
Proof.
  intros d c d' r H Ic Hs Ih. destruct c; cbn [apply_mut] in H.
  - inv H; auto.
  - inv H. break_goal; auto; try (eapply same_data_h; eauto; reflexivity).
  - unfold add_partition in H. destruct (aget p (d_parts d)); inv H; auto; try (eapply same_data_h; eauto; reflexivity).
  - inv H. apply fold_h; auto. intros d0 x I0. unfold add_partition. break_goal; auto; try (eapply same_data_h; eauto; reflexivity).
  - unfold do_create in H. repeat break_hyp H; try (inv H; auto; fail). inv H.
    match goal with Hp : put_blob _ _ _ = Some _ |- _ => eapply (put_blob_h _ _ _ _ Hp) end.
    + eapply same_data_h; eauto; reflexivity.
    + intros t []. 
  - unfold do_extend in H. repeat break_hyp H; try (inv H; auto; fail). inv H.
    match goal with Hp : put_blob _ _ _ = Some _, Hl : live_blob _ _ = Some ?b |- _ =>
      eapply (put_blob_h _ _ _ _ Hp); [exact Ih|]; pose proof (inv_c_host_ok _ _ _ Ic (has_live _ _ _ Hl)) as Hb end.
    intros t Ht. cbn in Ht. apply in_app_or in Ht. destruct Ht as [Ht|Ht]; [auto|].
    apply in_map_iff in Ht. destruct Ht as (h & <- & Hin). cbn. cbn [hosts_sub] in Hs. rewrite Forall_forall in Hs. auto.
  - unfold do_delete in H. repeat break_hyp H; try (inv H; auto; fail). inv H.
    match goal with Hp : put_blob _ _ _ = Some _, Hl : live_blob _ _ = Some ?b |- _ =>
      eapply (put_blob_h _ _ _ _ Hp); [exact Ih|]; exact (inv_c_host_ok _ _ _ Ic (has_live _ _ _ Hl)) end.
  - unfold do_undelete in H. repeat break_hyp H; try (inv H; auto; fail). inv H.
    match goal with Hp : put_blob _ _ _ = Some _, Hl : aget _ _ = Some ?b |- _ =>
      eapply (put_blob_h _ _ _ _ Hp); [exact Ih|]; exact (inv_c_host_ok _ _ _ Ic Hl) end.
  - unfold do_finish in H. inv H. apply fold_h; auto. intros; apply finish_one_h; auto.
  - unfold do_setmeta in H. repeat break_hyp H; try (inv H; auto; fail). inv H.
    match goal with Hp : put_blob _ _ _ = Some _, Hl : live_blob _ _ = Some ?b |- _ =>
      eapply (put_blob_h _ _ _ _ Hp); [exact Ih|]; exact (inv_c_host_ok _ _ _ Ic (has_live _ _ _ Hl)) end.
  - unfold do_change in H. repeat break_hyp H; try (inv H; auto; fail). inv H. destruct Ih as [Hb Hc].
    cbn [hosts_sub] in Hs.
    split; cbn [set_tsids set_blobs d_blobs d_tsids d_chunks].
    + intros id2 b2 t2 h G Ht Hh. apply set_add_all_In. rewrite aget_aput in G. destruct (id2 =? bid) eqn:E; [|right; eapply Hb; eauto].
      inv G. cbn in Ht. apply in_list_set in Ht. destruct Ht as [->|Ht].
      * cbn in Hh. rewrite norm_hosts_fix in Hh by auto. left. apply in_map_iff. exists h. split; auto.
        apply u32_host_ok. rewrite Forall_forall in Hs. auto.
      * right. match goal with Hl : live_blob _ _ = Some _ |- _ => eapply Hb; [apply has_live; exact Hl|exact Ht|exact Hh] end.
    + intros k c0 h G Hh. apply set_add_all_In. right. eapply Hc; eauto.
  - inv H. apply fold_h; auto. intros; apply update_one_h; auto.
  - unfold do_allocrs in H. repeat break_hyp H; inv H; auto; try (eapply same_data_h; eauto; reflexivity).
  - unfold do_commit, do_commit_unchecked in H. repeat break_hyp H; try (inv H; auto; fail). inv H. destruct Ih as [Hb Hc].
    split; cbn [set_tsids set_blobs set_chunks d_blobs d_tsids d_chunks].
    + intros id2 b2 t2 h G Ht Hh. apply set_add_all_In. right. apply fold_aput_get in G.
      destruct G as [G|(bw & Hin & ->)]; [eapply Hb; eauto|].
      match goal with Hcl : commit_loop _ _ _ _ _ = CROk _ |- _ =>
        destruct (commit_loop_upd_ok (concat data) _ _ _ _ _ _ Hcl (incl_refl _) (upd_ok_nil _ _ _) _ _ Hin) as (b0 & L & (Len & Rp & Hsame) & _) end.
      cbn [build_blob b_tracts] in Ht. apply in_map_iff in Ht. destruct Ht as (tw & <- & Htw).
      apply In_nth_error in Htw. destruct Htw as [m Hm].
      destruct (nth_error (b_tracts b0) m) as [t0|] eqn:E0.
      * pose proof (Hsame _ _ _ E0 Hm) as Eh. cbn in Hh. rewrite Eh in Hh.
        pose proof (inv_c_host_ok _ _ _ Ic (has_live _ _ _ L) t0 (nth_error_In _ _ E0)) as Fo.
        rewrite norm_hosts_fix in Hh by auto. eapply Hb; [apply has_live; exact L|eapply nth_error_In; exact E0|exact Hh].
      * exfalso. apply nth_error_None in E0. assert (nth_error (b_tracts bw) m <> None) by congruence.
        apply nth_error_Some in H. lia.
    + intros k c0 h G Hh. apply set_add_all_In. rewrite aget_aput in G. destruct (k =? chunk_key cid); [|right; eapply Hc; eauto].
      inv G. left. exact Hh.
  - unfold do_rshosts in H. repeat break_hyp H; try (inv H; auto; fail). inv H. destruct Ih as [Hb Hc].
    split; cbn [set_tsids set_chunks d_blobs d_tsids d_chunks].
    + intros id2 b2 t2 h G Ht Hh. apply set_add_all_In. right. eapply Hb; eauto.
    + intros k c0 h G Hh. apply set_add_all_In. rewrite aget_aput in G. destruct (k =? chunk_key cid); [|right; eapply Hc; eauto].
      inv G. left. exact Hh.
  - unfold do_updatesc in H. repeat break_hyp H; try (inv H; auto; fail). inv H.
    match goal with Hp : put_blob _ _ _ = Some _, Hl : live_blob _ _ = Some ?b |- _ =>
      eapply (put_blob_h _ _ _ _ Hp); [exact Ih|]; pose proof (inv_c_host_ok _ _ _ Ic (has_live _ _ _ Hl)) as Hb end.
    intros t Ht. cbn in Ht. apply in_map_iff in Ht. destruct Ht as (t0 & <- & Hin).
    destruct (clear_others_hosts cls t0) as [E|E]; rewrite E; [auto|constructor].
  - inv H; auto.
  - inv H; auto.
Qed.

Lemma inv_h_step : forall d i c d' r, dapply d i c = Some (d', r) -> inv_c d -> hosts_sub c -> inv_h d -> inv_h d'.
Proof.
  intros d i c d' r H Ic Hs Ih.
  destruct (dapply_cases _ _ _ _ _ H) as [[(_ & E2 & E3 & E4 & _) _]|(A & _)].
  - eapply same_data_h; eauto.
  - eapply (apply_mut_h (set_index d i)); eauto.
Qed.

Lemma inv_h_init : inv_h d_init.
Proof. split; intros; discriminate. Qed.

Lemma inv_ch_run : forall cs d d' r, dapply_all d cs = Some (d', r) -> cinv d -> Forall (fun e => hosts_sub (snd e)) cs ->
  inv_c d /\ inv_h d -> inv_c d' /\ inv_h d'.
Proof.
  induction cs as [|[i c] cs IH]; intros d d' r H C Hs [Ic Ih]; cbn [dapply_all] in H; [inv H; auto|].
  destruct (dapply d i c) as [[d1 res]|] eqn:E; [|discriminate].
  destruct (dapply_all d1 cs) as [[d2 rs]|] eqn:E2; [|discriminate]. inv H.
  inversion Hs; subst. eapply IH; eauto; [eapply dapply_cinv; eauto|].
  split; [eapply inv_c_step; eauto|eapply inv_h_step; eauto].
Qed.
