(* C11/BridgeC13.v — the layout hypothesis of clause (g) is what C13 proved about packTracts: every chunk that
   first-fit-decreasing packing produces for the target RSPieceLength is accepted by checkTractSpec, and the
   CommitRSChunk layout built from it (encCommit copies offset and length of every packed tract) satisfies [cmd_spec]. *)
From Coq Require Import List NArith Lia.
From BLB Require Import Gen.Consts Meta.Curator C11.ProofsG.
From BLB Require C13.Model C13.ProofsPack C13.Props.
Import ListNotations.
Open Scope N_scope.

Lemma cmd_spec_of_c13 : forall (mk : C13.Model.ext -> enc_tract),
  (forall x, et_off (mk x) = C13.Model.e_off x /\ et_len (mk x) = C13.Model.e_len x) ->
  forall exts s, cmd_spec s (map mk exts) = C13.Model.check_spec_from s exts.
Proof.
  intros mk Hmk. induction exts as [|x exts IH]; intros s; cbn; [reflexivity|].
  destruct (Hmk x) as [-> ->]. destruct (C13.Model.e_off x <? s); [reflexivity|apply IH].
Qed.

Lemma packed_layouts_accepted : forall lens (mk : C13.Model.ext -> enc_tract),
  (forall x, et_off (mk x) = C13.Model.e_off x /\ et_len (mk x) = C13.Model.e_len x) ->
  Forall (fun l => C13.Model.padded l <= c_meta_RSPieceLength) lens ->
  Forall (fun c => exists e, cmd_spec 0 (map mk (C13.Model.pc_exts c)) = Some e /\ e <= c_meta_RSPieceLength)
         (C13.Model.ffd lens c_meta_RSPieceLength).
Proof.
  intros lens mk Hmk Hl. pose proof (C13.Props.pack_layout_wf lens c_meta_RSPieceLength Hl) as W.
  eapply Forall_impl; [|exact W]. intros c [_ Hc]. rewrite (cmd_spec_of_c13 mk Hmk).
  unfold C13.Model.check_tract_spec in Hc. destruct (C13.Model.check_spec_from 0 (C13.Model.pc_exts c)) as [e|]; [|discriminate].
  exists e. split; [reflexivity|]. apply Bool.negb_true_iff, N.ltb_ge in Hc. exact Hc.
Qed.

(* the alignment hypothesis of the pad-alignment theorem (C11/ProofsBE.v aligned_sub) is the other half of C13's wf_pchunk:
   every extent of every chunk packTracts produces starts at a multiple of padToLength *)
Lemma packed_layouts_aligned : forall lens (mk : C13.Model.ext -> enc_tract),
  (forall x, et_off (mk x) = C13.Model.e_off x /\ et_len (mk x) = C13.Model.e_len x) ->
  Forall (fun l => C13.Model.padded l <= c_meta_RSPieceLength) lens ->
  Forall (fun c => Forall (fun e => et_off e mod c13_padToLength = 0) (map mk (C13.Model.pc_exts c)))
         (C13.Model.ffd lens c_meta_RSPieceLength).
Proof.
  intros lens mk Hmk Hl. pose proof (C13.Props.pack_layout_wf lens c_meta_RSPieceLength Hl) as W.
  eapply Forall_impl; [|exact W]. intros c [(e & _ & _ & _ & _ & Ha) _].
  apply Forall_forall. intros y Hy. apply in_map_iff in Hy. destruct Hy as (x & <- & Hx).
  rewrite Forall_forall in Ha. rewrite (proj1 (Hmk x)). exact (Ha x Hx).
Qed.
