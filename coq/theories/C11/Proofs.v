(* C11/Proofs.v — lemmas for the C11 theorems. *)
From Coq Require Import List Arith NArith Bool Lia ZifyN ZifyNat ZifyBool.
From BLB Require Import Gen.Consts Meta.AMap Meta.Curator Meta.CuratorFacts Meta.CuratorInv.
Import ListNotations.
Open Scope N_scope.

(* ---------- (f) read-only mode ---------- *)

Lemma readonly_freezes_lemma : forall d i c d' r,
  dapply d i c = Some (d', r) -> d_ro d = true -> (forall b, c <> CSetRO b) ->
  d' = d \/ d' = set_index d i.
Proof.
  intros d i c d' r H Hro Hc. unfold dapply in H.
  destruct (i <=? d_index d); [inv H; now left|].
  destruct c; try (cbn [set_index d_ro] in H; rewrite Hro in H; inv H; now right); try (inv H; now left).
  exfalso. eapply Hc; eauto.
Qed.

(* ---------- (e) removal of blobs ---------- *)

Lemma put_blob_keeps : forall d id b d' k, put_blob d id b = Some d' -> has k (d_blobs d) -> has k (d_blobs d').
Proof.
  unfold put_blob; intros. break_hyp H; [|discriminate]. inv H. cbn. apply has_aput. auto.
Qed.

Lemma fold_keeps : forall {A} (f : dstate -> A -> dstate) l d k,
  (forall d x, has k (d_blobs d) -> has k (d_blobs (f d x))) -> has k (d_blobs d) -> has k (d_blobs (fold_left f l d)).
Proof. induction l; intros; cbn; auto. Qed.

Lemma fold_aput_keeps : forall (upd : amap blob) (m : amap blob) k,
  has k m -> has k (fold_left (fun acc kv => aput (fst kv) (build_blob (snd kv)) acc) upd m).
Proof.
  induction upd as [|[k1 b1] upd IH]; intros m k H; cbn [fold_left]; [auto|]. apply IH. apply has_aput. auto.
Qed.

Lemma apply_mut_keeps : forall d c d' r k,
  apply_mut d c = Some (d', r) -> (forall cutoff ids, c <> CFinishDelete cutoff ids) ->
  has k (d_blobs d) -> has k (d_blobs d').
Proof.
  intros d c d' r k H Hc Hk. destruct c; cbn [apply_mut] in H.
  - inv H; auto.
  - inv H. break_goal; auto.
  - unfold add_partition in H. destruct (aget p (d_parts d)); inv H; auto.
  - inv H. apply fold_keeps; auto. intros d0 x Hx. unfold add_partition. break_goal; auto.
  - unfold do_create in H. repeat break_hyp H; try (inv H; exact Hk).
    inv H. eapply put_blob_keeps; eauto.
  - unfold do_extend in H. repeat break_hyp H; inv H; auto. eapply put_blob_keeps; eauto.
  - unfold do_delete in H. repeat break_hyp H; inv H; auto. eapply put_blob_keeps; eauto.
  - unfold do_undelete in H. repeat break_hyp H; inv H; auto. eapply put_blob_keeps; eauto.
  - exfalso. eapply Hc; eauto.
  - unfold do_setmeta in H. repeat break_hyp H; inv H; auto. eapply put_blob_keeps; eauto.
  - unfold do_change in H. repeat break_hyp H; inv H; auto. cbn. apply has_aput. auto.
  - inv H. apply fold_keeps; auto. intros d0 [b [m a]] Hx. unfold update_one. break_goal; auto. cbn. apply has_aput. auto.
  - unfold do_allocrs in H. repeat break_hyp H; inv H; auto.
  - unfold do_commit, do_commit_unchecked in H. repeat break_hyp H; inv H; auto. cbn. apply fold_aput_keeps. auto.
  - unfold do_rshosts in H. repeat break_hyp H; inv H; auto.
  - unfold do_updatesc in H. repeat break_hyp H; inv H; auto. eapply put_blob_keeps; eauto.
  - inv H; auto.
  - inv H; auto.
Qed.

Lemma finish_one_blobs : forall d id, d_blobs (finish_one d id) = adel id (d_blobs d).
Proof. reflexivity. Qed.

Lemma finish_fold_keeps : forall ids d k, ~ In k ids -> has k (d_blobs d) -> has k (d_blobs (fold_left finish_one ids d)).
Proof.
  induction ids as [|x ids IH]; intros d k Hn Hk; cbn [fold_left]; [auto|].
  apply IH; [intro; apply Hn; now right|].
  rewrite finish_one_blobs. unfold has. rewrite aget_adel_ne; [exact Hk|]. intro; subst. apply Hn. now left.
Qed.

(* a blob disappears only through a final deletion that names it; if the command carries a cutoff, the blob was,
   at that moment, deleted or expired with respect to it *)
Lemma blob_removed_lemma : forall d i c d' r id b,
  dapply d i c = Some (d', r) -> aget id (d_blobs d) = Some b -> aget id (d_blobs d') = None ->
  exists cutoff ids, c = CFinishDelete cutoff ids /\ In id ids /\ (cutoff <> 0 -> gc_eligible b cutoff = true).
Proof.
  intros d i c d' r id b H Hb Hn.
  assert (Hk : has id (d_blobs d)) by (unfold has; rewrite Hb; discriminate).
  unfold dapply in H. destruct (i <=? d_index d); [inv H; congruence|].
  destruct c;
    try (destruct (d_ro (set_index d i)); [inv H; cbn in Hn; congruence|];
         exfalso; eapply (apply_mut_keeps _ _ _ _ id H); [intros; discriminate|exact Hk|exact Hn]);
    try (inv H; cbn in Hn; congruence).
  destruct (d_ro (set_index d i)); [inv H; cbn in Hn; congruence|].
  cbn [apply_mut] in H. unfold do_finish in H. inv H.
  exists cutoff, ids.
  destruct (in_dec N.eq_dec id (finish_filter (set_index d i) cutoff ids)) as [Hin|Hnin].
  - unfold finish_filter in Hin. destruct (cutoff =? 0) eqn:E.
    + apply N.eqb_eq in E. repeat split; auto; try (intros; contradiction).
    + apply filter_In in Hin. destruct Hin as [Hin He]. cbn [set_index d_blobs] in He. rewrite Hb in He.
      repeat split; auto.
  - exfalso. eapply (finish_fold_keeps _ (set_index d i) id Hnin); [exact Hk|exact Hn].
Qed.

(* finding F18: with the current code (cutoff 0) delete; scan; undelete; FinishDelete removes a live blob *)
Definition f18_cmds : list (N * cmd) :=
  [(1, CSetReg 1); (2, CAddPart 1); (3, CCreate 3 (1600000000 * nano) 0 0);
   (4, CDelete 4294967297 (1600000010 * nano));
   (5, CUndelete 4294967297);
   (6, CFinishDelete 0 [4294967297])].

Lemma live_blob_removed_witness :
  exists d d' r b,
    dapply_all d_init (firstn 5 f18_cmds) = Some (d, r) /\
    aget 4294967297 (d_blobs d) = Some b /\ b_deleted b = 0 /\ b_expires b = 0 /\
    dapply d 6 (CFinishDelete 0 [4294967297]) = Some (d', [1; e_NoError]) /\
    aget 4294967297 (d_blobs d') = None.
Proof.
  pose (d := match dapply_all d_init (firstn 5 f18_cmds) with Some (d, _) => d | None => d_init end).
  pose (r := match dapply_all d_init (firstn 5 f18_cmds) with Some (_, r) => r | None => [] end).
  pose (d' := match dapply d 6 (CFinishDelete 0 [4294967297]) with Some (d', _) => d' | None => d_init end).
  pose (b := match aget 4294967297 (d_blobs d) with Some b => b | None => mkBlob 9 9 9 9 9 9 9 [] end).
  exists d, d', r, b. repeat (match goal with |- _ /\ _ => split end); vm_compute; reflexivity.
Qed.

(* ---------- (d) versions ---------- *)

Lemma nth_error_list_set : forall {A} n (x : A) l, (n < length l)%nat -> nth_error (list_set n x l) n = Some x.
Proof.
  induction n; intros x l H; destruct l; cbn in *; try lia; [reflexivity|]. apply IHn. lia.
Qed.

Lemma nth_error_list_set_ne : forall {A} n m (x : A) l, n <> m -> nth_error (list_set n x l) m = nth_error l m.
Proof.
  induction n; intros m x l H; destruct l; destruct m; cbn; try reflexivity; try contradiction.
  apply IHn. lia.
Qed.

(* a successful ChangeTract raises exactly the named tract's version by one (as a uint32) and touches no other *)
Lemma change_version_lemma : forall d bid idx ver hosts d',
  do_change d bid idx ver hosts = Some (d', r_err e_NoError) ->
  exists b b' t t',
    live_blob d bid = Some b /\ aget bid (d_blobs d') = Some b' /\
    nth_error (b_tracts b) (N.to_nat idx) = Some t /\ nth_error (b_tracts b') (N.to_nat idx) = Some t' /\
    ver = t_version t + 1 /\ t_version t' = u32 (t_version t + 1) /\
    (forall m, m <> N.to_nat idx -> nth_error (b_tracts b') m = nth_error (b_tracts b) m) /\
    (forall id2, id2 <> bid -> aget id2 (d_blobs d') = aget id2 (d_blobs d)).
Proof.
  intros d bid idx ver hosts d' H. unfold do_change in H.
  destruct (live_blob d bid) as [b|] eqn:Eb; [|inv H].
  destruct (N.of_nat (length (b_tracts b)) <? idx); [inv H|].
  destruct (nth_error (b_tracts b) (N.to_nat idx)) as [t|] eqn:Et; [|discriminate].
  destruct (negb (length (t_hosts t) =? length hosts)%nat); [inv H|].
  destruct (negb (t_version t + 1 =? ver)) eqn:Ev; [inv H|].
  destruct ((t_version t =? 0) || (length (t_hosts t) =? 0)%nat); [inv H|].
  injection H as <-.
  apply negb_false_iff, N.eqb_eq in Ev. subst ver.
  assert (Hl : (N.to_nat idx < length (b_tracts b))%nat) by (apply nth_error_Some; congruence).
  eexists b, _, t, _. cbn [d_blobs set_tsids set_blobs].
  split; [reflexivity|]. split; [apply aget_aput_eq|].
  split; [exact Et|]. cbn [b_tracts set_tracts]. split; [apply nth_error_list_set; exact Hl|].
  split; [reflexivity|]. split; [reflexivity|].
  split; [intros m Hm; apply nth_error_list_set_ne; auto|].
  intros id2 Hne. apply aget_aput_ne; auto.
Qed.

(* finding F6: CommitRSChunk stores NewVersion without looking at the stored version *)
Definition f6_cmds : list (N * cmd) :=
  [(1, CSetReg 1); (2, CAddPart 1); (3, CCreate 3 (1600000000 * nano) 0 0);
   (4, CExtend 4294967297 0 [[1; 2; 3]]);
   (5, CChangeTract 4294967297 0 2 [1; 2; 4]);
   (6, CChangeTract 4294967297 0 3 [1; 5; 4]);
   (7, CAllocRS 9);
   (* built from a scan made when the version was 1 *)
   (8, CCommitRS (2147483649, 1) c_ClassRS63 [1; 2; 3; 4; 5; 6; 7; 8; 9]
                 [[mkET 4294967297 0 0 100 2]; []; []; []; []; []])].

Definition f6_commit_args := ((2147483649, 1) : chunkid, c_ClassRS63, [1; 2; 3; 4; 5; 6; 7; 8; 9],
                              [[mkET 4294967297 0 0 100 2]; []; []; []; []; []]).

(* the command WITHOUT the version check (PutRSChunk alone, the code before commit defd77a) accepts the stale commit and
   lowers the version from 3 to 2; the repaired command refuses it with ErrConflictingState and changes nothing *)
Lemma commit_lowers_version_witness :
  exists d d' b b' t t',
    dapply_all d_init (firstn 7 f6_cmds) = Some (d, [[2; 1]; [3; 0]; [5; 4294967297; 0]; [6; 0; 1]; [1; 0]; [1; 0]; [9; 0; 2147483649; 1]]) /\
    do_commit_unchecked d (2147483649, 1) c_ClassRS63 [1; 2; 3; 4; 5; 6; 7; 8; 9]
                 [[mkET 4294967297 0 0 100 2]; []; []; []; []; []] = Some (d', [1; e_NoError]) /\
    aget 4294967297 (d_blobs d) = Some b /\ aget 4294967297 (d_blobs d') = Some b' /\
    nth_error (b_tracts b) 0 = Some t /\ nth_error (b_tracts b') 0 = Some t' /\
    t_version t = 3 /\ t_version t' = 2 /\
    do_commit d (2147483649, 1) c_ClassRS63 [1; 2; 3; 4; 5; 6; 7; 8; 9]
                 [[mkET 4294967297 0 0 100 2]; []; []; []; []; []] = Some (d, [1; e_ConflictingState]).
Proof.
  pose (d := match dapply_all d_init (firstn 7 f6_cmds) with Some (d, _) => d | None => d_init end).
  pose (d' := match do_commit_unchecked d (2147483649, 1) c_ClassRS63 [1; 2; 3; 4; 5; 6; 7; 8; 9]
                 [[mkET 4294967297 0 0 100 2]; []; []; []; []; []] with Some (d', _) => d' | None => d_init end).
  pose (bb := fun x : dstate => match aget 4294967297 (d_blobs x) with Some b => b | None => mkBlob 9 9 9 9 9 9 9 [] end).
  pose (tt := fun x : dstate => match nth_error (b_tracts (bb x)) 0 with Some t => t | None => mkTract [] 99 None None None None end).
  exists d, d', (bb d), (bb d'), (tt d), (tt d'). repeat (match goal with |- _ /\ _ => split end); vm_compute; reflexivity.
Qed.
