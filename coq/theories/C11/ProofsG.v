(* C11/ProofsG.v — clause (g), chunk side: the layout of every stored RS chunk piece is the one checkTractSpec accepts
   (extents sorted, pairwise disjoint, inside the piece), and how one command changes the chunk table. *)
From Coq Require Import List Arith NArith Bool Lia ZifyN ZifyNat ZifyBool.
From BLB Require Import Gen.Consts Meta.AMap Meta.Curator Meta.CuratorFacts Meta.CuratorInv C11.Proofs C11.ProofsInv.
Import ListNotations.
Open Scope N_scope.

(* ---------- layouts ---------- *)

(* checkTractSpec (tractserver store.go; C13 Model.check_spec_from) on the stored form of a data piece:
   every extent starts at or after the end of the previous one; result = end of the last extent *)
Fixpoint piece_spec (endp : N) (p : list rsc_tract) : option N :=
  match p with
  | [] => Some endp
  | r :: rest => if rt_off r <? endp then None else piece_spec (rt_off r + rt_len r) rest
  end.

Definition piece_wf (p : list rsc_tract) : Prop := exists e, piece_spec 0 p = Some e /\ e <= c_meta_RSPieceLength.

(* the same on the layout a CommitRSChunk command carries: what packTracts produces (C13 pack_layout_wf: every chunk of
   ffd is accepted by check_tract_spec for the target RSPieceLength) *)
Fixpoint cmd_spec (endp : N) (p : list enc_tract) : option N :=
  match p with
  | [] => Some endp
  | r :: rest => if et_off r <? endp then None else cmd_spec (et_off r + et_len r) rest
  end.

Definition layout_sub (c : cmd) : Prop :=
  match c with
  | CCommitRS _ _ _ data => Forall (fun p => exists e, cmd_spec 0 p = Some e /\ e <= c_meta_RSPieceLength) data
  | _ => True
  end.

Lemma piece_spec_ge : forall p s e, piece_spec s p = Some e -> s <= e.
Proof.
  induction p as [|r p IH]; intros s e H; cbn in H; [inv H; lia|].
  destruct (rt_off r <? s) eqn:E; [discriminate|]. apply IH in H. lia.
Qed.

Lemma piece_spec_mono : forall p s s' e, s <= s' -> piece_spec s' p = Some e -> exists e', piece_spec s p = Some e' /\ e' <= e.
Proof.
  intros [|r p] s s' e Hs H; cbn in *.
  - inv H. exists s. split; auto.
  - destruct (rt_off r <? s') eqn:E; [discriminate|]. destruct (rt_off r <? s) eqn:E2; [lia|]. exists e. split; auto. lia.
Qed.

(* taking one extent out keeps the layout acceptable *)
Lemma piece_spec_remove : forall f p p' s e, remove_first f p = Some p' -> piece_spec s p = Some e ->
  exists e', piece_spec s p' = Some e' /\ e' <= e.
Proof.
  induction p as [|r p IH]; intros p' s e Hr H; cbn in Hr; [discriminate|].
  cbn in H. destruct (rt_off r <? s) eqn:E; [discriminate|].
  destruct (f r).
  - inv Hr. eapply piece_spec_mono; [|exact H]. lia.
  - destruct (remove_first f p) as [q|] eqn:Eq; [|discriminate]. inv Hr.
    destruct (IH _ _ _ eq_refl H) as (e' & H1 & H2). exists e'. cbn. rewrite E. auto.
Qed.

Lemma piece_wf_remove : forall f p p', remove_first f p = Some p' -> piece_wf p -> piece_wf p'.
Proof.
  intros f p p' Hr (e & H & L). destruct (piece_spec_remove _ _ _ _ _ Hr H) as (e' & H1 & H2). exists e'. split; auto. lia.
Qed.

(* what acceptance means: in range and pairwise disjoint, in list order *)
Lemma piece_spec_bounds : forall p s e, piece_spec s p = Some e ->
  Forall (fun r => s <= rt_off r /\ rt_off r + rt_len r <= e) p.
Proof.
  induction p as [|r p IH]; intros s e H; cbn in H; [constructor|].
  destruct (rt_off r <? s) eqn:E; [discriminate|]. apply N.ltb_ge in E. constructor.
  - split; [exact E|]. apply piece_spec_ge in H. exact H.
  - pose proof (IH _ _ H) as F. eapply Forall_impl; [|exact F]. intros a [A1 A2]. split; [|exact A2].
    eapply N.le_trans; [exact E|]. eapply N.le_trans; [|exact A1]. apply N.le_add_r.
Qed.

Lemma piece_spec_disjoint : forall p s e, piece_spec s p = Some e ->
  forall i j ri rj, (i < j)%nat -> nth_error p i = Some ri -> nth_error p j = Some rj -> rt_off ri + rt_len ri <= rt_off rj.
Proof.
  induction p as [|r p IH]; intros s e H i j ri rj Hij Hi Hj; [destruct i; discriminate|].
  cbn in H. destruct (rt_off r <? s) eqn:E; [discriminate|].
  destruct j; [lia|]. cbn in Hj. destruct i.
  - cbn in Hi. inv Hi. pose proof (piece_spec_bounds _ _ _ H) as B. exact (proj1 (Forall_nth _ _ _ _ B Hj)).
  - cbn in Hi. apply (IH _ _ H i j ri rj); auto. apply Nat.succ_lt_mono. exact Hij.
Qed.

(* ---------- how one command changes the chunk table ---------- *)

Definition lists (c : chunk) (bid idx : N) : Prop :=
  exists piece r, In piece (c_data c) /\ In r piece /\ rt_blob r = bid /\ rt_idx r = idx.

Definition chunk_wf (c : chunk) : Prop := Forall piece_wf (c_data c).

(* c' is c with some extents taken out, none of them belonging to a blob satisfying [keep] *)
Definition crel (keep : N -> Prop) (c c' : chunk) : Prop :=
  (chunk_wf c -> chunk_wf c') /\ (forall bid i, keep bid -> lists c bid i -> lists c' bid i).

Definition trel (keep : N -> Prop) (m m' : amap chunk) : Prop :=
  forall k, match aget k m, aget k m' with
            | Some c, Some c' => crel keep c c'
            | None, None => True
            | _, _ => False
            end.

Lemma crel_refl : forall keep c, crel keep c c.
Proof. intros. split; auto. Qed.

Lemma crel_trans : forall keep a b c, crel keep a b -> crel keep b c -> crel keep a c.
Proof. intros keep a b c [A1 A2] [B1 B2]. split; auto. Qed.

Lemma crel_weaken : forall (keep keep' : N -> Prop) a b, (forall x, keep' x -> keep x) -> crel keep a b -> crel keep' a b.
Proof. intros keep keep' a b H [A1 A2]. split; auto. Qed.

Lemma trel_refl : forall keep m, trel keep m m.
Proof. intros keep m k. destruct (aget k m); [apply crel_refl|exact I]. Qed.

Lemma trel_trans : forall keep a b c, trel keep a b -> trel keep b c -> trel keep a c.
Proof.
  intros keep a b c H1 H2 k. specialize (H1 k). specialize (H2 k).
  destruct (aget k a), (aget k b), (aget k c); try contradiction; auto. eapply crel_trans; eauto.
Qed.

Lemma trel_weaken : forall (keep keep' : N -> Prop) a b, (forall x, keep' x -> keep x) -> trel keep a b -> trel keep' a b.
Proof.
  intros keep keep' a b H T k. specialize (T k). destruct (aget k a), (aget k b); auto. eapply crel_weaken; eauto.
Qed.

Lemma remove_first_keeps : forall {A} (f : A -> bool) p p' x, remove_first f p = Some p' -> In x p -> f x = false -> In x p'.
Proof.
  induction p as [|y p IH]; intros p' x Hr Hin Hf; cbn in Hr; [discriminate|].
  destruct (f y) eqn:E.
  - inv Hr. destruct Hin as [->|Hin]; [congruence|exact Hin].
  - destruct (remove_first f p) as [q|] eqn:Eq; [|discriminate]. inv Hr.
    destruct Hin as [->|Hin]; [now left|right; eauto].
Qed.

Lemma remove_from_data_rel : forall X idx data data', remove_from_data X idx data = Some data' ->
  (Forall piece_wf data -> Forall piece_wf data') /\
  (forall piece r, In piece data -> In r piece -> rt_blob r <> X -> exists piece', In piece' data' /\ In r piece').
Proof.
  induction data as [|p data IH]; intros data' H; cbn in H; [discriminate|].
  destruct (remove_first (rt_is X idx) p) as [p'|] eqn:E.
  - inv H. split.
    + intros F. inversion F; subst. constructor; auto. eapply piece_wf_remove; eauto.
    + intros piece r Hp Hr Hne. destruct Hp as [->|Hp]; [|exists piece; split; [right|]; auto].
      exists p'. split; [now left|]. eapply remove_first_keeps; eauto.
      unfold rt_is. apply andb_false_iff. left. apply N.eqb_neq. exact Hne.
  - destruct (remove_from_data X idx data) as [d2|] eqn:E2; [|discriminate]. inv H.
    destruct (IH _ eq_refl) as [I1 I2]. split.
    + intros F. inversion F; subst. constructor; auto.
    + intros piece r Hp Hr Hne. destruct Hp as [->|Hp]; [exists piece; split; [now left|auto]|].
      destruct (I2 _ _ Hp Hr Hne) as (p2 & P1 & P2). exists p2. split; [right|]; auto.
Qed.

Lemma remove_tract_trel : forall chunks cid X idx, trel (fun b => b <> X) chunks (remove_tract_from_chunk chunks cid X idx).
Proof.
  intros chunks cid X idx. unfold remove_tract_from_chunk.
  destruct (aget (chunk_key cid) chunks) as [c0|] eqn:E; [|apply trel_refl].
  destruct (remove_from_data X idx (c_data c0)) as [data'|] eqn:Er; [|apply trel_refl].
  intros k. rewrite aget_aput. destruct (k =? chunk_key cid) eqn:Ek.
  - apply N.eqb_eq in Ek; subst. rewrite E. destruct (remove_from_data_rel _ _ _ _ Er) as [R1 R2]. split; cbn.
    + exact R1.
    + intros bid i Hk (piece & r & P1 & P2 & P3 & P4). destruct (R2 piece r P1 P2 ltac:(congruence)) as (p2 & Q1 & Q2).
      exists p2, r. cbn. auto.
  - destruct (aget k chunks); [apply crel_refl|exact I].
Qed.

Lemma remove_tracts_trel : forall ts chunks X n, trel (fun b => b <> X) chunks (remove_tracts_from_chunks chunks X n ts).
Proof.
  induction ts as [|t ts IH]; intros chunks X n; cbn [remove_tracts_from_chunks]; [apply trel_refl|].
  eapply trel_trans; [|apply IH].
  generalize (tract_pointers t). intros l. revert chunks. induction l as [|x l IHl]; intros chunks; cbn [fold_left]; [apply trel_refl|].
  eapply trel_trans; [|apply IHl]. destruct (cid_valid x); [apply remove_tract_trel|apply trel_refl].
Qed.

(* FinishDelete: the extents taken out belong to blobs that are gone afterwards *)
Lemma finish_fold_trel : forall ids d, trel (fun b => has b (d_blobs (fold_left finish_one ids d))) (d_chunks d) (d_chunks (fold_left finish_one ids d)).
Proof.
  induction ids as [|X ids IH]; intros d; cbn [fold_left]; [apply trel_refl|].
  eapply trel_trans; [|apply IH].
  assert (Hk : forall b, has b (d_blobs (fold_left finish_one ids (finish_one d X))) -> b <> X).
  { intros b Hb Heq. subst. unfold has in Hb. destruct (aget X (d_blobs (fold_left finish_one ids (finish_one d X)))) eqn:E; [|congruence].
    apply finish_fold_get in E. change (d_blobs (finish_one d X)) with (adel X (d_blobs d)) in E. rewrite aget_adel_eq in E. discriminate. }
  eapply trel_weaken; [exact Hk|]. unfold finish_one. cbn [set_blobs set_chunks d_chunks].
  destruct (aget X (d_blobs d)); [apply remove_tracts_trel|apply trel_refl].
Qed.

Definition mk_rt (e : enc_tract) : rsc_tract := mkRT (et_blob e) (et_idx e) (u32 (et_len e)) (u32 (et_off e)).

Lemma fold_chunks_same : forall {A} (f : dstate -> A -> dstate) l d,
  (forall d x, d_chunks (f d x) = d_chunks d) -> d_chunks (fold_left f l d) = d_chunks d.
Proof. induction l; intros; cbn; auto. rewrite IHl; auto. Qed.

Lemma put_blob_chunks : forall d id b d', put_blob d id b = Some d' -> d_chunks d' = d_chunks d.
Proof. unfold put_blob; intros. break_hyp H; [inv H; reflexivity|discriminate]. Qed.

Definition not_commit_or_same (c : cmd) (d d' : dstate) : Prop :=
  forall cid cls hosts data, c = CCommitRS cid cls hosts data -> d' = d.

Ltac nc := intros ? ? ? ? Hnc; first [discriminate Hnc | reflexivity].
Ltac same_chunks :=
  left; split; [|nc];
    first [ apply trel_refl
          | match goal with Hp : put_blob _ _ _ = Some _ |- _ => rewrite (put_blob_chunks _ _ _ _ Hp); apply trel_refl end ].

Lemma chunks_step : forall d c d' r, apply_mut d c = Some (d', r) ->
  (trel (fun b => has b (d_blobs d')) (d_chunks d) (d_chunks d') /\ not_commit_or_same c d d')
  \/ exists cid cls hosts data, c = CCommitRS cid cls hosts data /\ aget (chunk_key cid) (d_chunks d) = None /\
       d_chunks d' = aput (chunk_key cid) (mkChunk (map u32 hosts) (map (map mk_rt) data)) (d_chunks d)
       /\ commit_precheck d (concat data) = None
       /\ exists upd, commit_loop d cid cls [] (concat data) = CROk upd.
Proof.
  intros d c d' r H. destruct c; cbn [apply_mut] in H.
  - inv H. same_chunks.
  - inv H. left. split; [break_goal; apply trel_refl|nc].
  - unfold add_partition in H. destruct (aget p (d_parts d)); inv H; same_chunks.
  - inv H. left. split; [|nc]. rewrite fold_chunks_same; [apply trel_refl|]. intros d0 x. unfold add_partition. break_goal; reflexivity.
  - unfold do_create in H. repeat break_hyp H; inv H; same_chunks.
  - unfold do_extend in H. repeat break_hyp H; inv H; same_chunks.
  - unfold do_delete in H. repeat break_hyp H; inv H; same_chunks.
  - unfold do_undelete in H. repeat break_hyp H; inv H; same_chunks.
  - unfold do_finish in H. inv H. left. split; [apply finish_fold_trel|nc].
  - unfold do_setmeta in H. repeat break_hyp H; inv H; same_chunks.
  - unfold do_change in H. repeat break_hyp H; inv H; same_chunks.
  - inv H. left. split; [|nc]. rewrite fold_chunks_same; [apply trel_refl|]. intros d0 [b [m a]]. unfold update_one. break_goal; reflexivity.
  - unfold do_allocrs in H. repeat break_hyp H; inv H; same_chunks.
  - unfold do_commit in H. destruct (commit_precheck d (concat data)) eqn:Epre; [inv H; same_chunks|].
    unfold do_commit_unchecked in H. destruct (aget (chunk_key cid) (d_chunks d)) eqn:Ek; [inv H; same_chunks|].
    destruct (commit_loop d cid cls [] (concat data)) as [upd| |] eqn:El; [|inv H; same_chunks|discriminate].
    inv H. right. exists cid, cls, hosts, data. repeat split; eauto.
  - unfold do_rshosts in H. repeat break_hyp H; try (inv H; same_chunks; fail). inv H. left. split; [|nc].
    cbn [set_tsids set_chunks d_chunks]. intros k. rewrite aget_aput. destruct (k =? chunk_key cid) eqn:Ek.
    + apply N.eqb_eq in Ek; subst. match goal with Hc : aget (chunk_key cid) _ = Some _ |- _ => rewrite Hc end. split; auto.
    + destruct (aget k (d_chunks d)); [apply crel_refl|exact I].
  - unfold do_updatesc in H. repeat break_hyp H; inv H; same_chunks.
  - inv H. same_chunks.
  - inv H. same_chunks.
Qed.

(* ---------- clause (g) ---------- *)

Definition inv_g (d : dstate) : Prop :=
  (forall k c, aget k (d_chunks d) = Some c -> chunk_wf c) /\
  (forall id b m t cls cid, aget id (d_blobs d) = Some b -> nth_error (b_tracts b) m = Some t -> rs_get cls t = Some cid ->
     exists ch, aget (chunk_key cid) (d_chunks d) = Some ch /\ lists ch id (N.of_nat m)).

Lemma cmd_spec_ge : forall p s e, cmd_spec s p = Some e -> s <= e.
Proof.
  induction p as [|r p IH]; intros s e H; cbn in H; [inv H; lia|].
  destruct (et_off r <? s) eqn:E; [discriminate|]. apply IH in H. lia.
Qed.

Lemma u32_small : forall x, x < two32 -> u32 x = x.
Proof. intros. unfold u32. apply N.mod_small. auto. Qed.

(* the stored form of an accepted layout is the layout itself (no uint32 truncation) and is accepted *)
Lemma cmd_spec_stored : forall p s e, cmd_spec s p = Some e -> e < two32 -> piece_spec s (map mk_rt p) = Some e.
Proof.
  induction p as [|r p IH]; intros s e H He; cbn in *; [exact H|].
  destruct (et_off r <? s) eqn:E; [discriminate|].
  pose proof (cmd_spec_ge _ _ _ H) as G.
  rewrite (u32_small (et_off r)) by lia. rewrite (u32_small (et_len r)) by lia. rewrite E. apply IH; auto.
Qed.

Lemma layout_stored_wf : forall data,
  Forall (fun p => exists e, cmd_spec 0 p = Some e /\ e <= c_meta_RSPieceLength) data ->
  Forall piece_wf (map (map mk_rt) data).
Proof.
  induction data; intros F; cbn; constructor; inversion F; subst; auto.
  destruct H1 as (e & H & L). exists e. split; auto. apply cmd_spec_stored; auto.
  unfold c_meta_RSPieceLength, two32 in *. lia.
Qed.

Lemma in_concat_inv : forall {A} (x : A) l, In x (concat l) -> exists p, In p l /\ In x p.
Proof. intros A x l H. apply in_concat in H. destruct H as (p & H1 & H2). eauto. Qed.

Lemma inv_g_apply_mut : forall d c d' r, apply_mut d c = Some (d', r) -> blobs_ok d -> layout_sub c -> inv_g d -> inv_g d'.
Proof.
  intros d c d' r A Ok Hl [G2 G1].
  destruct (chunks_step _ _ _ _ A) as [[T Tc]|(cid & cls & hosts & data & -> & Knone & Ech & Epre & upd & Eloop)].
  - split.
    + intros k c' Hk. specialize (T k). rewrite Hk in T. destruct (aget k (d_chunks d)) as [c0|] eqn:E0; [|contradiction].
      apply T. eapply G2; eauto.
    + intros id b' m t' cls cid' Gb' Hn Hp.
      destruct (blob_step d c d' r id b' Ok A Gb') as [(b & Gb & R)|(_ & Tn & _)]; [|rewrite Tn in Hn; destruct m; discriminate].
      destruct R as (_ & _ & _ & _ & _ & Hnew & _ & Hprel).
      destruct (nth_error (b_tracts b) m) as [t|] eqn:Em.
      * destruct (Hprel m t t' Em Hn cls cid' Hp) as [(cid0 & P0 & Ek)|(cid & cls0 & hosts & data & e & Ec & _)].
        -- destruct (G1 id b m t cls cid0 Gb Em P0) as (ch & Gc & L). rewrite Ek.
           specialize (T (chunk_key cid0)). rewrite Gc in T.
           destruct (aget (chunk_key cid0) (d_chunks d')) as [ch'|]; [|contradiction].
           exists ch'. split; auto. apply T; auto. unfold has. congruence.
        -- (* a CommitRSChunk that left the chunk table alone failed: nothing changed *)
           pose proof (Tc _ _ _ _ Ec). subst d'. exact (G1 id b' m t' cls cid' Gb' Hn Hp).
      * destruct (Hnew m t' Em Hn) as (f0 & hs0 & h0 & _ & _ & _ & _ & Hnone). rewrite Hnone in Hp. discriminate.
  - cbn [layout_sub] in Hl. split.
    + intros k c' Hk. rewrite Ech, aget_aput in Hk. destruct (k =? chunk_key cid); [|eapply G2; eauto].
      inv Hk. unfold chunk_wf. cbn. apply layout_stored_wf. exact Hl.
    + intros id b' m t' cls0 cid' Gb' Hn Hp.
      destruct (blob_step d _ d' r id b' Ok A Gb') as [(b & Gb & R)|(_ & Tn & _)]; [|rewrite Tn in Hn; destruct m; discriminate].
      destruct R as (_ & _ & _ & _ & _ & Hnew & _ & Hprel).
      destruct (nth_error (b_tracts b) m) as [t|] eqn:Em.
      * rewrite Ech, aget_aput.
        destruct (Hprel m t t' Em Hn cls0 cid' Hp) as [(cid0 & P0 & Ek)|(cid1 & cls1 & hosts1 & data1 & e & Ec & Ek & Hin & Hb & Hm)].
        -- destruct (G1 id b m t cls0 cid0 Gb Em P0) as (ch & Gc & L). rewrite Ek.
           destruct (chunk_key cid0 =? chunk_key cid) eqn:E; [apply N.eqb_eq in E; congruence|]. eauto.
        -- injection Ec as E1 E2 E3 E4. subst cid1 cls1 hosts1 data1. rewrite Ek, N.eqb_refl. eexists; split; [reflexivity|].
           apply in_concat_inv in Hin. destruct Hin as (piece & Hp1 & Hp2).
           exists (map mk_rt piece), (mk_rt e). cbn. split; [apply in_map; exact Hp1|]. split; [apply in_map; exact Hp2|].
           split; [exact Hb|]. rewrite <- Hm. rewrite N2Nat.id. reflexivity.
      * destruct (Hnew m t' Em Hn) as (f0 & hs0 & h0 & Ec & _). discriminate.
Qed.

Lemma inv_g_step : forall d i c d' r, dapply d i c = Some (d', r) -> cinv d -> layout_sub c -> inv_g d -> inv_g d'.
Proof.
  intros d i c d' r H (P & Ia & Ok) Hl Ig.
  destruct (dapply_cases _ _ _ _ _ H) as [[(_ & E2 & E3 & _) _]|(A & _)].
  - destruct Ig as [G2 G1]. split; [rewrite E3; exact G2|]. rewrite E2, E3. exact G1.
  - eapply (inv_g_apply_mut (set_index d i)); eauto.
Qed.

Lemma inv_g_init : inv_g d_init.
Proof. split; intros; discriminate. Qed.

Lemma inv_g_run : forall cs d d' r, dapply_all d cs = Some (d', r) -> cinv d -> Forall (fun e => layout_sub (snd e)) cs ->
  inv_g d -> inv_g d'.
Proof.
  induction cs as [|[i c] cs IH]; intros d d' r H C Hs Ig; cbn [dapply_all] in H; [inv H; auto|].
  destruct (dapply d i c) as [[d1 res]|] eqn:E; [|discriminate].
  destruct (dapply_all d1 cs) as [[d2 rs]|] eqn:E2; [|discriminate]. inv H.
  inversion Hs; subst. eapply IH; eauto; [eapply dapply_cinv; eauto|eapply inv_g_step; eauto].
Qed.

(* what the invariant says about one pointer, spelled out: the chunk exists, one of its pieces lists the tract, that
   extent ends inside the piece, and it overlaps no other extent of the piece *)
Lemma inv_g_meaning : forall d id b m t cls cid, inv_g d ->
  aget id (d_blobs d) = Some b -> nth_error (b_tracts b) m = Some t -> rs_get cls t = Some cid ->
  exists ch piece r, aget (chunk_key cid) (d_chunks d) = Some ch /\ In piece (c_data ch) /\ In r piece /\
    rt_blob r = id /\ rt_idx r = N.of_nat m /\ rt_off r + rt_len r <= c_meta_RSPieceLength /\
    forall i j ri rj, (i < j)%nat -> nth_error piece i = Some ri -> nth_error piece j = Some rj ->
                      rt_off ri + rt_len ri <= rt_off rj.
Proof.
  intros d id b m t cls cid [G2 G1] Gb Hn Hp.
  destruct (G1 _ _ _ _ _ _ Gb Hn Hp) as (ch & Gc & piece & r & P1 & P2 & P3 & P4).
  pose proof (G2 _ _ Gc) as W. unfold chunk_wf in W. rewrite Forall_forall in W. destruct (W _ P1) as (e & Hs & He).
  exists ch, piece, r. repeat split; auto.
  - pose proof (piece_spec_bounds _ _ _ Hs) as B. rewrite Forall_forall in B. destruct (B _ P2). lia.
  - eapply piece_spec_disjoint; eauto.
Qed.
