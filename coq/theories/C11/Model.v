(* C11/Model.v — C11 uses the shared curator state machine of Meta/Curator.v; this file names the entry point
   of its correspondence run. *)
From Coq Require Import List ZArith.
From BLB Require Import Meta.Curator Meta.CuratorWire.
Definition run_case (ops : list (list Z)) : list (list Z) := curator_run_case ops.
