(* C05/Model.v — executable trace model of the C05 harness (go/C05).

   State = the Cluster model's state (replicas, durable tract records, terms, incarnations, tasks,
   clients: coq/theories/Cluster/Model.v, used read-only) + the C05 layer: the soup of in-flight GC
   instructions, blobs that are marked deleted (taken out of the Cluster state so that every Cluster
   rule sees "no such blob", kept here for undelete and for CheckForGarbage's GetBlobAll), RS chunks,
   the per-incarnation pendingPieces set, reconstruction tasks, the metadata-GC scan.

   Events with code < 40 are the Cluster harness's and are delegated to Cluster.Model.step.
   Codes 40..59: the integrated C05 events.  Codes >= 100: the compositional harnesses
   (CheckForGarbage on a generated durable state; Store.GCTracts on a generated replica set).
   The decisions themselves are GC.check_for_garbage and GC.gc_removals — the functions the theorems
   of Proto.v / Props.v are about. *)
From Coq Require Import List ZArith Bool Lia.
From BLB Require Import Gen.Consts C05.GC.
From BLB Require Cluster.Model.
Import ListNotations.
Open Scope Z_scope.



Record instr := { i_gen : Z; i_ts : Z; i_old : list (tid * Z); i_gone : list tid }.

Record rstask := { rt_op : Z; rt_gen : Z; rt_term : Z; rt_base : Z;
                   rt_dst : list (Z * Z);     (* (piece index, destination server) *)
                   rt_hosts : list Z;         (* the chunk's hosts as read at the start *)
                   rt_exec : bool }.

Record xstate := {
  x_cl : Cluster.Model.state;
  x_soup : list instr;
  x_del : list (Z * (Z * Z * Z));             (* marked deleted: blob -> (repl, tracts, time of deletion) *)
  x_deltr : list (tid * (Z * list Z));        (* their tract records *)
  x_chunks : list (Z * list Z);
  x_pend : list (Z * Z);                      (* (incarnation, piece id) *)
  x_rst : list rstask;
  x_clock : Z;
  x_scan : option (Z * list Z);               (* cutoff, selected blobs *)
  x_nblobs : Z;                               (* compositional: blobs created so far *)
  x_dead : list Z                             (* ghost: blobs that were finally deleted (never read by any step) *)
}.

Definition init_x : xstate :=
  {| x_cl := Cluster.Model.init_state; x_soup := []; x_del := []; x_deltr := []; x_chunks := []; x_pend := [];
     x_rst := []; x_clock := 1; x_scan := None; x_nblobs := 0; x_dead := [] |}.

Definition upd (x : xstate) cl soup del deltr chunks pend rst scan nb : xstate :=
  {| x_cl := cl; x_soup := soup; x_del := del; x_deltr := deltr; x_chunks := chunks; x_pend := pend;
     x_rst := rst; x_clock := x_clock x + 1; x_scan := scan; x_nblobs := nb; x_dead := x_dead x |}.
Definition add_dead (x : xstate) (l : list Z) : xstate :=
  {| x_cl := x_cl x; x_soup := x_soup x; x_del := x_del x; x_deltr := x_deltr x; x_chunks := x_chunks x; x_pend := x_pend x;
     x_rst := x_rst x; x_clock := x_clock x; x_scan := x_scan x; x_nblobs := x_nblobs x; x_dead := l ++ x_dead x |}.
Definition set_cl (x : xstate) cl := upd x cl (x_soup x) (x_del x) (x_deltr x) (x_chunks x) (x_pend x) (x_rst x) (x_scan x) (x_nblobs x).

(* the durable state as CheckForGarbage reads it *)
Definition proj (x : xstate) : dur :=
  {| d_blobs := map (fun e => (fst e, snd (snd e))) (Cluster.Model.s_blobs (x_cl x)) ++
                map (fun e => (fst e, snd (fst (snd e)))) (x_del x);
     d_tracts := Cluster.Model.s_dtr (x_cl x) ++ x_deltr x;
     d_chunks := x_chunks x |}.

Definition ver_at (cl : Cluster.Model.state) (ts : Z) (t : tid) : option Z :=
  match Cluster.Model.rget (Cluster.Model.s_reps cl) (ts, t) with Some r => Some (Cluster.Model.r_ver r) | None => None end.

Definition remove_all (cl : Cluster.Model.state) (ts : Z) (l : list tid) : Cluster.Model.state :=
  Cluster.Model.set_reps cl (fold_left (fun m t => Cluster.Model.rdel m (ts, t)) l (Cluster.Model.s_reps cl)).

Definition put_copy (cl : Cluster.Model.state) (ts : Z) (t : tid) (v : Z) : Cluster.Model.state :=
  Cluster.Model.set_reps cl (Cluster.Model.rset (Cluster.Model.s_reps cl) (ts, t) {| Cluster.Model.r_ver := v; Cluster.Model.r_app := [] |}).

(* ------------------------------------------------------------------ wire helpers *)
Definition take (n : Z) (l : list Z) : list Z * list Z := (firstn (Z.to_nat n) l, skipn (Z.to_nat n) l).

Fixpoint pairs (l : list Z) : list (Z * Z) :=
  match l with a :: b :: r => (a, b) :: pairs r | _ => [] end.
Fixpoint triples (l : list Z) : list (Z * Z * Z) :=
  match l with a :: b :: c :: r => (a, b, c) :: triples r | _ => [] end.
Fixpoint quads (l : list Z) : list (Z * Z * Z * Z) :=
  match l with a :: b :: c :: d :: r => (a, b, c, d) :: quads r | _ => [] end.

Definition enc_instr (old : list (tid * Z)) (gone : list tid) : list Z :=
  Z.of_nat (length old) :: flat_map (fun o => [fst (fst o); snd (fst o); snd o]) old ++
  Z.of_nat (length gone) :: flat_map (fun t => [fst t; snd t]) gone.

Definition b2z (b : bool) : Z := if b then 1 else 0.

(* ------------------------------------------------------------------ integrated events *)
Definition pending_of (x : xstate) (gen : Z) : list tid :=
  map (fun e => (-2, snd e)) (filter (fun e => fst e =? gen) (x_pend x)).

(* 40: a tract report reaches the current leader incarnation: heartbeat (address learning), then one
   iteration of gcTractserverContents *)
Definition step_report (x : xstate) (ts : Z) (ids : list tid) : xstate * list Z :=
  let cl1 := fst (Cluster.Model.step (x_cl x) [11; ts]) in
  let gen := Cluster.Model.s_gen cl1 in
  let x1 := set_cl x cl1 in
  let '(old, gone) := check_for_garbage (proj x1) (pending_of x1 gen) ts ids in
  match old, gone with
  | [], [] => (x1, [0; 0])
  | _, _ =>
      (upd x1 cl1 (x_soup x1 ++ [{| i_gen := gen; i_ts := ts; i_old := old; i_gone := gone |}])
           (x_del x1) (x_deltr x1) (x_chunks x1) (x_pend x1) (x_rst x1) (x_scan x1) (x_nblobs x1),
       enc_instr old gone)
  end.

(* 41: instruction number n executes at its tractserver (again) *)
Definition step_deliver (x : xstate) (n fault : Z) : xstate * list Z :=
  match nth_error (x_soup x) (Z.to_nat n) with
  | None => (x, [-2])
  | Some i =>
      let cl := x_cl x in
      let old := map (fun o => (o, negb (fault =? 0))) (i_old i) in
      let rm := gc_removals (ver_at cl (i_ts i)) old (i_gone i) in
      let cl1 := remove_all cl (i_ts i) rm in
      let named := map fst (i_old i) ++ i_gone i in
      (set_cl x cl1,
       Z.of_nat (length named) :: map (fun t => match ver_at cl1 (i_ts i) t with Some _ => 1 | None => 0 end) named)
  end.

(* 41: instruction number n reaches tractserver recv (the request carries the id it was computed for, i_ts):
   TSCtlHandler.GCTract refuses a request stamped with another id (ErrWrongTractserver, nothing happens) *)
Definition step_deliver_to (x : xstate) (n fault recv : Z) : xstate * list Z :=
  match nth_error (x_soup x) (Z.to_nat n) with
  | None => (x, [-2])
  | Some i =>
      if recv =? i_ts i then let '(x', o) := step_deliver x n fault in (x', c05_NoError :: o)
      else
        let named := map fst (i_old i) ++ i_gone i in
        (set_cl x (x_cl x),
         c05_ErrWrongTractserver :: Z.of_nat (length named) ::
           map (fun t => match ver_at (x_cl x) recv t with Some _ => 1 | None => 0 end) named)
  end.

Definition blob_tracts (m : list (tid * (Z * list Z))) (b : Z) : list (tid * (Z * list Z)) :=
  filter (fun e => fst (fst e) =? b) m.
Definition drop_blob_tracts (m : list (tid * (Z * list Z))) (b : Z) : list (tid * (Z * list Z)) :=
  filter (fun e => negb (fst (fst e) =? b)) m.

(* 42: DeleteBlob (Txn.DeleteBlob: GetBlob, mark) *)
Definition step_delete (x : xstate) (b : Z) : xstate * list Z :=
  let cl := x_cl x in
  match Cluster.Model.zget (Cluster.Model.s_blobs cl) b with
  | None => (set_cl x cl, [c05_ErrNoSuchBlob])
  | Some (repl, nt) =>
      let cl1 := Cluster.Model.set_dtr (Cluster.Model.set_blobs cl (Cluster.Model.zdel (Cluster.Model.s_blobs cl) b)) (drop_blob_tracts (Cluster.Model.s_dtr cl) b) in
      (upd x cl1 (x_soup x) ((b, (repl, nt, x_clock x)) :: x_del x) (blob_tracts (Cluster.Model.s_dtr cl) b ++ x_deltr x)
           (x_chunks x) (x_pend x) (x_rst x) (x_scan x) (x_nblobs x), [c05_NoError])
  end.

(* 43: UndeleteBlob (Txn.UndeleteBlob: GetBlobAll, Deleted = 0) *)
Definition step_undelete (x : xstate) (b : Z) : xstate * list Z :=
  let cl := x_cl x in
  match aget (x_del x) b with
  | Some (repl, nt, _) =>
      let cl1 := Cluster.Model.set_dtr (Cluster.Model.set_blobs cl (Cluster.Model.zset (Cluster.Model.s_blobs cl) b (repl, nt))) (blob_tracts (x_deltr x) b ++ Cluster.Model.s_dtr cl) in
      (upd x cl1 (x_soup x) (adel (x_del x) b) (drop_blob_tracts (x_deltr x) b)
           (x_chunks x) (x_pend x) (x_rst x) (x_scan x) (x_nblobs x), [c05_NoError])
  | None =>
      match Cluster.Model.zget (Cluster.Model.s_blobs cl) b with
      | Some _ => (set_cl x cl, [c05_NoError])
      | None => (set_cl x cl, [c05_ErrNoSuchBlob])
      end
  end.

(* 44: the scan of gcMetadataLoop (MetadataUndeleteTime = 0): every blob deleted before now *)
Definition step_scan (x : xstate) : xstate * list Z :=
  let sel := map fst (filter (fun e => snd (snd e) <? x_clock x) (x_del x)) in
  (upd x (x_cl x) (x_soup x) (x_del x) (x_deltr x) (x_chunks x) (x_pend x) (x_rst x) (Some (x_clock x, sel)) (x_nblobs x), []).

(* 45: FinishDeleteBefore(selected, cutoff) is applied: each blob is checked again (CanFinishDelete) *)
Definition blob_exists (x : xstate) (b : Z) : bool :=
  match Cluster.Model.zget (Cluster.Model.s_blobs (x_cl x)) b with Some _ => true | None => match aget (x_del x) b with Some _ => true | None => false end end.

Definition step_finish (x : xstate) (n : Z) : xstate * list Z :=
  let x1 :=
    match x_scan x with
    | None => x
    | Some (cutoff, sel) =>
        let dead := filter (fun b => match aget (x_del x) b with Some (_, _, tm) => tm <? cutoff | None => false end) sel in
        add_dead (upd x (x_cl x) (x_soup x) (filter (fun e => negb (zmem (fst e) dead)) (x_del x))
            (filter (fun e => negb (zmem (fst (fst e)) dead)) (x_deltr x))
            (x_chunks x) (x_pend x) (x_rst x) None (x_nblobs x)) dead
    end in
  (x1, map (fun i => b2z (blob_exists x1 (Z.of_nat i))) (seq 0 (Z.to_nat n))).

(* 46: an RS(6,3) chunk is committed and its pieces stored on its hosts *)
Definition step_rs_setup (x : xstate) (base : Z) (hosts : list Z) : xstate * list Z :=
  match aget (x_chunks x) base with
  | Some _ => (set_cl x (x_cl x), [c05_ErrConflictingState])
  | None =>
      let cl1 := fst (fold_left (fun '(cl, i) h => (put_copy cl h (-2, base + i) c05_RSChunkVersion, i + 1)) hosts (x_cl x, 0)) in
      (upd x cl1 (x_soup x) (x_del x) (x_deltr x) ((base, hosts) :: x_chunks x) (x_pend x) (x_rst x) (x_scan x) (x_nblobs x),
       [c05_NoError])
  end.

Fixpoint index_where (f : Z -> bool) (l : list Z) (i : Z) : list Z :=
  match l with [] => [] | h :: r => if f h then i :: index_where f r (i + 1) else index_where f r (i + 1) end.

Fixpoint distinct (l : list Z) : bool :=
  match l with [] => true | a :: r => negb (zmem a r) && distinct r end.
Definition subset (a b : list Z) : bool := forallb (fun v => zmem v b) a.
Fixpoint list_eqb (a b : list Z) : bool :=
  match a, b with [], [] => true | p :: a', q :: b' => (p =? q) && list_eqb a' b' | _, _ => false end.

(* 47: reconstructChunk up to its RSEncode call; the placement (dst) is an oracle input, validated *)
Definition step_rs_start (x : xstate) (op base : Z) (bad : list Z) (dst : list (Z * Z)) : xstate * list Z :=
  let cl := x_cl x in
  let gen := Cluster.Model.s_gen cl in
  let known := Cluster.Model.known_of cl gen in
  let fail c := (set_cl x cl, [0; c]) in
  match aget (x_chunks x) base with
  | None => fail c05_ErrInvalidArgument
  | Some hosts =>
      let n := 6 in
      let ok := filter (fun h => negb (zmem h bad)) hosts in
      let dstidx := index_where (fun h => zmem h bad) hosts 0 in
      if Z.of_nat (length ok) <? n then fail c05_ErrAllocHost
      else if Z.of_nat (length dstidx) =? 0 then fail c05_ErrInvalidArgument
      else if negb (subset (firstn (Z.to_nat n) ok) known) then fail c05_ErrHostNotExist
      else if negb (subset ok known && subset bad known) then fail c05_ErrAllocHost
      else
        let cands := filter (fun h => negb (zmem h ok) && negb (zmem h bad)) known in
        if Z.of_nat (length cands) <? Z.of_nat (length dstidx) then fail c05_ErrAllocHost
        else if negb (list_eqb (map fst dst) dstidx && subset (map snd dst) cands && distinct (map snd dst))
        then (set_cl x cl, [-7])     (* not an allowed placement *)
        else
          let t := {| rt_op := op; rt_gen := gen; rt_term := Cluster.Model.s_term cl; rt_base := base; rt_dst := dst;
                      rt_hosts := hosts; rt_exec := false |} in
          (upd x cl (x_soup x) (x_del x) (x_deltr x) (x_chunks x)
               (map (fun i => (gen, base + Z.of_nat i)) (seq 0 (length hosts)) ++ x_pend x)
               (x_rst x ++ [t]) (x_scan x) (x_nblobs x),
           [1; Z.of_nat (length dst)] ++ flat_map (fun d => [fst d; snd d]) dst)
  end.

Fixpoint find_rst (l : list rstask) (op : Z) : option rstask :=
  match l with [] => None | t :: r => if rt_op t =? op then Some t else find_rst r op end.
Definition del_rst (l : list rstask) (op : Z) : list rstask := filter (fun t => negb (rt_op t =? op)) l.

(* 48: the RSEncode executes: every destination stores its piece *)
Definition step_rs_exec (x : xstate) (op : Z) : xstate * list Z :=
  match find_rst (x_rst x) op with
  | None => (x, [-2])
  | Some t =>
      let cl1 := fold_left (fun cl d => put_copy cl (snd d) (-2, rt_base t + fst d) c05_RSChunkVersion) (rt_dst t) (x_cl x) in
      let t' := {| rt_op := rt_op t; rt_gen := rt_gen t; rt_term := rt_term t; rt_base := rt_base t; rt_dst := rt_dst t;
                   rt_hosts := rt_hosts t; rt_exec := true |} in
      (upd x cl1 (x_soup x) (x_del x) (x_deltr x) (x_chunks x) (x_pend x)
           (map (fun u => if rt_op u =? op then t' else u) (x_rst x)) (x_scan x) (x_nblobs x),
       Z.of_nat (length (rt_dst t)) :: map (fun _ => c05_NoError) (rt_dst t))
  end.

Fixpoint set_nth (l : list Z) (i : Z) (v : Z) : list Z :=
  match l with [] => [] | h :: r => if i =? 0 then v :: r else h :: set_nth r (i - 1) v end.

Definition aset {A} (m : list (Z * A)) (k : Z) (v : A) : list (Z * A) :=
  map (fun e => if fst e =? k then (k, v) else e) m.

(* 49: the reply (or an RPC error) reaches reconstructChunk: UpdateRSHosts under the term read at the
   start, then the deferred unmarkPendingPieces *)
Definition step_rs_reply (x : xstate) (op lose : Z) : xstate * list Z :=
  match find_rst (x_rst x) op with
  | None => (x, [-2])
  | Some t =>
      let pend' := filter (fun e => negb ((fst e =? rt_gen t) && (rt_base t <=? snd e) && (snd e <? rt_base t + Z.of_nat (length (rt_hosts t))))) (x_pend x) in
      let cur := match aget (x_chunks x) (rt_base t) with Some h => h | None => [] end in
      let enc c hs := c :: Z.of_nat (length hs) :: hs in
      if negb (lose =? 0) then
        (upd x (x_cl x) (x_soup x) (x_del x) (x_deltr x) (x_chunks x) pend' (del_rst (x_rst x) op) (x_scan x) (x_nblobs x),
         enc c05_ErrRPC cur)
      else if negb (rt_term t =? Cluster.Model.s_term (x_cl x)) then
        (upd x (x_cl x) (x_soup x) (x_del x) (x_deltr x) (x_chunks x) pend' (del_rst (x_rst x) op) (x_scan x) (x_nblobs x),
         enc c05_ErrLeaderContinuityBroken cur)
      else
        let nh := fold_left (fun hs d => set_nth hs (fst d) (snd d)) (rt_dst t) (rt_hosts t) in
        (upd x (x_cl x) (x_soup x) (x_del x) (x_deltr x) (aset (x_chunks x) (rt_base t) nh) pend' (del_rst (x_rst x) op) (x_scan x) (x_nblobs x),
         enc c05_NoError nh)
  end.

(* 50 / 51: a stray copy appears on a server (leftover of a failed create / of an aborted encode) *)
Definition step_stray (x : xstate) (ts : Z) (t : tid) (v : Z) : xstate * list Z :=
  (set_cl x (put_copy (x_cl x) ts t v), [c05_NoError]).

(* ------------------------------------------------------------------ compositional: durable commands *)
Definition c_create (x : xstate) (repl : Z) : xstate * list Z :=
  let b := x_nblobs x in
  let cl := x_cl x in
  (upd x (Cluster.Model.set_blobs cl (Cluster.Model.zset (Cluster.Model.s_blobs cl) b (repl, 0))) (x_soup x) (x_del x) (x_deltr x) (x_chunks x) (x_pend x) (x_rst x) (x_scan x) (b + 1),
   [b]).

Fixpoint host_lists (n : nat) (l : list Z) : list (list Z) :=
  match n with
  | O => []
  | S n' => match l with nh :: r => let '(hs, r') := take nh r in hs :: host_lists n' r' | [] => [] end
  end.

(* ExtendBlobCommand.apply *)
Definition c_extend (x : xstate) (b first : Z) (hl : list (list Z)) : xstate * list Z :=
  let cl := x_cl x in
  match Cluster.Model.zget (Cluster.Model.s_blobs cl) b with
  | None => (set_cl x cl, [c05_ErrNoSuchBlob])
  | Some (repl, nt) =>
      if negb (first =? nt) then (set_cl x cl, [c05_ErrExtendConflict])
      else if negb (forallb (fun hs => Z.of_nat (length hs) =? repl) hl) then (set_cl x cl, [c05_ErrInvalidArgument])
      else
        let dtr := fst (fold_left (fun '(m, i) hs => (Cluster.Model.tset m (b, i) (1, hs), i + 1)) hl (Cluster.Model.s_dtr cl, nt)) in
        (set_cl x (Cluster.Model.set_dtr (Cluster.Model.set_blobs cl (Cluster.Model.zset (Cluster.Model.s_blobs cl) b (repl, nt + Z.of_nat (length hl)))) dtr), [c05_NoError])
  end.

(* Txn.ChangeTract *)
Definition c_change (x : xstate) (b i ver : Z) (hs : list Z) : xstate * list Z :=
  let cl := x_cl x in
  match Cluster.Model.zget (Cluster.Model.s_blobs cl) b with
  | None => (set_cl x cl, [c05_ErrNoSuchBlob])
  | Some (repl, nt) =>
      if nt <? i then (set_cl x cl, [c05_ErrNoSuchTract])
      else match Cluster.Model.tget (Cluster.Model.s_dtr cl) (b, i) with
           | None => (set_cl x cl, [c05_ErrNoSuchTract])
           | Some (dv, old) =>
               if negb (Z.of_nat (length old) =? Z.of_nat (length hs)) then (set_cl x cl, [c05_ErrInvalidArgument])
               else if negb (dv + 1 =? ver) then (set_cl x cl, [c05_ErrConflictingState])
               else (set_cl x (Cluster.Model.set_dtr cl (Cluster.Model.tset (Cluster.Model.s_dtr cl) (b, i) (ver, hs))), [c05_NoError])
           end
  end.

(* FinishDelete(blobs) = FinishDeleteBefore(blobs, 0): no re-check *)
Definition c_finish (x : xstate) (bs : list Z) : xstate * list Z :=
  let cl := x_cl x in
  let cl1 := Cluster.Model.set_dtr (Cluster.Model.set_blobs cl (filter (fun e => negb (zmem (fst e) bs)) (Cluster.Model.s_blobs cl)))
                        (filter (fun e => negb (zmem (fst (fst e)) bs)) (Cluster.Model.s_dtr cl)) in
  (upd x cl1 (x_soup x) (filter (fun e => negb (zmem (fst e) bs)) (x_del x))
       (filter (fun e => negb (zmem (fst (fst e)) bs)) (x_deltr x)) (x_chunks x) (x_pend x) (x_rst x) (x_scan x) (x_nblobs x),
   [c05_NoError]).

Definition c_rs_commit (x : xstate) (base : Z) (hs : list Z) : xstate * list Z :=
  match aget (x_chunks x) base with
  | Some _ => (set_cl x (x_cl x), [c05_ErrConflictingState])
  | None => (upd x (x_cl x) (x_soup x) (x_del x) (x_deltr x) ((base, hs) :: x_chunks x) (x_pend x) (x_rst x) (x_scan x) (x_nblobs x), [c05_NoError])
  end.

Definition c_rs_update (x : xstate) (base : Z) (hs : list Z) : xstate * list Z :=
  match aget (x_chunks x) base with
  | None => (set_cl x (x_cl x), [c05_ErrInvalidArgument])
  | Some old => if negb (Z.of_nat (length old) =? Z.of_nat (length hs)) then (set_cl x (x_cl x), [c05_ErrInvalidArgument])
                else (upd x (x_cl x) (x_soup x) (x_del x) (x_deltr x) (aset (x_chunks x) base hs) (x_pend x) (x_rst x) (x_scan x) (x_nblobs x), [c05_NoError])
  end.

Definition c_check (x : xstate) (tsid : Z) (ids : list tid) : xstate * list Z :=
  let '(old, gone) := check_for_garbage (proj x) [] tsid ids in (set_cl x (x_cl x), enc_instr old gone).

(* compositional Store: a copy is created (version 1) and bumped to the wanted version *)
Definition s_put (x : xstate) (t : tid) (ver : Z) : xstate * list Z :=
  let cl := x_cl x in
  if is_rs t then (set_cl x (put_copy cl 1 t c05_RSChunkVersion), [c05_RSChunkVersion])
  else
    let cur := match ver_at cl 1 t with Some v => v | None => 1 end in
    let nv := Z.max cur ver in
    let cl1 := match Cluster.Model.rget (Cluster.Model.s_reps cl) (1, t) with
               | Some r => Cluster.Model.set_reps cl (Cluster.Model.rset (Cluster.Model.s_reps cl) (1, t) {| Cluster.Model.r_ver := nv; Cluster.Model.r_app := Cluster.Model.r_app r |})
               | None => put_copy cl 1 t nv
               end in
    (set_cl x cl1, [nv]).

(* TSCtlHandler.GCTract: a request stamped with another tractserver id is refused (ErrWrongTractserver) and has no effect *)
Definition s_gc (x : xstate) (tsid : Z) (old : list (tid * Z * bool)) (gone : list tid) : xstate * list Z :=
  let cl := x_cl x in
  let ok := tsid =? 1 in
  let cl1 := if ok then remove_all cl 1 (gc_removals (ver_at cl 1) old gone) else cl in
  let named := map (fun o => fst (fst o)) old ++ gone in
  (set_cl x cl1, (if ok then c05_NoError else c05_ErrWrongTractserver) ::
                 flat_map (fun t => match ver_at cl1 1 t with Some v => [1; v] | None => [0] end) named).

(* ------------------------------------------------------------------ one event *)
Definition step (x : xstate) (ev : list Z) : xstate * list Z :=
  match ev with
  | [] => (x, [-1])
  | c :: a =>
      if c <? 40 then let '(cl, o) := Cluster.Model.step (x_cl x) ev in (set_cl x cl, o)
      else if c =? 40 then
        match a with
        | _ :: ts :: n :: r => step_report x ts (firstn (Z.to_nat n) (pairs r))
        | _ => (x, [-1])
        end
      else if c =? 41 then match a with [n; f; r] => step_deliver_to x n f r | _ => (x, [-1]) end
      else if c =? 42 then match a with [b] => step_delete x b | _ => (x, [-1]) end
      else if c =? 43 then match a with [b] => step_undelete x b | _ => (x, [-1]) end
      else if c =? 44 then step_scan x
      else if c =? 45 then match a with [n] => step_finish x n | _ => (x, [-1]) end
      else if c =? 46 then match a with base :: nh :: r => step_rs_setup x base (firstn (Z.to_nat nh) r) | _ => (x, [-1]) end
      else if c =? 47 then
        match a with
        | op :: _ :: base :: nbad :: r =>
            let '(bad, r1) := take nbad r in
            match r1 with
            | nd :: r2 => step_rs_start x op base bad (firstn (Z.to_nat nd) (pairs r2))
            | [] => (x, [-1])
            end
        | _ => (x, [-1])
        end
      else if c =? 48 then match a with [op] => step_rs_exec x op | _ => (x, [-1]) end
      else if c =? 49 then match a with [op; lose] => step_rs_reply x op lose | _ => (x, [-1]) end
      else if c =? 50 then match a with [ts; b; i] => step_stray x ts (b, i) 1 | _ => (x, [-1]) end
      else if c =? 51 then match a with [ts; p] => step_stray x ts (-2, p) c05_RSChunkVersion | _ => (x, [-1]) end
      else if c =? 100 then match a with [repl] => c_create x repl | _ => (x, [-1]) end
      else if c =? 101 then match a with b :: first :: n :: r => c_extend x b first (host_lists (Z.to_nat n) r) | _ => (x, [-1]) end
      else if c =? 102 then match a with b :: i :: ver :: nh :: r => c_change x b i ver (firstn (Z.to_nat nh) r) | _ => (x, [-1]) end
      else if c =? 103 then match a with [b] => step_delete x b | _ => (x, [-1]) end
      else if c =? 104 then match a with [b] => step_undelete x b | _ => (x, [-1]) end
      else if c =? 105 then match a with n :: r => c_finish x (firstn (Z.to_nat n) r) | _ => (x, [-1]) end
      else if c =? 106 then match a with base :: nh :: r => c_rs_commit x base (firstn (Z.to_nat nh) r) | _ => (x, [-1]) end
      else if c =? 107 then match a with base :: nh :: r => c_rs_update x base (firstn (Z.to_nat nh) r) | _ => (x, [-1]) end
      else if c =? 108 then match a with tsid :: n :: r => c_check x tsid (firstn (Z.to_nat n) (pairs r)) | _ => (x, [-1]) end
      else if c =? 110 then match a with [b; i; ver] => s_put x (b, i) ver | _ => (x, [-1]) end
      else if c =? 112 then
        match a with
        | tsid :: no :: r =>
            let '(o, r1) := take (4 * no) r in
            match r1 with
            | ng :: r2 =>
                s_gc x tsid (map (fun q => let '(b, i, v, f) := q in ((b, i), v, negb (f =? 0))) (quads o))
                     (firstn (Z.to_nat ng) (pairs r2))
            | [] => (x, [-1])
            end
        | _ => (x, [-1])
        end
      else (x, [-1])
  end.

Fixpoint run (x : xstate) (evs : list (list Z)) : list (list Z) :=
  match evs with
  | [] => []
  | ev :: r => let '(x', o) := step x ev in o :: run x' r
  end.

Definition run_case (ops : list (list Z)) : list (list Z) := run init_x ops.
