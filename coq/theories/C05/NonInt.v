(* C05/NonInt.v — non-interference of Cluster.Model.step with respect to hidden blobs.

   projd hid st = st without the blob and tract records of the blobs selected by hid.  If no curator task of st
   names a hidden blob (T1) and the event names none where it matters (ev_ok: blob creation, task start, executed
   RPC, probe), then the event commutes with the projection, produces the same observation, leaves the hidden
   records untouched and keeps T1:

       step (projd hid st) ev = (projd hid (fst (step st ev)), snd (step st ev)).                       *)
From Coq Require Import List ZArith Bool Lia.
From BLB Require Import Gen.Consts Cluster.Model Cluster.Proofs Cluster.Frame Cluster.Inv Cluster.Window Cluster.Sched.
Import ListNotations.
Open Scope Z_scope.

Definition projd (hid : Z -> bool) (st : state) : state :=
  set_dtr (set_blobs st (filter (fun e => negb (hid (fst e))) (s_blobs st)))
          (filter (fun e => negb (hid (fst (fst e)))) (s_dtr st)).

Definition hkeep (hid : Z -> bool) (st st' : state) : Prop :=
  (forall b, hid b = true -> zget (s_blobs st') b = zget (s_blobs st) b) /\
  (forall t, hid (fst t) = true -> tget (s_dtr st') t = tget (s_dtr st) t).

Definition T1 (hid : Z -> bool) (st : state) : Prop := forall t, In t (s_tasks st) -> hid (t_blob t) = false.

(* s1 is what the function made of the projected state, s2 what it made of the full state *)
Definition NI (hid : Z -> bool) (st s1 s2 : state) : Prop := s1 = projd hid s2 /\ hkeep hid st s2 /\ T1 hid s2.

Lemma hkeep_refl : forall h st, hkeep h st st.
Proof. intros; split; intros; reflexivity. Qed.
Lemma hkeep_trans : forall h a b c, hkeep h a b -> hkeep h b c -> hkeep h a c.
Proof. intros h a b c [A1 A2] [B1 B2]. split; intros; [rewrite B1, A1 | rewrite B2, A2]; auto. Qed.
Lemma hkeep_same : forall h st st', s_blobs st' = s_blobs st -> s_dtr st' = s_dtr st -> hkeep h st st'.
Proof. intros h st st' B D. split; intros; [rewrite B | rewrite D]; reflexivity. Qed.

Lemma NI_chain : forall h st s1 s2 (F : state -> state),
  NI h st s1 s2 -> (forall s, T1 h s -> NI h s (F (projd h s)) (F s)) -> NI h st (F s1) (F s2).
Proof.
  intros h st s1 s2 F (E & K & T) HF. subst s1. destruct (HF s2 T) as (E2 & K2 & T2). split; [exact E2|]. split; [eapply hkeep_trans; eauto | exact T2].
Qed.

Lemma NI_same : forall h st s2, s_blobs s2 = s_blobs st -> s_dtr s2 = s_dtr st -> T1 h s2 -> forall s1, s1 = projd h s2 -> NI h st s1 s2.
Proof. intros h st s2 B D T s1 E. split; [exact E|]. split; [now apply hkeep_same | exact T]. Qed.

(* ------------------------------------------------------------------ lookups / updates under the projection *)
Lemma filt_ext : forall A (f g : A -> bool) l, (forall a, f a = g a) -> filter f l = filter g l.
Proof. intros A f g l H. induction l as [|a l IH]; cbn; auto. rewrite H, IH. reflexivity. Qed.
Lemma filt_filt : forall A (f g : A -> bool) l, filter f (filter g l) = filter (fun a => g a && f a) l.
Proof. intros A f g l. induction l as [|a l IH]; cbn; auto. destruct (g a); cbn; [destruct (f a)|]; rewrite IH; reflexivity. Qed.

Lemma zget_filter : forall A (q : Z -> bool) (l : list (Z * A)) k,
  zget (filter (fun e => q (fst e)) l) k = if q k then zget l k else None.
Proof.
  intros A q l k. induction l as [|[k' v] l IH]; cbn; [destruct (q k); reflexivity|].
  destruct (k =? k') eqn:E.
  - apply Z.eqb_eq in E. subst k'. destruct (q k) eqn:Q; cbn; [rewrite Z.eqb_refl; reflexivity|]. rewrite IH. reflexivity.
  - destruct (q k'); cbn; [rewrite E|]; exact IH.
Qed.
Lemma tget_filter : forall A (q : Z -> bool) (l : list (tkt * A)) t,
  tget (filter (fun e => q (fst (fst e))) l) t = if q (fst t) then tget l t else None.
Proof.
  intros A q l t. induction l as [|[k' v] l IH]; cbn; [destruct (q (fst t)); reflexivity|].
  destruct (tk_eqb t k') eqn:E.
  - apply tk_eqb_eq in E. subst k'. destruct (q (fst t)) eqn:Q; cbn; [rewrite tk_eqb_refl; reflexivity|]. rewrite IH. reflexivity.
  - destruct (q (fst k')); cbn; [rewrite E|]; exact IH.
Qed.

Lemma zget_projd : forall hid st b, zget (s_blobs (projd hid st)) b = if hid b then None else zget (s_blobs st) b.
Proof. intros. unfold projd. cbn [s_blobs set_dtr set_blobs]. rewrite (zget_filter _ (fun k => negb (hid k))). destruct (hid b); reflexivity. Qed.
Lemma tget_projd : forall hid st t, tget (s_dtr (projd hid st)) t = if hid (fst t) then None else tget (s_dtr st) t.
Proof. intros. unfold projd. cbn [s_dtr set_dtr set_blobs]. rewrite (tget_filter _ (fun k => negb (hid k))). destruct (hid (fst t)); reflexivity. Qed.

Lemma zdel_filt : forall A (l : list (Z * A)) b, zdel l b = filter (fun e => negb (b =? fst e)) l.
Proof. intros A l b. induction l as [|[k v] l IH]; cbn; [reflexivity|]. destruct (b =? k); cbn; [|f_equal]; exact IH. Qed.
Lemma tdel_filt : forall A (l : list (tkt * A)) k, tdel l k = filter (fun e => negb (tk_eqb k (fst e))) l.
Proof. intros A l k. induction l as [|[k' v] l IH]; cbn; [reflexivity|]. destruct (tk_eqb k k'); cbn; [|f_equal]; exact IH. Qed.

Lemma filter_zset : forall A (q : Z -> bool) (l : list (Z * A)) b v, q b = true ->
  filter (fun e => q (fst e)) (zset l b v) = zset (filter (fun e => q (fst e)) l) b v.
Proof.
  intros A q l b v Q. unfold zset. cbn [filter fst]. rewrite Q. f_equal. rewrite !zdel_filt, !filt_filt. apply filt_ext. intros a. apply andb_comm.
Qed.
Lemma filter_tset : forall A (q : Z -> bool) (l : list (tkt * A)) k v, q (fst k) = true ->
  filter (fun e => q (fst (fst e))) (tset l k v) = tset (filter (fun e => q (fst (fst e))) l) k v.
Proof.
  intros A q l k v Q. unfold tset. cbn [filter fst]. rewrite Q. f_equal. rewrite !tdel_filt, !filt_filt. apply filt_ext. intros a. apply andb_comm.
Qed.

Lemma projd_set_dtr : forall h st D, projd h (set_dtr st D) = set_dtr (projd h st) (filter (fun e => negb (h (fst (fst e)))) D).
Proof. reflexivity. Qed.
Lemma projd_set_blobs : forall h st B, projd h (set_blobs st B) = set_blobs (projd h st) (filter (fun e => negb (h (fst e))) B).
Proof. reflexivity. Qed.

(* ------------------------------------------------------------------ the task machinery *)
Lemma T1_sub : forall h st st', (forall t, In t (s_tasks st') -> In t (s_tasks st)) -> T1 h st -> T1 h st'.
Proof. intros h st st' S T t I. apply T. apply S. exact I. Qed.

Lemma fold_issue_projd : forall h (f : Z -> rpc) o l st,
  fold_left (fun s x => issue_cur s (f x) o) l (projd h st) = projd h (fold_left (fun s x => issue_cur s (f x) o) l st).
Proof. intros h f o l. induction l as [|a l IH]; intros st; cbn [fold_left]; [reflexivity|]. rewrite <- IH. reflexivity. Qed.

Lemma fold_issue_tasks : forall (f : Z -> rpc) o l st, s_tasks (fold_left (fun s x => issue_cur s (f x) o) l st) = s_tasks st.
Proof. intros f o l. induction l as [|a l IH]; intros st; cbn [fold_left]; [reflexivity|]. rewrite IH. reflexivity. Qed.
Lemma fold_issue_dur : forall (f : Z -> rpc) o l st,
  s_blobs (fold_left (fun s x => issue_cur s (f x) o) l st) = s_blobs st /\ s_dtr (fold_left (fun s x => issue_cur s (f x) o) l st) = s_dtr st.
Proof. intros f o l. induction l as [|a l IH]; intros st; cbn [fold_left]; [split; reflexivity|]. destruct (IH (issue_cur st (f a) o)) as [A B]. rewrite A, B. split; reflexivity. Qed.

Lemma finish_task_projd : forall h st t e, finish_task (projd h st) t e = projd h (finish_task st t e).
Proof. intros. unfold finish_task. destruct (t_rpc t =? 0); reflexivity. Qed.
Lemma finish_task_tasks : forall st t e x, In x (s_tasks (finish_task st t e)) -> In x (s_tasks st).
Proof.
  intros st t e x H. unfold finish_task in H. destruct (t_rpc t =? 0); cbn in H; unfold del_task in H; apply filter_In in H; tauto.
Qed.
Lemma finish_task_dur : forall st t e, s_blobs (finish_task st t e) = s_blobs st /\ s_dtr (finish_task st t e) = s_dtr st.
Proof. intros. unfold finish_task. destruct (t_rpc t =? 0); split; reflexivity. Qed.

Lemma NI_finish : forall h st t e, T1 h st -> NI h st (finish_task (projd h st) t e) (finish_task st t e).
Proof.
  intros h st t e T. destruct (finish_task_dur st t e) as [B D]. apply NI_same; auto.
  - eapply T1_sub; [|exact T]. intros x. apply finish_task_tasks.
  - apply finish_task_projd.
Qed.

Lemma upd_task_in : forall ts t' x, In x (upd_task ts t') -> In x ts \/ x = t'.
Proof. intros ts t' x H. unfold upd_task in H. apply in_map_iff in H as (y & E & I). destruct (t_op y =? t_op t'); subst; auto. Qed.


Ltac split_all := repeat match goal with
  | |- context [match ?x with _ => _ end] => destruct x eqn:?
  | |- context [if ?x then _ else _] => destruct x eqn:?
  end.

Lemma activate_projd : forall h st t, h (t_blob t) = false -> activate (projd h st) t = projd h (activate st t).
Proof.
  intros h st t H. unfold activate. rewrite zget_projd, tget_projd. unfold tkey. cbn [fst]. rewrite H.
  change (known_of (projd h st) (t_gen t)) with (known_of st (t_gen t)).
  change (s_term (projd h st)) with (s_term st). change (s_tasks (projd h st)) with (s_tasks st).
  split_all; first [apply finish_task_projd | (rewrite <- fold_issue_projd; reflexivity) | reflexivity].
Qed.

Lemma activate_tasks : forall st t x, In x (s_tasks (activate st t)) -> In x (s_tasks st) \/ t_blob x = t_blob t.
Proof.
  intros st t x H. unfold activate in H.
  repeat match type of H with
  | context [match ?y with _ => _ end] => destruct y eqn:?
  | context [if ?y then _ else _] => destruct y eqn:?
  end; try (left; eapply finish_task_tasks; exact H);
  (rewrite fold_issue_tasks in H; cbn [s_tasks set_tasks] in H; apply upd_task_in in H as [H|H]; [left; exact H | right; subst x; reflexivity]).
Qed.

Lemma NI_activate : forall h st t, T1 h st -> h (t_blob t) = false -> NI h st (activate (projd h st) t) (activate st t).
Proof.
  intros h st t T H. destruct (quiet_activate st t) as (B & D & _). apply NI_same; auto.
  - intros x I. apply activate_tasks in I as [I|I]; [exact (T x I) | rewrite I; exact H].
  - now apply activate_projd.
Qed.

Lemma NI_wake : forall n h st, T1 h st -> NI h st (wake n (projd h st)) (wake n st).
Proof.
  induction n as [|n IH]; intros h st T; [apply NI_same; auto|].
  unfold wake; fold wake. change (s_tasks (projd h st)) with (s_tasks st).
  match goal with |- context [find ?f (s_tasks st)] => destruct (find f (s_tasks st)) as [t|] eqn:F end; [|apply NI_same; auto].
  apply find_some in F as [F Fp]. apply (NI_chain h st _ _ (wake n)); [apply NI_activate; auto | intros s Ts; apply IH; exact Ts].
Qed.

Lemma NI_start_task : forall h st t, T1 h st -> h (t_blob t) = false -> NI h st (start_task (projd h st) t) (start_task st t).
Proof.
  intros h st t T H. unfold start_task.
  change (s_tasks (projd h st)) with (s_tasks st). change (known_of (projd h st) (t_gen t)) with (known_of st (t_gen t)).
  assert (T' : T1 h (set_tasks st (s_tasks st ++ [t]))).
  { intros x I. cbn in I. apply in_app_iff in I as [I|[I|[]]]; [exact (T x I) | subst x; exact H]. }
  assert (N0 : NI h st (set_tasks (projd h st) (s_tasks st ++ [t])) (set_tasks st (s_tasks st ++ [t]))) by (apply NI_same; auto).
  destruct ((t_kind t =? 6) && negb (zmem (t_badts t) (known_of st (t_gen t)))).
  - apply (NI_chain h st _ _ (fun s => finish_task s t cl_ErrHostNotExist) N0). intros s Ts. now apply NI_finish.
  - apply (NI_chain h st _ _ (wake 8) N0). intros s Ts. now apply NI_wake.
Qed.

(* ------------------------------------------------------------------ durable commands *)
Lemma change_tract_projd : forall h st term b t v hs, h b = false ->
  change_tract (projd h st) term b t v hs = (projd h (fst (change_tract st term b t v hs)), snd (change_tract st term b t v hs)).
Proof.
  intros h st term b t v hs H. unfold change_tract. rewrite zget_projd, tget_projd. unfold tkey. cbn [fst]. rewrite H.
  change (s_term (projd h st)) with (s_term st).
  split_all; try reflexivity. cbn [fst snd]. rewrite projd_set_dtr. f_equal. f_equal.
  unfold projd. cbn [s_dtr set_dtr set_blobs]. symmetry. apply (filter_tset _ (fun k => negb (h k))). cbn [fst]. rewrite H. reflexivity.
Qed.

Lemma change_tract_keep : forall h st term b t v hs, h b = false ->
  hkeep h st (fst (change_tract st term b t v hs)) /\ s_tasks (fst (change_tract st term b t v hs)) = s_tasks st.
Proof.
  intros h st term b t v hs H. destruct (change_tract st term b t v hs) as [st' c] eqn:C. cbn [fst].
  apply change_tract_cases in C as [E|(dv & hs0 & G & V & E)]; subst; [split; [apply hkeep_refl|reflexivity]|].
  split; [|reflexivity]. split; [intros; reflexivity|]. intros t' Ht. cbn [s_dtr set_dtr]. apply tget_tset_other.
  intros X. subst t'. cbn [fst] in Ht. congruence.
Qed.

Lemma ext_fold_filter : forall (q : Z -> bool) blob trs m n, q blob = true ->
  filter (fun e : tkt * (Z * list Z) => q (fst (fst e))) (fst (ext_fold blob trs m n)) =
  fst (ext_fold blob trs (filter (fun e : tkt * (Z * list Z) => q (fst (fst e))) m) n).
Proof.
  intros q blob trs. induction trs as [|[[idx ver] hs] trs IH]; intros m n Q; [reflexivity|].
  unfold ext_fold in *. cbn [fold_left]. rewrite IH by exact Q. rewrite (filter_tset _ q) by exact Q. reflexivity.
Qed.

Lemma ext_fold_hid : forall (h : Z -> bool) blob trs m n t, h blob = false -> h (fst t) = true ->
  tget (fst (ext_fold blob trs m n)) t = tget m t.
Proof.
  intros h blob trs. induction trs as [|[[idx ver] hs] trs IH]; intros m n t H Ht; [reflexivity|].
  unfold ext_fold in *. cbn [fold_left]. rewrite IH by auto. apply tget_tset_other. unfold tkey. intros X. subst t. cbn [fst] in Ht. congruence.
Qed.

Lemma ack_extend_projd : forall h st blob trs, h blob = false ->
  ack_extend (projd h st) blob trs = (projd h (fst (ack_extend st blob trs)), snd (ack_extend st blob trs)).
Proof.
  intros h st blob trs H. unfold ack_extend. destruct trs as [|[[first ver0] hs0] trs0]; [reflexivity|].
  remember ((first, ver0, hs0) :: trs0) as trs eqn:T. clear T trs0.
  rewrite zget_projd, H. split_all; try reflexivity. cbn [fst snd].
  fold (ext_fold blob trs (s_dtr (projd h st)) z0). fold (ext_fold blob trs (s_dtr st) z0).
  rewrite projd_set_blobs, projd_set_dtr. f_equal.
  assert (Q : negb (h blob) = true) by (rewrite H; reflexivity).
  unfold projd at 2 3. cbn [s_blobs s_dtr set_dtr set_blobs].
  rewrite (ext_fold_filter (fun k => negb (h k))) by exact Q. rewrite (filter_zset _ (fun k => negb (h k))) by exact Q. reflexivity.
Qed.

Lemma ack_extend_keep : forall h st blob trs, h blob = false ->
  hkeep h st (fst (ack_extend st blob trs)) /\ s_tasks (fst (ack_extend st blob trs)) = s_tasks st.
Proof.
  intros h st blob trs H. unfold ack_extend. destruct trs as [|[[first ver0] hs0] trs0]; [split; [apply hkeep_refl|reflexivity]|].
  remember ((first, ver0, hs0) :: trs0) as trs eqn:T. clear T trs0.
  split_all; cbn [fst]; try (split; [apply hkeep_refl|reflexivity]). split; [|reflexivity]. split.
  - intros b Hb. cbn [s_blobs set_blobs set_dtr]. apply zget_zset_other. intros X. subst b. congruence.
  - intros t Ht. cbn [s_dtr set_blobs set_dtr]. fold (ext_fold blob trs (s_dtr st) z0). apply (ext_fold_hid h); auto.
Qed.

(* ------------------------------------------------------------------ replies *)
Lemma find_task_in : forall ts op t, find_task ts op = Some t -> In t ts.
Proof. induction ts as [|a ts IH]; intros op t H; cbn in H; [discriminate|]. destruct (t_op a =? op); [inversion H; subst; left; reflexivity | right; eauto]. Qed.

Lemma NI_upd_task : forall h st t t', T1 h st -> In t (s_tasks st) -> t_blob t' = t_blob t ->
  NI h st (set_tasks (projd h st) (upd_task (s_tasks st) t')) (set_tasks st (upd_task (s_tasks st) t')).
Proof.
  intros h st t t' T I E. apply NI_same; auto. intros x Hx. cbn in Hx. apply upd_task_in in Hx as [Hx|Hx]; [exact (T x Hx)|]. subst x. rewrite E. exact (T t I).
Qed.

Lemma NI_fold_issue : forall h st s1 s2 (f : Z -> rpc) o l,
  NI h st s1 s2 -> NI h st (fold_left (fun s x => issue_cur s (f x) o) l s1) (fold_left (fun s x => issue_cur s (f x) o) l s2).
Proof.
  intros h st s1 s2 f o l (E0 & K0 & T0). split; [rewrite E0; apply fold_issue_projd|]. split.
  - destruct (fold_issue_dur f o l s2) as [B D]. eapply hkeep_trans; [exact K0|]. apply hkeep_same; auto.
  - intros x Hx. rewrite fold_issue_tasks in Hx. exact (T0 x Hx).
Qed.

Lemma NI_task_reply : forall h st op err hint, T1 h st -> NI h st (task_reply (projd h st) op err hint) (task_reply st op err hint).
Proof.
  intros h st op err hint T. unfold task_reply. change (s_tasks (projd h st)) with (s_tasks st).
  destruct (find_task (s_tasks st) op) as [t|] eqn:F; [|apply NI_same; auto].
  pose proof (find_task_in _ _ _ F) as It. pose proof (T t It) as Hb.
  assert (FW : forall c, NI h st (wake 8 (finish_task (projd h st) t c)) (wake 8 (finish_task st t c))).
  { intros c. apply (NI_chain h st _ _ (wake 8)); [now apply NI_finish | intros s Ts; now apply NI_wake]. }
  destruct (negb (err =? cl_NoError)); [apply FW|].
  destruct (1 <? t_wait t); [apply (NI_upd_task h st t); auto|].
  change (known_of (projd h st) (t_gen t)) with (known_of st (t_gen t)).
  destruct ((t_kind t =? 5) && (t_phase t =? 1)).
  - split_all; try apply FW.
    apply NI_fold_issue. apply (NI_upd_task h st t); auto.
  - rewrite (change_tract_projd h st) by exact Hb.
    destruct (change_tract_keep h st (t_term t) (t_blob t) (t_tract t) (t_dv t + 1)
                (if is_perm (after_sep hint) (if t_kind t =? 5 then t_ok t ++ t_new t else t_ok t) then after_sep hint
                 else if t_kind t =? 5 then t_ok t ++ t_new t else t_ok t) Hb) as [K Ts].
    destruct (change_tract st (t_term t) (t_blob t) (t_tract t) (t_dv t + 1) _) as [st1 e1]. cbn [fst snd] in *.
    assert (T1' : T1 h st1) by (intros x Hx; rewrite Ts in Hx; exact (T x Hx)).
    assert (N1 : NI h st (wake 8 (finish_task (projd h st1) t e1)) (wake 8 (finish_task st1 t e1))).
    { destruct (NI_chain h st1 _ _ (wake 8) (NI_finish h st1 t e1 T1')) as (E2 & K2 & T2); [intros s Ts'; now apply NI_wake|].
      split; [exact E2|]. split; [eapply hkeep_trans; eauto | exact T2]. }
    exact N1.
Qed.

Lemma client_learns_projd : forall h st r res tr, client_learns (projd h st) r res tr = projd h (client_learns st r res tr).
Proof.
  intros. unfold client_learns. change (s_ops (projd h st)) with (s_ops st). change (s_know (projd h st)) with (s_know st).
  destruct res as [|cls payload]; [reflexivity|]. split_all; reflexivity.
Qed.
Lemma client_learns_same : forall st r res tr,
  s_blobs (client_learns st r res tr) = s_blobs st /\ s_dtr (client_learns st r res tr) = s_dtr st /\ s_tasks (client_learns st r res tr) = s_tasks st.
Proof. intros. unfold client_learns. destruct res as [|cls payload]; [auto|]. split_all; auto. Qed.

Lemma NI_client_learns : forall h st r res tr, T1 h st -> NI h st (client_learns (projd h st) r res tr) (client_learns st r res tr).
Proof.
  intros h st r res tr T. destruct (client_learns_same st r res tr) as (B & D & Ts). apply NI_same; auto.
  - intros x Hx. rewrite Ts in Hx. exact (T x Hx).
  - apply client_learns_projd.
Qed.

Lemma NI_resume : forall h st e d hint, T1 h st -> NI h st (resume (projd h st) e d hint) (resume st e d hint).
Proof.
  intros h st e d hint T. unfold resume. change (s_pool (projd h st)) with (s_pool st).
  set (st1 := set_pool st (pool_remove (s_pool st) (p_id e))).
  assert (N1 : NI h st (set_pool (projd h st) (pool_remove (s_pool st) (p_id e))) st1) by (apply NI_same; auto).
  destruct (k_cli (p_rpc e) <? 0).
  - destruct (p_owner e =? 0); [exact N1|]. apply (NI_chain h st _ _ (fun s => task_reply s (p_owner e) _ hint) N1). intros s Ts. now apply NI_task_reply.
  - assert (N2 : NI h st (if k_kind (p_rpc e) =? K_FixVersion
                          then set_done (set_pool (projd h st) (pool_remove (s_pool st) (p_id e)))
                                 (s_done (set_pool (projd h st) (pool_remove (s_pool st) (p_id e))) ++ [(p_rpc e, if d then hd cl_ErrRPC (p_res e) else cl_ErrRPC)])
                          else set_pool (projd h st) (pool_remove (s_pool st) (p_id e)))
                         (if k_kind (p_rpc e) =? K_FixVersion then set_done st1 (s_done st1 ++ [(p_rpc e, if d then hd cl_ErrRPC (p_res e) else cl_ErrRPC)]) else st1)).
    { destruct (k_kind (p_rpc e) =? K_FixVersion); [apply NI_same; auto | exact N1]. }
    destruct d; [|exact N2]. apply (NI_chain h st _ _ (fun s => client_learns s (p_rpc e) (p_res e) (p_tr e)) N2). intros s Ts. now apply NI_client_learns.
Qed.

Lemma NI_flush : forall n h st hint, T1 h st -> NI h st (flush n (projd h st) hint) (flush n st hint).
Proof.
  induction n as [|n IH]; intros h st hint T; [apply NI_same; auto|].
  unfold flush; fold flush. change (s_pool (projd h st)) with (s_pool st).
  destruct (find _ (s_pool st)) as [e|]; [|apply NI_same; auto].
  apply (NI_chain h st _ _ (fun s => flush n s hint)); [now apply NI_resume | intros s Ts; now apply IH].
Qed.

(* ------------------------------------------------------------------ executing an RPC *)
Lemma tracts_of_range_projd : forall h st gen blob a b, h blob = false ->
  tracts_of_range (projd h st) gen blob a b = tracts_of_range st gen blob a b.
Proof.
  intros h st gen blob a b H. unfold tracts_of_range. change (known_of (projd h st) gen) with (known_of st gen).
  apply map_ext. intros i. rewrite tget_projd. unfold tkey. cbn [fst]. rewrite H. reflexivity.
Qed.

Lemma exec_gettracts_projd : forall h st r, h (k_blob r) = false -> exec_gettracts (projd h st) r = exec_gettracts st r.
Proof.
  intros h st r H. unfold exec_gettracts. rewrite zget_projd, H. change (s_acked (projd h st)) with (s_acked st). change (s_gen (projd h st)) with (s_gen st).
  destruct (zget (s_blobs st) (k_blob r)) as [[rp nt]|]; [|reflexivity]. rewrite tracts_of_range_projd by exact H. reflexivity.
Qed.

Lemma exec_extend_projd : forall h st r o, h (k_blob r) = false -> exec_extend (projd h st) r o = exec_extend st r o.
Proof.
  intros h st r o H. unfold exec_extend. rewrite zget_projd, H. change (s_gen (projd h st)) with (s_gen st).
  change (known_of (projd h st) (s_gen st)) with (known_of st (s_gen st)). reflexivity.
Qed.

Lemma exec_rpc_projd : forall h st e o, h (k_blob (p_rpc e)) = false ->
  exec_rpc (projd h st) e o = (projd h (fst (fst (exec_rpc st e o))), snd (fst (exec_rpc st e o)), snd (exec_rpc st e o)).
Proof.
  intros h st e o H. unfold exec_rpc. change (s_reps (projd h st)) with (s_reps st). change (s_nts (projd h st)) with (s_nts st).
  change (s_gen (projd h st)) with (s_gen st). change (known_of (projd h st) (s_gen st)) with (known_of st (s_gen st)).
  rewrite zget_projd, H, exec_gettracts_projd, exec_extend_projd, ack_extend_projd by exact H.
  split_all; reflexivity.
Qed.

Lemma exec_rpc_keep : forall h st e o, h (k_blob (p_rpc e)) = false ->
  hkeep h st (fst (fst (exec_rpc st e o))) /\ s_tasks (fst (fst (exec_rpc st e o))) = s_tasks st.
Proof.
  intros h st e o H. unfold exec_rpc.
  destruct (ack_extend_keep h st (k_blob (p_rpc e)) (decode_tracts false (k_aux (p_rpc e))) H) as [AK AT].
  split_all; cbn [fst snd]; try (split; [apply hkeep_refl | reflexivity]); try (split; [apply hkeep_same; reflexivity | reflexivity]).
  all: cbn [fst] in AK, AT; split; assumption.
Qed.

(* ------------------------------------------------------------------ events *)
Definition NIP (h : Z -> bool) (st : state) (p1 p2 : state * list Z) : Prop := NI h st (fst p1) (fst p2) /\ snd p1 = snd p2.

Lemma NIP_obs : forall h st s1 s2 (F : state -> list Z), NI h st s1 s2 -> (forall s, F (projd h s) = F s) -> NIP h st (s1, F s1) (s2, F s2).
Proof. intros h st s1 s2 F N HF. split; [exact N|]. destruct N as (E & _). cbn [snd]. rewrite E. apply HF. Qed.

Lemma NI_trans_same : forall h st s2 s1' s2', hkeep h st s2 -> NI h s2 s1' s2' -> NI h st s1' s2'.
Proof. intros h st s2 s1' s2' K (E & K2 & T). split; [exact E|]. split; [eapply hkeep_trans; eauto | exact T]. Qed.

Lemma NI_fold_victims : forall h l st s1 s2, NI h st s1 s2 ->
  NI h st (fold_left (fun s x => flush 8 (resume s x false []) []) l s1) (fold_left (fun s x => flush 8 (resume s x false []) []) l s2).
Proof.
  intros h l. induction l as [|v l IH]; intros st s1 s2 N; cbn [fold_left]; [exact N|]. apply IH.
  apply (NI_chain h st _ _ (fun s => flush 8 (resume s v false []) []) N). intros s Ts.
  apply (NI_chain h s _ _ (fun s0 => flush 8 s0 [])); [now apply NI_resume | intros s0 T0; now apply NI_flush].
Qed.

Lemma step_exec_projd : forall h st mode r, T1 h st ->
  (forall rp r1, parse_rpc r = Some (rp, r1) -> h (k_blob rp) = false) ->
  NIP h st (step_exec (projd h st) mode r) (step_exec st mode r).
Proof.
  intros h st mode r T HB. unfold step_exec. change (s_pool (projd h st)) with (s_pool st).
  destruct (parse_rpc r) as [[rp r1]|] eqn:P; [|split; [apply NI_same; auto | reflexivity]].
  specialize (HB rp r1 eq_refl).
  destruct r1 as [|nh r2]; [split; [apply NI_same; auto | reflexivity]|].
  destruct (take nh r2) as [place r3].
  destruct (find_pent (s_pool st) rp 0) as [e|] eqn:F; [|split; [apply NI_same; auto | reflexivity]].
  pose proof (find_pent_eq _ _ _ _ F) as Erp.
  set (hint := place ++ [-1] ++ match r3 with nd :: r4 => fst (take nd r4) | [] => [] end).
  destruct (mode =? 4).
  { cbv zeta.
    assert (N : NI h st (flush 8 (resume (projd h st) e false hint) hint) (flush 8 (resume st e false hint) hint)).
    { apply (NI_chain h st _ _ (fun s => flush 8 s hint)); [now apply NI_resume | intros s Ts; now apply NI_flush]. }
    apply (NIP_obs h st _ _ (fun s1 => [0] ++ (if is_ts_kind (k_kind rp) then dump_replica (s_reps s1) (k_ts rp) (tkey (k_blob rp) (k_tract rp)) else []) ++ out_section s1) N).
    intros s. reflexivity. }
  destruct (mode =? 6).
  { destruct (negb (k_kind rp =? K_PullTract)); [split; [apply NI_same; auto | reflexivity]|]. cbv zeta.
    change (s_reps (projd h st)) with (s_reps st). change (s_nts (projd h st)) with (s_nts st).
    match goal with |- context [set_reps st ?x] => set (reps' := x) end.
    assert (N1 : NI h st (set_reps (projd h st) reps') (set_reps st reps')) by (apply NI_same; auto).
    assert (N2 : NI h st (flush 8 (resume (set_reps (projd h st) reps') e false hint) hint) (flush 8 (resume (set_reps st reps') e false hint) hint)).
    { apply (NI_chain h st _ _ (fun s => flush 8 (resume s e false hint) hint) N1). intros s Ts.
      apply (NI_chain h s _ _ (fun s0 => flush 8 s0 hint)); [now apply NI_resume | intros s0 T0; now apply NI_flush]. }
    set (sA := flush 8 (resume (set_reps (projd h st) reps') e false hint) hint) in *.
    set (sB := flush 8 (resume (set_reps st reps') e false hint) hint) in *.
    assert (EP : s_pool sA = s_pool sB) by (destruct N2 as (E & _); rewrite E; reflexivity). rewrite EP.
    pose proof (NI_fold_victims h (filter (fun x => (p_st x =? 0) && (k_ts (p_rpc x) =? k_ts rp)) (s_pool sB)) st sA sB N2) as N3.
    apply (NIP_obs h st _ _ (fun s1 => [1] ++ (if is_ts_kind (k_kind rp) then dump_replica (s_reps s1) (k_ts rp) (tkey (k_blob rp) (k_tract rp)) else []) ++ out_section s1) N3).
    intros s. reflexivity. }
  destruct (k_kind rp =? K_FixVersion).
  { cbv zeta. change (s_nsynth (projd h st)) with (s_nsynth st). change (s_gen (projd h st)) with (s_gen st). change (s_term (projd h st)) with (s_term st).
    set (sb := set_nsynth (set_pool st (pool_update (s_pool st) (set_pent e 1 [] [] (mode =? 2) (negb (mode =? 5))))) (s_nsynth st + 1)).
    set (tk := new_task (- (s_nsynth st + 1)) 6 (s_gen st) (s_term st) (k_blob rp) (k_tract rp) [] (k_ver rp) (aux_nth rp 0) (p_id e)).
    assert (Nb : NI h st (set_nsynth (set_pool (projd h st) (pool_update (s_pool st) (set_pent e 1 [] [] (mode =? 2) (negb (mode =? 5))))) (s_nsynth st + 1)) sb)
      by (apply NI_same; auto).
    assert (Nc : NI h st (start_task (set_nsynth (set_pool (projd h st) (pool_update (s_pool st) (set_pent e 1 [] [] (mode =? 2) (negb (mode =? 5))))) (s_nsynth st + 1)) tk) (start_task sb tk)).
    { apply (NI_chain h st _ _ (fun s => start_task s tk) Nb). intros s Ts. apply NI_start_task; [exact Ts | exact HB]. }
    set (sA := start_task (set_nsynth (set_pool (projd h st) (pool_update (s_pool st) (set_pent e 1 [] [] (mode =? 2) (negb (mode =? 5))))) (s_nsynth st + 1)) tk) in *.
    set (sB := start_task sb tk) in *.
    assert (EP : s_pool sA = s_pool sB) by (destruct Nc as (E & _); rewrite E; reflexivity). rewrite EP.
    assert (Nd : NI h st (flush 8 sA hint) (flush 8 sB hint)).
    { apply (NI_chain h st _ _ (fun s => flush 8 s hint) Nc). intros s Ts. now apply NI_flush. }
    split; [exact Nd|]. cbn [snd]. destruct Nd as (E & _). rewrite E. reflexivity. }
  rewrite <- Erp in HB.
  rewrite (exec_rpc_projd h st e place HB). destruct (exec_rpc_keep h st e place HB) as [K1 Ts1].
  destruct (exec_rpc st e place) as [[st1 res] tr]. cbn [fst snd] in *.
  assert (T1a : T1 h st1) by (intros x Hx; rewrite Ts1 in Hx; exact (T x Hx)).
  destruct (mode =? 3).
  - rewrite (exec_rpc_projd h st1 e place HB). destruct (exec_rpc_keep h st1 e place HB) as [K2 Ts2].
    destruct (exec_rpc st1 e place) as [[st1b res2] tr2]. cbn [fst snd] in *.
    assert (T1b : T1 h st1b) by (intros x Hx; rewrite Ts2 in Hx; exact (T1a x Hx)).
    change (s_pool (projd h st1b)) with (s_pool st1b).
    set (s2 := set_pool st1b (pool_update (s_pool st1b) (set_pent e 2 res tr (mode =? 2) (negb (mode =? 5))))).
    assert (N2 : NI h st (set_pool (projd h st1b) (pool_update (s_pool st1b) (set_pent e 2 res tr (mode =? 2) (negb (mode =? 5))))) s2).
    { split; [reflexivity|]. split; [eapply hkeep_trans; [exact K1|]; eapply hkeep_trans; [exact K2 | apply hkeep_same; reflexivity] | exact T1b]. }
    assert (N3 : NI h st (flush 8 (set_pool (projd h st1b) (pool_update (s_pool st1b) (set_pent e 2 res tr (mode =? 2) (negb (mode =? 5))))) hint) (flush 8 s2 hint)).
    { apply (NI_chain h st _ _ (fun s => flush 8 s hint) N2). intros s Ts. now apply NI_flush. }
    apply (NIP_obs h st _ _ (fun s1 => [1] ++ res ++ (if is_ts_kind (k_kind rp) then dump_replica (s_reps s1) (k_ts rp) (tkey (k_blob rp) (k_tract rp)) else []) ++ out_section s1) N3).
    intros s. reflexivity.
  - change (s_pool (projd h st1)) with (s_pool st1).
    set (s2 := set_pool st1 (pool_update (s_pool st1) (set_pent e 2 res tr (mode =? 2) (negb (mode =? 5))))).
    assert (N2 : NI h st (set_pool (projd h st1) (pool_update (s_pool st1) (set_pent e 2 res tr (mode =? 2) (negb (mode =? 5))))) s2).
    { split; [reflexivity|]. split; [eapply hkeep_trans; [exact K1 | apply hkeep_same; reflexivity] | exact T1a]. }
    assert (N3 : NI h st (flush 8 (set_pool (projd h st1) (pool_update (s_pool st1) (set_pent e 2 res tr (mode =? 2) (negb (mode =? 5))))) hint) (flush 8 s2 hint)).
    { apply (NI_chain h st _ _ (fun s => flush 8 s hint) N2). intros s Ts. now apply NI_flush. }
    apply (NIP_obs h st _ _ (fun s1 => [1] ++ res ++ (if is_ts_kind (k_kind rp) then dump_replica (s_reps s1) (k_ts rp) (tkey (k_blob rp) (k_tract rp)) else []) ++ out_section s1) N3).
    intros s. reflexivity.
Qed.

(* the blobs an event names where it matters: creation of a blob, start of a curator task, an executed RPC, a probe *)
Definition ev_ok (h : Z -> bool) (ev : list Z) : bool :=
  match ev with
  | [] => true
  | c :: a =>
      if c =? 2 then negb (h (hd 0 a))
      else if (c =? 5) || (c =? 6) then negb (h (nth 2 a 0))
      else if c =? 7 then match a with
                          | _ :: r => match parse_rpc r with Some (rp, _) => negb (h (k_blob rp)) | None => true end
                          | [] => true
                          end
      else if c =? 12 then negb (h (hd 0 a))
      else true
  end.

Theorem step_projd : forall h st ev, T1 h st -> ev_ok h ev = true -> NIP h st (step (projd h st) ev) (step st ev).
Proof.
  intros h st ev T OK. unfold step. change (set_out (projd h st) []) with (projd h (set_out st [])).
  assert (T0 : T1 h (set_out st [])) by exact T.
  assert (K0 : forall s', hkeep h (set_out st []) s' -> hkeep h st s') by (intros s' K; exact K).
  set (s := set_out st []) in *. clearbody s.
  assert (ID : forall o, NIP h st (projd h s, o) (s, o)).
  { intros o. split; [|reflexivity]. split; [reflexivity|]. split; [apply K0, hkeep_refl | exact T0]. }
  assert (SAME : forall s1 s2 o, s_blobs s2 = s_blobs s -> s_dtr s2 = s_dtr s -> T1 h s2 -> s1 = projd h s2 -> NIP h st (s1, o) (s2, o)).
  { intros s1 s2 o B D T2 E. split; [|reflexivity]. cbn [fst]. split; [exact E|]. split; [apply K0; now apply hkeep_same | exact T2]. }
  assert (LIFT : forall p1 p2, NIP h s p1 p2 -> NIP h st p1 p2).
  { intros p1 p2 [(E & K & T2) O]. split; [|exact O]. split; [exact E|]. split; [apply K0; exact K | exact T2]. }
  destruct ev as [|c a]; [apply ID|]. unfold ev_ok in OK.
  destruct (c =? 1). { destruct a; [apply ID|]. apply SAME; auto. }
  destruct (c =? 2) eqn:C2.
  { destruct a as [|x [|y [|z a]]]; try apply ID. cbn [hd] in OK. apply negb_true_iff in OK.
    rewrite zget_projd, OK. destruct (zget (s_blobs s) x); [apply ID|].
    split; [|reflexivity]. cbn [fst]. split; [|split].
    - rewrite projd_set_blobs. f_equal. unfold projd. cbn [s_blobs set_dtr set_blobs]. symmetry.
      apply (filter_zset _ (fun k => negb (h k))). rewrite OK. reflexivity.
    - apply K0. split; [|intros; reflexivity]. intros b Hb. cbn [s_blobs set_blobs]. apply zget_zset_other. intros X. subst b. congruence.
    - exact T0. }
  destruct (c =? 3). { destruct a as [|x1 [|x2 [|x3 [|x4 [|x5 [|x6 [|x7 a]]]]]]]; try apply ID. apply SAME; auto. }
  destruct (c =? 4). { destruct a as [|x1 [|x2 [|x3 [|x4 [|x5 [|x6 a]]]]]]; try apply ID. apply SAME; auto. }
  destruct (c =? 5) eqn:C5.
  { cbn [orb] in OK. destruct a as [|x1 [|x2 [|x3 [|x4 [|x5 a]]]]]; try apply ID. cbn [nth] in OK. apply negb_true_iff in OK.
    destruct (take x5 a) as [bad rest]. change (s_gen (projd h s)) with (s_gen s). change (s_term (projd h s)) with (s_term s).
    apply LIFT.
    assert (N : NI h s (flush 8 (start_task (projd h s) (new_task x1 5 (s_gen s) (s_term s) x3 x4 bad 0 0 0)) []) (flush 8 (start_task s (new_task x1 5 (s_gen s) (s_term s) x3 x4 bad 0 0 0)) [])).
    { apply (NI_chain h s _ _ (fun s0 => flush 8 s0 [])); [apply NI_start_task; auto | intros s0 T2; now apply NI_flush]. }
    apply (NIP_obs h s _ _ out_section N). intros s0. reflexivity. }
  destruct (c =? 6) eqn:C6.
  { cbn [orb] in OK. destruct a as [|x1 [|x2 [|x3 [|x4 [|x5 [|x6 [|x7 a]]]]]]]; try apply ID. cbn [nth] in OK. apply negb_true_iff in OK.
    change (s_gen (projd h s)) with (s_gen s). change (s_term (projd h s)) with (s_term s). apply LIFT.
    assert (N : NI h s (flush 8 (start_task (projd h s) (new_task x1 6 (s_gen s) (s_term s) x3 x4 [] x5 x6 0)) []) (flush 8 (start_task s (new_task x1 6 (s_gen s) (s_term s) x3 x4 [] x5 x6 0)) [])).
    { apply (NI_chain h s _ _ (fun s0 => flush 8 s0 [])); [apply NI_start_task; auto | intros s0 T2; now apply NI_flush]. }
    apply (NIP_obs h s _ _ out_section N). intros s0. reflexivity. }
  cbn [orb] in OK.
  destruct (c =? 7).
  { destruct a as [|mode r]; [apply ID|]. apply LIFT. apply step_exec_projd; auto.
    intros rp r1 P. rewrite P in OK. apply negb_true_iff in OK. exact OK. }
  destruct (c =? 8).
  { destruct a as [|lose r]; [apply ID|]. unfold step_reply. change (s_pool (projd h s)) with (s_pool s).
    destruct (parse_rpc r) as [[rp r1]|]; [|apply ID]. destruct (find_pent (s_pool s) rp 2) as [e|]; [|apply ID]. apply LIFT.
    cbv zeta.
    match goal with |- NIP h s (flush 8 (resume (projd h s) e ?d ?hint) ?hint, _) _ =>
      assert (N : NI h s (flush 8 (resume (projd h s) e d hint) hint) (flush 8 (resume s e d hint) hint))
        by (apply (NI_chain h s _ _ (fun s0 => flush 8 s0 hint)); [now apply NI_resume | intros s0 T2; now apply NI_flush]) end.
    apply (NIP_obs h s _ _ out_section N). intros s0. reflexivity. }
  destruct (c =? 9).
  { destruct a as [|ts [|y a]]; try apply ID. unfold step_restart. change (s_pool (projd h s)) with (s_pool s). apply LIFT. cbv zeta.
    assert (N : NI h s (projd h s) s) by (apply NI_same; auto).
    apply (NIP_obs h s _ _ out_section (NI_fold_victims h _ s _ _ N)). intros s0. reflexivity. }
  destruct (c =? 10). { destruct a; [|apply ID]. apply SAME; auto. }
  destruct (c =? 11). { destruct a as [|ts [|y a]]; try apply ID. apply SAME; auto. }
  destruct (c =? 12).
  { destruct a as [|x1 [|x2 [|x3 [|x4 [|x5 a]]]]]; try apply ID. cbn [hd] in OK. apply negb_true_iff in OK.
    unfold step_probe. rewrite tget_projd. unfold tkey. cbn [fst]. rewrite OK.
    destruct (tget (s_dtr s) (x1, x2)) as [[ver hosts]|]; [|apply ID]. destruct ((x3 =? 1) && (x4 =? 0)); [apply ID|].
    change (s_term (projd h s)) with (s_term s). rewrite (change_tract_projd h s) by exact OK.
    destruct (change_tract_keep h s (s_term s - x4) x1 x2 (ver + x3) hosts OK) as [K Ts].
    destruct (change_tract s (s_term s - x4) x1 x2 (ver + x3) hosts) as [s1 c1]. cbn [fst snd] in *.
    split; [|reflexivity]. cbn [fst]. split; [reflexivity|]. split; [apply K0; exact K | intros x Hx; rewrite Ts in Hx; exact (T0 x Hx)]. }
  destruct (c =? 13).
  { unfold step_issue. destruct (parse_rpc a) as [[rp r1]|]; [|apply ID].
    change (issue_allowed (projd h s) rp) with (issue_allowed s rp). destruct (issue_allowed s rp); [|apply ID]. apply SAME; auto. }
  destruct (c =? 14).
  { destruct a as [|x1 [|x2 [|x3 a]]]; try apply ID. unfold step_finclient.
    change (s_ops (projd h s)) with (s_ops s). change (s_pool (projd h s)) with (s_pool s). change (s_acked (projd h s)) with (s_acked s).
    destruct (find_op (s_ops s) x1) as [o|]; [|apply ID].
    change (ack_allowed (projd h s) o) with (ack_allowed s o).
    split_all; try apply ID; apply SAME; auto. }
  destruct (c =? 15).
  { destruct a as [|op [|y a]]; try apply ID. change (s_fin (projd h s)) with (s_fin s). destruct (zget (s_fin s) op); [|apply ID]. apply SAME; auto. }
  destruct (c =? 16).
  { unfold step_rpcdone. destruct (parse_rpc a) as [[rp r1]|]; [|apply ID]. change (s_done (projd h s)) with (s_done s).
    destruct (find _ (s_done s)) as [[x0 c0]|]; [|apply ID]. apply SAME; auto. }
  destruct (c =? 17).
  { unfold step_inject. destruct (parse_rpc a) as [[rp r1]|]; [|apply ID]. destruct ((k_cli rp <? 0) && _); [|apply ID]. apply SAME; auto. }
  apply ID.
Qed.

(* the schedule predicate of C01 reads the durable records only for the tract an executed RPC names *)
Lemma ok_ev_projd : forall L h st ev, ev_ok h ev = true -> ok_ev L (projd h st) ev = ok_ev L st ev.
Proof.
  intros L h st ev OK. unfold ok_ev. destruct ev as [|c a]; [reflexivity|].
  destruct (c =? 3); [reflexivity|]. destruct (c =? 4); [reflexivity|]. destruct ((c =? 5) || (c =? 6)); [reflexivity|].
  destruct (c =? 7) eqn:C7; [|reflexivity]. apply Z.eqb_eq in C7. subst c. cbn in OK.
  destruct a as [|mode r]; [reflexivity|]. destruct (parse_rpc r) as [[rp r1]|]; [|reflexivity]. apply negb_true_iff in OK.
  change (s_pool (projd h st)) with (s_pool st). destruct (find_pent (s_pool st) rp 0); [|reflexivity].
  unfold durable, stale_pull. rewrite !tget_projd. unfold tkey. cbn [fst]. rewrite OK. reflexivity.
Qed.
