(* C05/GC.v — the two decision procedures of garbage collection, transcribed branch by branch:

     check_for_garbage : durable.StateHandler.CheckForGarbage (internal/curator/durable/handler.go)
                         followed by Curator.filterPendingPieces (curator.go), in the order
                         gcTractserverContents (leader.go) applies them
     gc_removals       : Store.GCTracts / maybeGCTract / removeTract (internal/tractserver/store.go)

   over a small durable-state type.  Both the protocol model of Proto.v (theorems) and the executable
   trace model of Model.v (correspondence with the real code) use exactly these functions. *)
From Coq Require Import List ZArith Bool Lia.
Import ListNotations.
Open Scope Z_scope.

(* tract id: (blob, index).  blob = -2 stands for the RS partition: (-2, p) is RS piece p *)
Definition tid := (Z * Z)%type.
Definition tid_eqb (a b : tid) : bool := (fst a =? fst b) && (snd a =? snd b).
Definition is_rs (t : tid) : bool := fst t =? -2.

Lemma tid_eqb_eq : forall a b, tid_eqb a b = true <-> a = b.
Proof.
  intros [a1 a2] [b1 b2]. unfold tid_eqb; cbn. rewrite andb_true_iff, !Z.eqb_eq. split.
  - intros [-> ->]; reflexivity.
  - intros H; inversion H; auto.
Qed.

Lemma tid_eqb_refl : forall a, tid_eqb a a = true.
Proof. intros a. apply tid_eqb_eq. reflexivity. Qed.

Fixpoint aget {A} (m : list (Z * A)) (k : Z) : option A :=
  match m with [] => None | (k', v) :: r => if k =? k' then Some v else aget r k end.
Fixpoint adel {A} (m : list (Z * A)) (k : Z) : list (Z * A) :=
  match m with [] => [] | (k', v) :: r => if k =? k' then adel r k else (k', v) :: adel r k end.
Fixpoint tget {A} (m : list (tid * A)) (k : tid) : option A :=
  match m with [] => None | (k', v) :: r => if tid_eqb k k' then Some v else tget r k end.
Fixpoint tdel {A} (m : list (tid * A)) (k : tid) : list (tid * A) :=
  match m with [] => [] | (k', v) :: r => if tid_eqb k k' then tdel r k else (k', v) :: tdel r k end.
Definition zmem (x : Z) (l : list Z) : bool := existsb (Z.eqb x) l.
Definition tmem (x : tid) (l : list tid) : bool := existsb (tid_eqb x) l.

(* the durable state as CheckForGarbage sees it:
     blobs  : blob -> number of tracts   (GetBlobAll: blobs merely marked deleted are still here)
     tracts : tract -> (version, hosts)
     chunks : base piece id -> hosts (one per piece) *)
Record dur := { d_blobs : list (Z * Z); d_tracts : list (tid * (Z * list Z)); d_chunks : list (Z * list Z) }.

(* Txn.LookupRSPiece: the chunk with the largest base <= p; the piece's index inside it must be below
   the chunk's number of hosts *)
Definition best_chunk (chunks : list (Z * list Z)) (p : Z) : option (Z * list Z) :=
  fold_left (fun acc c =>
               if fst c <=? p
               then match acc with
                    | Some c0 => if fst c0 <? fst c then Some c else acc
                    | None => Some c
                    end
               else acc) chunks None.

Definition lookup_piece (chunks : list (Z * list Z)) (p : Z) : option Z :=
  match best_chunk chunks p with
  | Some (b, hs) => let i := p - b in
                    if (0 <=? i) && (i <? Z.of_nat (length hs)) then nth_error hs (Z.to_nat i) else None
  | None => None
  end.

Inductive verdict := Keep | Old (v : Z) | Gone.

(* one iteration of the loop of CheckForGarbage, over the three lookups it performs:
   bl b = GetBlobAll(b) as its number of tracts, tr t = the tract record, chunks = the RS chunk bucket *)
Definition check_one_f (bl : Z -> option Z) (tr : tid -> option (Z * list Z)) (chunks : list (Z * list Z))
                       (tsid : Z) (t : tid) : verdict :=
  if is_rs t then
    match lookup_piece chunks (snd t) with
    | Some h => if h =? tsid then Keep else Gone
    | None => Gone
    end
  else
    match bl (fst t) with
    | None => Gone                                   (* blob == nil: deleted for good or never existed *)
    | Some nt =>
        if nt <=? snd t then Keep                    (* Index >= TractsLength: assumed in creation *)
        else match tr t with
             | Some (v, hs) => if zmem tsid hs then Keep else Old v
             | None => Keep
             end
    end.

Section Check.
  Variable bl : Z -> option Z.
  Variable tr : tid -> option (Z * list Z).
  Variable chunks : list (Z * list Z).

  Fixpoint olds_f (tsid : Z) (ids : list tid) : list (tid * Z) :=
    match ids with
    | [] => []
    | t :: r => match check_one_f bl tr chunks tsid t with Old v => (t, v) :: olds_f tsid r | _ => olds_f tsid r end
    end.
  Fixpoint gones_f (tsid : Z) (ids : list tid) : list tid :=
    match ids with
    | [] => []
    | t :: r => match check_one_f bl tr chunks tsid t with Gone => t :: gones_f tsid r | _ => gones_f tsid r end
    end.

  (* CheckForGarbage, then filterPendingPieces on the gone list *)
  Definition check_for_garbage_f (pending : list tid) (tsid : Z) (ids : list tid) : list (tid * Z) * list tid :=
    (olds_f tsid ids, filter (fun t => negb (tmem t pending)) (gones_f tsid ids)).
End Check.

Definition check_for_garbage (d : dur) (pending : list tid) (tsid : Z) (ids : list tid) : list (tid * Z) * list tid :=
  check_for_garbage_f (aget (d_blobs d)) (tget (d_tracts d)) (d_chunks d) pending tsid ids.

Lemma olds_f_in : forall bl tr chunks tsid ids t v,
  In (t, v) (olds_f bl tr chunks tsid ids) -> In t ids /\ check_one_f bl tr chunks tsid t = Old v.
Proof.
  induction ids as [|a r IH]; cbn; intros t v H; [contradiction|].
  destruct (check_one_f bl tr chunks tsid a) eqn:E.
  - destruct (IH _ _ H); auto.
  - destruct H as [H|H]; [inversion H; subst; auto | destruct (IH _ _ H); auto].
  - destruct (IH _ _ H); auto.
Qed.

Lemma gones_f_in : forall bl tr chunks tsid ids t,
  In t (gones_f bl tr chunks tsid ids) -> In t ids /\ check_one_f bl tr chunks tsid t = Gone.
Proof.
  induction ids as [|a r IH]; cbn; intros t H; [contradiction|].
  destruct (check_one_f bl tr chunks tsid a) eqn:E.
  - destruct (IH _ H); auto.
  - destruct (IH _ H); auto.
  - destruct H as [H|H]; [subst; auto | destruct (IH _ H); auto].
Qed.

(* Store.GCTracts on one tractserver whose copies are given by ver_of (None = no such tract):
   maybeGCTract: open fails (no such tract, or a disk error) => nothing; version > instruction's =>
   nothing; otherwise removeTract.  "gone" => removeTract unconditionally.
   Result: the tracts removed (removing a tract twice is a no-op). *)
Definition old_removes (ver_of : tid -> option Z) (fault : bool) (o : tid * Z) : bool :=
  match ver_of (fst o) with
  | None => false
  | Some rv => negb fault && (rv <=? snd o)
  end.

Definition gc_removals (ver_of : tid -> option Z) (old : list (tid * Z * bool)) (gone : list tid) : list tid :=
  map (fun o => fst (fst o)) (filter (fun o => old_removes ver_of (snd o) (fst o)) old) ++
  filter (fun t => match ver_of t with Some _ => true | None => false end) gone.
