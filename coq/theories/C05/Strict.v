(* C05/Strict.v — over the Cluster model (coq/theories/Cluster/Model.v, every event of step, no schedule
   restriction): a durable tract record never disappears, its version never decreases, and THE HOST SET
   OF A GIVEN DURABLE VERSION NEVER CHANGES (hosts change only together with version+1: ChangeTract's
   old+1 rule; ExtendBlob only appends).  This is Cluster/Inv.v's durable_monotone with the host clause
   added; the proofs follow adv_step case by case. *)
From Coq Require Import List ZArith Bool Lia.
From BLB Require Import Gen.Consts Cluster.Model Cluster.Proofs Cluster.Frame Cluster.Inv.
Import ListNotations.
Open Scope Z_scope.

Definition dstrict (st st' : state) : Prop :=
  forall tk dv hs, tget (s_dtr st) tk = Some (dv, hs) ->
    exists dv' hs', tget (s_dtr st') tk = Some (dv', hs') /\ dv <= dv' /\ (dv' = dv -> hs' = hs).

(* ... and no blob comes into being (only event 2, the creation of a blob, does that) *)
Definition bsame (st st' : state) : Prop := forall b, zget (s_blobs st) b = None -> zget (s_blobs st') b = None.

Definition strict (st st' : state) : Prop := dstrict st st' /\ bsame st st'.

Definition sadv (st st' : state) : Prop := dur_ok st -> dur_ok st' /\ strict st st'.

Lemma strict_refl : forall st, strict st st.
Proof. intros st. split; [|intros b H; exact H]. intros tk dv hs H. exists dv, hs. repeat split; auto; lia. Qed.

Lemma strict_trans : forall a b c, strict a b -> strict b c -> strict a c.
Proof.
  intros a b c [H1 B1] [H2 B2]. split; [|intros x H; apply B2, B1, H]. intros tk dv hs H. destruct (H1 _ _ _ H) as (dv1 & hs1 & G1 & L1 & E1).
  destruct (H2 _ _ _ G1) as (dv2 & hs2 & G2 & L2 & E2). exists dv2, hs2. split; auto. split; [lia|].
  intros X. assert (dv1 = dv) by lia. subst dv1. rewrite E2 by lia. auto.
Qed.

Lemma sadv_refl : forall st, sadv st st.
Proof. intros st D. split; auto using strict_refl. Qed.

Lemma sadv_trans : forall a b c, sadv a b -> sadv b c -> sadv a c.
Proof.
  intros a b c H1 H2 Da. destruct (H1 Da) as [Db S1]. destruct (H2 Db) as [Dc S2]. split; auto. eapply strict_trans; eauto.
Qed.

Lemma same_dur_sadv : forall st st', s_blobs st' = s_blobs st -> s_dtr st' = s_dtr st -> sadv st st'.
Proof.
  intros st st' B D Ds. split.
  - exact (proj1 (same_dur_advances st st' B D Ds)).
  - split; [|intros b H; rewrite B; exact H]. intros tk dv hs H. rewrite D. exists dv, hs. repeat split; auto; lia.
Qed.

Lemma quiet_sadv : forall st st', quiet st st' -> sadv st st'.
Proof. intros st st' (B & D & _). now apply same_dur_sadv. Qed.

Lemma adv_sadv : forall st st', advances st st' -> (dur_ok st -> strict st st') -> sadv st st'.
Proof. intros st st' A S D. split; [exact (proj1 (A D)) | exact (S D)]. Qed.

Lemma sadv_change_tract : forall st term b t v h, sadv st (fst (change_tract st term b t v h)).
Proof.
  intros. apply adv_sadv; [apply evolves_advances, evolves_change_tract|]. intros _.
  destruct (change_tract st term b t v h) as [st' c] eqn:C. cbn [fst].
  apply change_tract_cases in C as [E|(dv & hs & G & V & E)]; subst; [apply strict_refl|].
  split; [|intros x H; exact H]. intros tk dv' hs' H. cbn [s_dtr set_dtr]. destruct (tk_eqb tk (b, t)) eqn:Q.
  - apply tk_eqb_eq in Q. subst tk. rewrite G in H. inversion H; subst. rewrite tget_tset_same.
    exists (dv' + 1), h. split; auto. split; [lia|]. intros X. lia.
  - rewrite tget_tset_other; [exists dv', hs'; repeat split; auto; lia|].
    intro X; subst tk. rewrite tk_eqb_refl in Q. discriminate.
Qed.

Lemma sadv_ack_extend : forall st blob trs, sadv st (fst (ack_extend st blob trs)).
Proof.
  intros. apply adv_sadv; [apply evolves_advances, evolves_ack_extend|]. intros [D1 D2].
  unfold ack_extend.
  destruct trs as [|[[first ver0] hs0] trs0]; [apply strict_refl|].
  remember ((first, ver0, hs0) :: trs0) as trs eqn:T. clear T trs0.
  destruct (20 <? Z.of_nat (length trs)); [apply strict_refl|].
  destruct (zget (s_blobs st) blob) as [[repl nt]|] eqn:B; [|apply strict_refl].
  destruct (negb (first =? nt)); [apply strict_refl|].
  destruct (negb (forallb _ trs)); [apply strict_refl|].
  cbn [fst]. fold (ext_fold blob trs (s_dtr st) nt).
  split.
  - intros tk dv hs H. cbn [s_dtr set_blobs set_dtr]. rewrite ext_fold_keep.
    + exists dv, hs. repeat split; auto; lia.
    + intros i E. subst tk. destruct (D2 _ _ _ _ H) as (_ & r0 & n0 & G & I). rewrite B in G. inversion G; subst. lia.
  - intros x H. cbn [s_blobs set_blobs set_dtr]. rewrite zget_zset_other; [exact H|]. intros X. subst x. congruence.
Qed.

Lemma sadv_task_reply : forall st op err hint, sadv st (task_reply st op err hint).
Proof.
  intros. unfold task_reply.
  destruct (find_task (s_tasks st) op) as [t|]; [|apply sadv_refl].
  destruct (negb (err =? cl_NoError)).
  { apply quiet_sadv. eapply quiet_trans; [apply quiet_finish_task | apply quiet_wake]. }
  destruct (1 <? t_wait t). { apply quiet_sadv, quiet_set_tasks. }
  destruct ((t_kind t =? 5) && (t_phase t =? 1)).
  - apply quiet_sadv.
    repeat match goal with
           | |- context [if ?x then _ else _] => destruct x eqn:?
           end; try (eapply quiet_trans; [apply quiet_finish_task | apply quiet_wake]).
    eapply quiet_trans; [apply quiet_set_tasks | apply quiet_fold_issue; intro; apply pull_not_write].
  - match goal with |- context [change_tract ?a ?b ?c ?d ?e ?f] =>
      pose proof (sadv_change_tract a b c d e f) as H; destruct (change_tract a b c d e f) as [st1 e1] end.
    cbn [fst] in H. eapply sadv_trans; [exact H|].
    apply quiet_sadv. eapply quiet_trans; [apply quiet_finish_task | apply quiet_wake].
Qed.

Lemma sadv_client_learns : forall st r res tr, sadv st (client_learns st r res tr).
Proof.
  intros. apply same_dur_sadv; unfold client_learns;
    repeat match goal with
           | |- context [match ?x with _ => _ end] => destruct x eqn:?
           | |- context [if ?x then _ else _] => destruct x eqn:?
           end; reflexivity.
Qed.

Lemma sadv_resume : forall st e d h, sadv st (resume st e d h).
Proof.
  intros st e d h. unfold resume.
  set (st1 := set_pool st (pool_remove (s_pool st) (p_id e))).
  assert (A1 : sadv st st1) by (apply same_dur_sadv; reflexivity).
  destruct (k_cli (p_rpc e) <? 0).
  - destruct (p_owner e =? 0); [exact A1|]. eapply sadv_trans; [exact A1 | apply sadv_task_reply].
  - set (st2 := if k_kind (p_rpc e) =? K_FixVersion then set_done st1 _ else st1).
    assert (A2 : sadv st st2).
    { eapply sadv_trans; [exact A1|]. unfold st2. destruct (k_kind (p_rpc e) =? K_FixVersion); apply same_dur_sadv; reflexivity. }
    destruct d; [|exact A2]. eapply sadv_trans; [exact A2 | apply sadv_client_learns].
Qed.

Lemma sadv_flush : forall n st h, sadv st (flush n st h).
Proof.
  induction n; intros st h; [apply sadv_refl|].
  unfold flush; fold flush.
  destruct (find _ (s_pool st)) as [e|]; [|apply sadv_refl].
  eapply sadv_trans; [apply sadv_resume | apply IHn].
Qed.

Lemma sadv_exec : forall st e oracle st' res tr, exec_rpc st e oracle = (st', res, tr) -> sadv st st'.
Proof.
  intros st e oracle st' res tr H. unfold exec_rpc in H.
  destruct (k_kind (p_rpc e) =? K_Write).
  { destruct (ts_write _ _ _ _ _ _ _) as [reps c]. inversion H; subst. apply same_dur_sadv; reflexivity. }
  destruct (k_kind (p_rpc e) =? K_Create).
  { destruct (ts_create _ _ _ _ _ _ _) as [reps c]. inversion H; subst. apply same_dur_sadv; reflexivity. }
  destruct (k_kind (p_rpc e) =? K_Read).
  { destruct (ts_read _ _ _ _ _ _) as [[c n] runs]. inversion H; subst. apply sadv_refl. }
  destruct (k_kind (p_rpc e) =? K_SetVersion).
  { destruct (ts_setversion _ _ _ _ _) as [reps c]. inversion H; subst. apply same_dur_sadv; reflexivity. }
  destruct (k_kind (p_rpc e) =? K_PullTract).
  { destruct (ts_pull _ _ _ _ _ _ _) as [reps c]. inversion H; subst. apply same_dur_sadv; reflexivity. }
  destruct (k_kind (p_rpc e) =? K_StatBlob).
  { destruct (zget (s_blobs st) (k_blob (p_rpc e))) as [[a b]|]; inversion H; subst; apply sadv_refl. }
  destruct (k_kind (p_rpc e) =? K_GetTracts).
  { destruct (exec_gettracts st (p_rpc e)) as [r0 t0]. inversion H; subst. apply sadv_refl. }
  destruct (k_kind (p_rpc e) =? K_ExtendBlob).
  { destruct (exec_extend st (p_rpc e) oracle) as [r0 t0]. inversion H; subst. apply sadv_refl. }
  destruct (k_kind (p_rpc e) =? K_AckExtend).
  { pose proof (sadv_ack_extend st (k_blob (p_rpc e)) (decode_tracts false (k_aux (p_rpc e)))) as EV.
    destruct (ack_extend _ _ _) as [s1 c]. inversion H; subst. exact EV. }
  destruct (k_kind (p_rpc e) =? K_ReportBadTS); inversion H; subst; apply sadv_refl.
Qed.

Lemma sadv_fold_victims : forall victims s,
  sadv s (fold_left (fun s x => flush 8 (resume s x false []) []) victims s).
Proof.
  induction victims as [|v victims IH]; intros s; cbn [fold_left]; [apply sadv_refl|].
  eapply sadv_trans; [|apply IH]. eapply sadv_trans; [apply sadv_resume | apply sadv_flush].
Qed.

Lemma sadv_step_exec : forall st mode r, sadv st (fst (step_exec st mode r)).
Proof.
  intros st mode r. unfold step_exec.
  destruct (parse_rpc r) as [[rp r1]|]; [|apply sadv_refl].
  destruct r1 as [|nh r2]; [apply sadv_refl|].
  destruct (take nh r2) as [place r3].
  destruct (find_pent (s_pool st) rp 0) as [e|]; [|apply sadv_refl].
  destruct (mode =? 4).
  { cbn [fst]. eapply sadv_trans; [apply sadv_resume | apply sadv_flush]. }
  destruct (mode =? 6).
  { destruct (negb (k_kind rp =? K_PullTract)); [apply sadv_refl|]. cbn [fst].
    match goal with |- context [set_reps st ?x] => set (st1 := set_reps st x) end.
    eapply sadv_trans; [apply (same_dur_sadv st st1); reflexivity|].
    eapply sadv_trans; [apply sadv_resume|]. eapply sadv_trans; [apply sadv_flush | apply sadv_fold_victims]. }
  destruct (k_kind rp =? K_FixVersion).
  { cbn [fst].
    set (sa := set_pool st (pool_update (s_pool st) (set_pent e 1 [] [] (mode =? 2) (negb (mode =? 5))))).
    set (sb := set_nsynth sa (s_nsynth st + 1)).
    eapply sadv_trans; [apply (same_dur_sadv st sb); reflexivity|].
    eapply sadv_trans; [apply quiet_sadv, quiet_start_task | apply sadv_flush]. }
  destruct (exec_rpc st e place) as [[st1 res] tr] eqn:X1.
  pose proof (sadv_exec _ _ _ _ _ _ X1) as E1.
  destruct (mode =? 3).
  - destruct (exec_rpc st1 e place) as [[st1b res2] tr2] eqn:X2. cbn [fst].
    pose proof (sadv_exec _ _ _ _ _ _ X2) as E2.
    eapply sadv_trans; [exact E1|]. eapply sadv_trans; [exact E2|].
    eapply sadv_trans; [|apply sadv_flush]. apply same_dur_sadv; reflexivity.
  - cbn [fst]. eapply sadv_trans; [exact E1|]. eapply sadv_trans; [|apply sadv_flush]. apply same_dur_sadv; reflexivity.
Qed.

(* event 2 (a blob is created): tract records untouched, exactly one blob id comes into being *)
Lemma newblob_step : forall st a,
  s_dtr (fst (step st (2 :: a))) = s_dtr st /\
  forall b, zget (s_blobs st) b = None -> zget (s_blobs (fst (step st (2 :: a)))) b = None \/ hd 0 a = b.
Proof.
  intros st a. unfold step.
  destruct (2 =? 1) eqn:E1; [cbv in E1; discriminate E1|]. destruct (2 =? 2) eqn:E2; [|cbv in E2; discriminate E2]. clear E1 E2.
  destruct a as [|x [|y [|z a]]]; cbn [fst s_dtr s_blobs set_out hd]; try (split; [reflexivity | intros b H; left; exact H]).
  destruct (zget (s_blobs st) x) eqn:G; cbn [fst s_dtr s_blobs set_out]; [split; [reflexivity | intros b H; left; exact H]|].
  split; [reflexivity|]. intros b H. cbn [s_blobs set_blobs set_out]. destruct (Z.eq_dec b x) as [E|N]; [right; auto|].
  left. rewrite zget_zset_other by auto. exact H.
Qed.

Theorem sadv_step : forall st ev, hd 0 ev <> 2 -> sadv st (fst (step st ev)).
Proof.
  intros st ev NE. unfold step.
  eapply sadv_trans; [apply (same_dur_sadv st (set_out st [])); reflexivity|].
  set (s := set_out st []). clearbody s.
  assert (SAME : forall s', s_blobs s' = s_blobs s -> s_dtr s' = s_dtr s -> sadv s s') by (intros; now apply same_dur_sadv).
  destruct ev as [|c a]; [apply sadv_refl|].
  destruct (c =? 1). { destruct a; apply SAME; reflexivity. }
  destruct (c =? 2) eqn:C2. { apply Z.eqb_eq in C2. subst c. cbn in NE. contradiction. }
  destruct (c =? 3). { destruct a as [|x1 [|x2 [|x3 [|x4 [|x5 [|x6 [|x7 a]]]]]]]; apply SAME; reflexivity. }
  destruct (c =? 4). { destruct a as [|x1 [|x2 [|x3 [|x4 [|x5 [|x6 a]]]]]]; apply SAME; reflexivity. }
  destruct (c =? 5).
  { destruct a as [|x1 [|x2 [|x3 [|x4 [|x5 a]]]]]; try apply sadv_refl.
    destruct (take x5 a) as [bad rest]. cbn [fst].
    eapply sadv_trans; [apply quiet_sadv, quiet_start_task | apply sadv_flush]. }
  destruct (c =? 6).
  { destruct a as [|x1 [|x2 [|x3 [|x4 [|x5 [|x6 [|x7 a]]]]]]]; try apply sadv_refl. cbn [fst].
    eapply sadv_trans; [apply quiet_sadv, quiet_start_task | apply sadv_flush]. }
  destruct (c =? 7). { destruct a as [|mode rest]; [apply sadv_refl|]. apply sadv_step_exec. }
  destruct (c =? 8).
  { destruct a as [|lose r]; [apply sadv_refl|]. unfold step_reply.
    destruct (parse_rpc r) as [[rp r1]|]; [|apply sadv_refl].
    destruct (find_pent (s_pool s) rp 2) as [e|]; [|apply sadv_refl]. cbn [fst].
    eapply sadv_trans; [apply sadv_resume | apply sadv_flush]. }
  destruct (c =? 9).
  { destruct a as [|ts [|y a]]; try apply sadv_refl. unfold step_restart. cbn [fst]. apply sadv_fold_victims. }
  destruct (c =? 10). { destruct a; apply SAME; reflexivity. }
  destruct (c =? 11). { destruct a as [|ts [|y a]]; apply SAME; reflexivity. }
  destruct (c =? 12).
  { destruct a as [|x1 [|x2 [|x3 [|x4 [|x5 a]]]]]; try apply sadv_refl. unfold step_probe.
    destruct (tget (s_dtr s) (tkey x1 x2)) as [[ver hosts]|]; [|apply sadv_refl].
    destruct ((x3 =? 1) && (x4 =? 0)); [apply sadv_refl|].
    match goal with |- context [change_tract ?a ?b ?c ?d ?e ?f] =>
      pose proof (sadv_change_tract a b c d e f) as H; destruct (change_tract a b c d e f) end.
    cbn [fst] in *. exact H. }
  destruct (c =? 13).
  { unfold step_issue. destruct (parse_rpc a) as [[rp r1]|]; [|apply sadv_refl].
    destruct (issue_allowed s rp); apply SAME; reflexivity. }
  destruct (c =? 14).
  { destruct a as [|x1 [|x2 [|x3 a]]]; try apply sadv_refl. unfold step_finclient.
    repeat match goal with
           | |- context [match ?x with _ => _ end] => destruct x eqn:?
           | |- context [if ?x then _ else _] => destruct x eqn:?
           end; apply SAME; reflexivity. }
  destruct (c =? 15). { destruct a as [|op [|y a]]; try apply sadv_refl. destruct (zget (s_fin s) op); apply SAME; reflexivity. }
  destruct (c =? 16).
  { unfold step_rpcdone. repeat match goal with
                                | |- context [match ?x with _ => _ end] => destruct x eqn:?
                                end; apply SAME; reflexivity. }
  destruct (c =? 17).
  { unfold step_inject. destruct (parse_rpc a) as [[rp r1]|]; [|apply sadv_refl].
    destruct ((k_cli rp <? 0) && _); apply SAME; reflexivity. }
  apply sadv_refl.
Qed.
