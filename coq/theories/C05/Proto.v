(* C05/Proto.v — the protocol-level transition system the C05 theorems are about.

   The decisions are the transcribed ones of GC.v (check_one_f / check_for_garbage_f = CheckForGarbage +
   filterPendingPieces, gc_removals = Store.GCTracts); around them the state and the events that matter
   for garbage collection:

     durable state  : blobs (GetBlobAll view: number of tracts, "marked deleted" flag), tract records
                      (version, hosts), RS chunks (hosts per piece); blob ids come from a counter and are
                      never reused
     tractservers   : (server, tract) -> version of the copy held
     soup           : every GC instruction ever computed.  Instructions are NEVER removed from the soup and
                      PDeliver may name any of them at any time: late, repeated and out-of-order delivery
                      are all words of the alphabet
     repairs        : replicateTract as three events — start (reads the durable version), ack (a survivor's
                      bump or a new host's pull was acknowledged at version+1), commit (ChangeTract under
                      the old+1 rule with hosts among the acknowledged servers) — so a GC instruction may
                      execute between an acknowledgement and the commit
     creation       : PCreate = a client creating a tract ExtendBlob allocated, before PExtend (= AckExtend)
     RS             : commit of a chunk, begin/write/update/abort of an encode or reconstruction with the
                      pendingPieces set of the current leader incarnation, leader change (set emptied)

   Guards that stand for facts owned by other properties are spelled out at the event:
     PPull   : the target is not a current host of the tract (the F21 case of C01 is carved out), the
               version is at most durable+1 (C01 replica_at_most_one_ahead)
     PCreate : the tract is not durable yet (re-creating a lost copy of a durable tract is C04's repair)
     PReport / PCreate / PPull : regular tract ids belong to blobs that were created (ids come from the curator) *)
From Coq Require Import List ZArith Bool Lia.
From BLB Require Import Gen.Consts C05.GC.
Import ListNotations.
Open Scope Z_scope.

Definition rkey := (Z * tid)%type.
Definition rk_eqb (a b : rkey) : bool := (fst a =? fst b) && tid_eqb (snd a) (snd b).

Lemma rk_eqb_eq : forall a b, rk_eqb a b = true <-> a = b.
Proof.
  intros [a1 a2] [b1 b2]. unfold rk_eqb; cbn. rewrite andb_true_iff, Z.eqb_eq, tid_eqb_eq. split.
  - intros [-> ->]; reflexivity.
  - intros H; inversion H; auto.
Qed.

Record pinstr := { pi_ts : Z; pi_old : list (tid * Z); pi_gone : list tid;
                   pi_chunks : list (Z * list Z) (* ghost: the chunk table the instruction was computed against *) }.
Record ptask := { pt_t : tid; pt_dv : Z; pt_acked : list Z }.

Record pstate := {
  p_next : Z;
  p_blob : Z -> option Z;
  p_del : Z -> bool;
  p_tr : tid -> option (Z * list Z);
  p_chunks : list (Z * list Z);
  p_rep : rkey -> option Z;
  p_soup : list pinstr;
  p_tasks : list ptask;
  p_pend : list tid
}.

Definition pinit : pstate :=
  {| p_next := 0; p_blob := fun _ => None; p_del := fun _ => false; p_tr := fun _ => None; p_chunks := [];
     p_rep := fun _ => None; p_soup := []; p_tasks := []; p_pend := [] |}.

Inductive pev :=
| PNewBlob
| PExtend (b : Z) (hosts : list Z)
| PCreate (s : Z) (t : tid)
| PBump (s : Z) (t : tid)
| PPull (s : Z) (t : tid) (v : Z)
| PTaskStart (t : tid)
| PAck (k : nat) (s : Z)
| PCommit (k : nat) (hosts : list Z)
| PDelete (b : Z)
| PUndelete (b : Z)
| PFinish (b : Z)
| PReport (s : Z) (ids : list tid)
| PDeliver (k : nat) (fault : bool) (recv : Z)   (* recv: the tractserver the request reaches; it carries the id it was computed for *)
| PLeader
| PRSCommit (base : Z) (hosts : list Z)
| PRSBegin (base : Z) (n : Z)
| PRSWrite (s : Z) (p : Z)
| PRSUpdate (base : Z) (hosts : list Z)
| PRSAbort (base : Z) (n : Z).

Definition fupd {A} (m : Z -> option A) (k : Z) (v : option A) : Z -> option A := fun k' => if k' =? k then v else m k'.
Definition tupd {A} (m : tid -> option A) (k : tid) (v : option A) : tid -> option A := fun k' => if tid_eqb k' k then v else m k'.
Definition rupd (m : rkey -> option Z) (k : rkey) (v : option Z) : rkey -> option Z := fun k' => if rk_eqb k' k then v else m k'.

Definition set_rep st r := {| p_next := p_next st; p_blob := p_blob st; p_del := p_del st; p_tr := p_tr st; p_chunks := p_chunks st;
                              p_rep := r; p_soup := p_soup st; p_tasks := p_tasks st; p_pend := p_pend st |}.
Definition set_tr st tr := {| p_next := p_next st; p_blob := p_blob st; p_del := p_del st; p_tr := tr; p_chunks := p_chunks st;
                              p_rep := p_rep st; p_soup := p_soup st; p_tasks := p_tasks st; p_pend := p_pend st |}.
Definition set_tasks st l := {| p_next := p_next st; p_blob := p_blob st; p_del := p_del st; p_tr := p_tr st; p_chunks := p_chunks st;
                              p_rep := p_rep st; p_soup := p_soup st; p_tasks := l; p_pend := p_pend st |}.
Definition set_del st d := {| p_next := p_next st; p_blob := p_blob st; p_del := d; p_tr := p_tr st; p_chunks := p_chunks st;
                              p_rep := p_rep st; p_soup := p_soup st; p_tasks := p_tasks st; p_pend := p_pend st |}.
Definition set_pend st l := {| p_next := p_next st; p_blob := p_blob st; p_del := p_del st; p_tr := p_tr st; p_chunks := p_chunks st;
                              p_rep := p_rep st; p_soup := p_soup st; p_tasks := p_tasks st; p_pend := l |}.
Definition set_chunks st c := {| p_next := p_next st; p_blob := p_blob st; p_del := p_del st; p_tr := p_tr st; p_chunks := c;
                              p_rep := p_rep st; p_soup := p_soup st; p_tasks := p_tasks st; p_pend := p_pend st |}.

Definition id_ok (st : pstate) (t : tid) : bool := is_rs t || ((0 <=? fst t) && (fst t <? p_next st)).

(* what a delivery removes at its server: Store.GCTracts *)
Definition removals (st : pstate) (k : nat) (fault : bool) : list rkey :=
  match nth_error (p_soup st) k with
  | None => []
  | Some i => map (fun t => (pi_ts i, t))
                  (gc_removals (fun t => p_rep st (pi_ts i, t)) (map (fun o => (o, fault)) (pi_old i)) (pi_gone i))
  end.

(* TSCtlHandler.GCTract refuses a request stamped with another tractserver's id: nothing is removed *)
Definition removals_at (st : pstate) (k : nat) (fault : bool) (recv : Z) : list rkey :=
  match nth_error (p_soup st) k with
  | Some i => if recv =? pi_ts i then removals st k fault else []
  | None => []
  end.

Lemma removals_at_sub : forall st k f r x, In x (removals_at st k f r) -> In x (removals st k f).
Proof. intros st k f r x H. unfold removals_at in H. destruct (nth_error (p_soup st) k) as [i|]; [|contradiction]. destruct (r =? pi_ts i); [exact H|contradiction]. Qed.

Definition pieces (base n : Z) : list tid := map (fun i => (-2, base + Z.of_nat i)) (seq 0 (Z.to_nat n)).

Fixpoint set_nth_task (l : list ptask) (k : nat) (t : ptask) : list ptask :=
  match l, k with
  | [], _ => []
  | _ :: r, O => t :: r
  | a :: r, S k' => a :: set_nth_task r k' t
  end.

Definition pstep (st : pstate) (ev : pev) : pstate :=
  match ev with
  | PNewBlob =>
      {| p_next := p_next st + 1; p_blob := fupd (p_blob st) (p_next st) (Some 0); p_del := p_del st; p_tr := p_tr st;
         p_chunks := p_chunks st; p_rep := p_rep st; p_soup := p_soup st; p_tasks := p_tasks st; p_pend := p_pend st |}
  | PExtend b hosts =>
      match p_blob st b with
      | Some nt => if 0 <=? nt then
                   {| p_next := p_next st; p_blob := fupd (p_blob st) b (Some (nt + 1)); p_del := p_del st;
                      p_tr := tupd (p_tr st) (b, nt) (Some (1, hosts)); p_chunks := p_chunks st; p_rep := p_rep st;
                      p_soup := p_soup st; p_tasks := p_tasks st; p_pend := p_pend st |} else st
      | None => st
      end
  | PCreate s t =>
      if negb (is_rs t) && id_ok st t then
        match p_tr st t, p_rep st (s, t) with
        | None, None => set_rep st (rupd (p_rep st) (s, t) (Some 1))
        | _, _ => st
        end
      else st
  | PBump s t =>
      match p_tr st t, p_rep st (s, t) with
      | Some (dv, _), Some rv => if rv <=? dv then set_rep st (rupd (p_rep st) (s, t) (Some (rv + 1))) else st
      | _, _ => st
      end
  | PPull s t v =>
      match p_tr st t with
      | Some (dv, hs) =>
          if negb (zmem s hs) && (1 <=? v) && (v <=? dv + 1) &&
             match p_rep st (s, t) with Some rv => rv <=? v | None => true end
          then set_rep st (rupd (p_rep st) (s, t) (Some v)) else st
      | None => st
      end
  | PTaskStart t =>
      match p_tr st t with
      | Some (dv, _) => set_tasks st (p_tasks st ++ [{| pt_t := t; pt_dv := dv; pt_acked := [] |}])
      | None => st
      end
  | PAck k s =>
      match nth_error (p_tasks st) k with
      | Some t => match p_rep st (s, pt_t t) with
                  | Some rv => if rv =? pt_dv t + 1
                               then set_tasks st (set_nth_task (p_tasks st) k {| pt_t := pt_t t; pt_dv := pt_dv t; pt_acked := s :: pt_acked t |})
                               else st
                  | None => st
                  end
      | None => st
      end
  | PCommit k hosts =>
      match nth_error (p_tasks st) k with
      | Some t => match p_tr st (pt_t t) with
                  | Some (dv, _) => if (dv =? pt_dv t) && forallb (fun h => zmem h (pt_acked t)) hosts
                                    then set_tr st (tupd (p_tr st) (pt_t t) (Some (dv + 1, hosts))) else st
                  | None => st
                  end
      | None => st
      end
  | PDelete b => match p_blob st b with Some _ => set_del st (fun x => if x =? b then true else p_del st x) | None => st end
  | PUndelete b => match p_blob st b with Some _ => set_del st (fun x => if x =? b then false else p_del st x) | None => st end
  | PFinish b =>
      if p_del st b then
        {| p_next := p_next st; p_blob := fupd (p_blob st) b None; p_del := p_del st;
           p_tr := fun t => if fst t =? b then None else p_tr st t; p_chunks := p_chunks st; p_rep := p_rep st;
           p_soup := p_soup st; p_tasks := filter (fun t => negb (fst (pt_t t) =? b)) (p_tasks st); p_pend := p_pend st |}
      else st
  | PReport s ids =>
      if forallb (id_ok st) ids then
        let '(old, gone) := check_for_garbage_f (p_blob st) (p_tr st) (p_chunks st) (p_pend st) s ids in
        {| p_next := p_next st; p_blob := p_blob st; p_del := p_del st; p_tr := p_tr st; p_chunks := p_chunks st; p_rep := p_rep st;
           p_soup := p_soup st ++ [{| pi_ts := s; pi_old := old; pi_gone := gone; pi_chunks := p_chunks st |}];
           p_tasks := p_tasks st; p_pend := p_pend st |}
      else st
  | PDeliver k fault recv =>
      set_rep st (fold_left (fun m key => rupd m key None) (removals_at st k fault recv) (p_rep st))
  | PLeader => set_pend st []
  | PRSCommit base hosts => set_chunks st ((base, hosts) :: p_chunks st)
  | PRSBegin base n => set_pend st (pieces base n ++ p_pend st)
  | PRSWrite s p => set_rep st (rupd (p_rep st) (s, (-2, p)) (Some c05_RSChunkVersion))
  | PRSUpdate base hosts =>
      set_pend (set_chunks st (map (fun c => if fst c =? base then (base, hosts) else c) (p_chunks st)))
               (filter (fun t => negb (tmem t (pieces base (Z.of_nat (length hosts))))) (p_pend st))
  | PRSAbort base n => set_pend st (filter (fun t => negb (tmem t (pieces base n))) (p_pend st))
  end.

Fixpoint prun (st : pstate) (evs : list pev) : pstate :=
  match evs with [] => st | e :: r => prun (pstep st e) r end.

(* ------------------------------------------------------------------ the invariant *)
Definition regular (t : tid) : Prop := is_rs t = false.

Record Inv (st : pstate) : Prop := {
  iP : 0 <= p_next st;
  iE : forall b nt, p_blob st b = Some nt -> 0 <= b < p_next st /\ 0 <= nt;
  iD : forall t dv hs, p_tr st t = Some (dv, hs) ->
         regular t /\ 1 <= dv /\ exists nt, p_blob st (fst t) = Some nt /\ 0 <= snd t < nt;
  iA : forall i t v, In i (p_soup st) -> In (t, v) (pi_old i) ->
         regular t /\ fst t < p_next st /\
         forall nt, p_blob st (fst t) = Some nt ->
           snd t < nt /\ forall dv hs, p_tr st t = Some (dv, hs) -> v <= dv /\ (In (pi_ts i) hs -> v < dv);
  iB : forall i t, In i (p_soup st) -> In t (pi_gone i) -> regular t -> p_blob st (fst t) = None /\ fst t < p_next st;
  iV : forall s t rv, p_rep st (s, t) = Some rv -> regular t -> 1 <= rv;
  iW : forall s t dv hs rv, p_tr st t = Some (dv, hs) -> In s hs -> p_rep st (s, t) = Some rv -> dv <= rv;
  iT : forall k, In k (p_tasks st) ->
         exists dv hs, p_tr st (pt_t k) = Some (dv, hs) /\ pt_dv k <= dv /\
           (dv = pt_dv k -> forall s, In s (pt_acked k) -> exists rv, p_rep st (s, pt_t k) = Some rv /\ pt_dv k + 1 <= rv)
}.

Lemma zmem_In : forall x l, zmem x l = true <-> In x l.
Proof.
  intros x l. unfold zmem. rewrite existsb_exists. split.
  - intros (y & H & E). apply Z.eqb_eq in E. subst; auto.
  - intros H. exists x. split; auto. apply Z.eqb_refl.
Qed.

Lemma inv_init : Inv pinit.
Proof. constructor; cbn; intros; try discriminate; try contradiction; lia. Qed.

(* what a delivery may remove, read off the invariant: the heart of the safety argument *)
Lemma removals_spec : forall st k f s t,
  In (s, t) (removals st k f) ->
  exists i, nth_error (p_soup st) k = Some i /\ s = pi_ts i /\
    ((exists v rv, In (t, v) (pi_old i) /\ p_rep st (s, t) = Some rv /\ rv <= v /\ f = false) \/
     (In t (pi_gone i) /\ p_rep st (s, t) <> None)).
Proof.
  intros st k f s t H. unfold removals in H. destruct (nth_error (p_soup st) k) as [i|] eqn:E; [|contradiction].
  exists i. split; auto. apply in_map_iff in H. destruct H as (t' & Heq & Hin). inversion Heq; subst. split; auto.
  unfold gc_removals in Hin. apply in_app_iff in Hin. destruct Hin as [Hin|Hin].
  - left. apply in_map_iff in Hin. destruct Hin as (o & Ho & Hf). apply filter_In in Hf. destruct Hf as [Hm Hr].
    apply in_map_iff in Hm. destruct Hm as (o' & Ho' & Hin'). subst o. cbn in *. subst t.
    destruct o' as [t v]. cbn in *. unfold old_removes in Hr. cbn in Hr.
    destruct (p_rep st (pi_ts i, t)) as [rv|] eqn:R; [|discriminate].
    apply andb_true_iff in Hr. destruct Hr as [Hf Hv]. exists v, rv. repeat split; auto.
    + apply Z.leb_le; exact Hv.
    + destruct f; [discriminate|reflexivity].
  - right. apply filter_In in Hin. destruct Hin as [Hg Hp]. split; auto.
    destruct (p_rep st (pi_ts i, t)); [discriminate|discriminate].
Qed.

(* the safety statement for one delivery, from the invariant *)
Lemma deliver_safe : forall st k f s t,
  Inv st -> In (s, t) (removals st k f) -> regular t ->
  match p_blob st (fst t) with
  | None => True
  | Some nt => snd t < nt /\ forall dv hs, p_tr st t = Some (dv, hs) -> ~ In s hs
  end.
Proof.
  intros st k f s t I H R. destruct (removals_spec _ _ _ _ _ H) as (i & Hn & -> & [(v & rv & Ho & Hr & Hle & _) | (Hg & _)]).
  - apply nth_error_In in Hn. destruct (iA st I i t v Hn Ho) as (_ & _ & HA).
    destruct (p_blob st (fst t)) as [nt|] eqn:B; [|trivial].
    destruct (HA nt eq_refl) as [Hlt HT]. split; auto. intros dv hs Htr Hin.
    destruct (HT dv hs Htr) as [_ Hs]. specialize (Hs Hin).
    pose proof (iW st I _ _ _ _ _ Htr Hin Hr). lia.
  - apply nth_error_In in Hn. destruct (iB st I i t Hn Hg R) as [B _]. rewrite B. trivial.
Qed.

(* a delivery never removes a copy that is ahead of the durable version (an acknowledged, uncommitted repair) *)
Lemma deliver_keeps_ahead : forall st k f s t dv hs rv,
  Inv st -> p_tr st t = Some (dv, hs) -> p_rep st (s, t) = Some rv -> dv < rv ->
  ~ In (s, t) (removals st k f).
Proof.
  intros st k f s t dv hs rv I Htr Hr Hlt Hin.
  destruct (iD st I _ _ _ Htr) as (R & _ & nt & B & Hidx).
  destruct (removals_spec _ _ _ _ _ Hin) as (i & Hn & E & [(v & rv' & Ho & Hr' & Hle & _) | (Hg & _)]); subst s.
  - rewrite Hr in Hr'. inversion Hr'; subst rv'. apply nth_error_In in Hn.
    destruct (iA st I i t v Hn Ho) as (_ & _ & HA). destruct (HA nt B) as [_ HT].
    destruct (HT dv hs Htr) as [Hv _]. lia.
  - apply nth_error_In in Hn. destruct (iB st I i t Hn Hg R) as [B' _]. congruence.
Qed.

Lemma fold_rupd_none : forall l m key,
  fold_left (fun m0 k0 => rupd m0 k0 None) l m key = if existsb (rk_eqb key) l then None else m key.
Proof.
  induction l as [|a r IH]; intros m key; cbn; [reflexivity|].
  rewrite IH. unfold rupd. destruct (rk_eqb key a) eqn:E; cbn.
  - destruct (existsb (rk_eqb key) r); reflexivity.
  - reflexivity.
Qed.

Lemma deliver_rep : forall st k f r key,
  p_rep (pstep st (PDeliver k f r)) key = if existsb (rk_eqb key) (removals_at st k f r) then None else p_rep st key.
Proof. intros. cbn. apply fold_rupd_none. Qed.

Lemma deliver_rep_some : forall st k f r key rv,
  p_rep (pstep st (PDeliver k f r)) key = Some rv -> p_rep st key = Some rv.
Proof. intros st k f r key rv H. rewrite deliver_rep in H. destruct (existsb _ _); [discriminate|auto]. Qed.

Lemma existsb_rk_In : forall key l, existsb (rk_eqb key) l = true <-> In key l.
Proof.
  intros key l. rewrite existsb_exists. split.
  - intros (y & H & E). apply rk_eqb_eq in E. subst; auto.
  - intros H. exists key. split; auto. apply rk_eqb_eq. reflexivity.
Qed.

(* ------------------------------------------------------------------ preservation, event by event *)
Lemma inv_same : forall st st',
  p_next st' = p_next st -> p_blob st' = p_blob st -> p_tr st' = p_tr st -> p_rep st' = p_rep st ->
  p_soup st' = p_soup st -> p_tasks st' = p_tasks st -> Inv st -> Inv st'.
Proof.
  intros st st' H1 H2 H3 H4 H5 H6 [P E D A B V W T].
  constructor; rewrite ?H1, ?H2, ?H3, ?H4, ?H5, ?H6; auto.
Qed.

Lemma fupd_eq : forall A (m : Z -> option A) k v, fupd m k v k = v.
Proof. intros. unfold fupd. rewrite Z.eqb_refl. reflexivity. Qed.
Lemma fupd_neq : forall A (m : Z -> option A) k v k', k' <> k -> fupd m k v k' = m k'.
Proof. intros. unfold fupd. destruct (k' =? k) eqn:E; auto. apply Z.eqb_eq in E. contradiction. Qed.
Lemma tupd_eq : forall A (m : tid -> option A) k v, tupd m k v k = v.
Proof. intros. unfold tupd. rewrite tid_eqb_refl. reflexivity. Qed.
Lemma tupd_neq : forall A (m : tid -> option A) k v k', k' <> k -> tupd m k v k' = m k'.
Proof. intros. unfold tupd. destruct (tid_eqb k' k) eqn:E; auto. apply tid_eqb_eq in E. contradiction. Qed.
Lemma rupd_eq : forall m k v, rupd m k v k = v.
Proof. intros. unfold rupd. replace (rk_eqb k k) with true; auto. symmetry. apply rk_eqb_eq. reflexivity. Qed.
Lemma rupd_neq : forall m k v k', k' <> k -> rupd m k v k' = m k'.
Proof. intros. unfold rupd. destruct (rk_eqb k' k) eqn:E; auto. apply rk_eqb_eq in E. contradiction. Qed.

Lemma inv_newblob : forall st, Inv st -> Inv (pstep st PNewBlob).
Proof.
  intros st [P E D A B V W T]. constructor; cbn.
  - lia.
  - intros b nt H. unfold fupd in H. destruct (b =? p_next st) eqn:Q.
    + apply Z.eqb_eq in Q. inversion H. subst. lia.
    + destruct (E _ _ H). lia.
  - intros t dv hs H. destruct (D _ _ _ H) as (R & L & nt & Bn & Hi). repeat split; auto.
    exists nt. split; auto. rewrite fupd_neq; auto. destruct (E _ _ Bn). lia.
  - intros i t v Hi Ho. destruct (A _ _ _ Hi Ho) as (R & L & HA). split; [exact R|]. split; [lia|].
    intros nt Hb. rewrite fupd_neq in Hb by lia. auto.
  - intros i t Hi Hg R. destruct (B _ _ Hi Hg R) as [Bn L]. split; [|lia]. rewrite fupd_neq by lia. auto.
  - exact V.
  - exact W.
  - exact T.
Qed.

Lemma inv_extend : forall st b hosts, Inv st -> Inv (pstep st (PExtend b hosts)).
Proof.
  intros st b hosts I. pose proof I as [P E D A B V W T]. cbn.
  destruct (p_blob st b) as [nt|] eqn:Bb; [|exact I]. destruct (0 <=? nt) eqn:Hnt; [|exact I]. apply Z.leb_le in Hnt.
  assert (Hnone : p_tr st (b, nt) = None).
  { destruct (p_tr st (b, nt)) as [[dv hs]|] eqn:Q; auto. destruct (D _ _ _ Q) as (_ & _ & nt' & Bn & Hi). cbn in *. rewrite Bb in Bn. inversion Bn. lia. }
  constructor; cbn.
  - exact P.
  - intros b' nt' H. unfold fupd in H. destruct (b' =? b) eqn:Q.
    + apply Z.eqb_eq in Q. subst. inversion H. destruct (E _ _ Bb). lia.
    + eauto.
  - intros t dv hs H. unfold tupd in H. destruct (tid_eqb t (b, nt)) eqn:Q.
    + apply tid_eqb_eq in Q. subst t. inversion H; subst. cbn. split.
      * unfold regular, is_rs. cbn. destruct (E _ _ Bb). apply Z.eqb_neq. lia.
      * split; [lia|]. exists (nt + 1). rewrite fupd_eq. split; auto. lia.
    + destruct (D _ _ _ H) as (R & L & nt' & Bn & Hi). repeat split; auto.
      unfold fupd. destruct (fst t =? b) eqn:Q2.
      * apply Z.eqb_eq in Q2. rewrite Q2 in Bn. rewrite Bb in Bn. inversion Bn; subst nt'. exists (nt + 1). split; auto. lia.
      * exists nt'. split; auto.
  - intros i t v Hi Ho. destruct (A _ _ _ Hi Ho) as (R & L & HA). split; [exact R|]. split; [exact L|].
    intros nt' Hb. unfold fupd in Hb. destruct (fst t =? b) eqn:Q2.
    + apply Z.eqb_eq in Q2. inversion Hb; subst nt'. rewrite Q2 in HA. destruct (HA nt Bb) as [Hlt HT]. split; [lia|].
      intros dv hs Htr. rewrite tupd_neq in Htr; [auto|]. intros ->. cbn in Hlt. lia.
    + destruct (HA nt' Hb) as [Hlt HT]. split; auto. intros dv hs Htr. rewrite tupd_neq in Htr; [auto|].
      intros ->. cbn in Q2. rewrite Z.eqb_refl in Q2. discriminate.
  - intros i t Hi Hg R. destruct (B _ _ Hi Hg R) as [Bn L]. split; auto. unfold fupd. destruct (fst t =? b) eqn:Q2; auto.
    apply Z.eqb_eq in Q2. congruence.
  - exact V.
  - intros s t dv hs rv Htr Hin Hr. unfold tupd in Htr. destruct (tid_eqb t (b, nt)) eqn:Q.
    + apply tid_eqb_eq in Q. subst t. inversion Htr; subst. apply (V s (b, nt) rv Hr).
      unfold regular, is_rs. cbn. destruct (E _ _ Bb). apply Z.eqb_neq. lia.
    + eauto.
  - intros k Hk. destruct (T k Hk) as (dv & hs & Htr & Hle & HT). exists dv, hs. split; auto.
    rewrite tupd_neq; auto. intros Q. rewrite Q in Htr. congruence.
Qed.

Lemma inv_rep_update : forall st s t nv,
  Inv st ->
  (regular t -> 1 <= nv) ->
  (forall rv, p_rep st (s, t) = Some rv -> rv <= nv) ->
  (forall dv hs, p_tr st t = Some (dv, hs) -> In s hs -> dv <= nv) ->
  Inv (set_rep st (rupd (p_rep st) (s, t) (Some nv))).
Proof.
  intros st s t nv [P E D A B V W T] H1 H2 H3. constructor; cbn; auto.
  - intros s' t' rv Hr R. unfold rupd in Hr. destruct (rk_eqb (s', t') (s, t)) eqn:Q.
    + apply rk_eqb_eq in Q. inversion Q; subst. inversion Hr; subst. auto.
    + eauto.
  - intros s' t' dv hs rv Htr Hin Hr. unfold rupd in Hr. destruct (rk_eqb (s', t') (s, t)) eqn:Q.
    + apply rk_eqb_eq in Q. inversion Q; subst. inversion Hr; subst. eauto.
    + eauto.
  - intros k Hk. destruct (T k Hk) as (dv & hs & Htr & Hle & HT). exists dv, hs. repeat split; auto.
    intros Hd s' Hs'. destruct (HT Hd s' Hs') as (rv & Hr & Hge). unfold rupd.
    destruct (rk_eqb (s', pt_t k) (s, t)) eqn:Q.
    + apply rk_eqb_eq in Q. inversion Q; subst. exists nv. split; auto. specialize (H2 _ Hr). lia.
    + exists rv. split; auto.
Qed.

Lemma inv_create : forall st s t, Inv st -> Inv (pstep st (PCreate s t)).
Proof.
  intros st s t I. cbn. destruct (negb (is_rs t) && id_ok st t); [|exact I].
  destruct (p_tr st t) eqn:Htr; [exact I|]. destruct (p_rep st (s, t)) eqn:Hr; [exact I|].
  apply inv_rep_update; auto; try lia; intros; congruence.
Qed.

Lemma inv_bump : forall st s t, Inv st -> Inv (pstep st (PBump s t)).
Proof.
  intros st s t I. cbn. destruct (p_tr st t) as [[dv hs]|] eqn:Htr; [|exact I].
  destruct (p_rep st (s, t)) as [rv|] eqn:Hr; [|exact I]. destruct (rv <=? dv) eqn:Q; [|exact I]. apply Z.leb_le in Q.
  apply inv_rep_update; auto.
  - intros R. pose proof (iV st I _ _ _ Hr R). lia.
  - intros rv' H. rewrite Hr in H. inversion H; subst. lia.
  - intros dv' hs' H Hin. rewrite Htr in H. inversion H; subst. pose proof (iW st I _ _ _ _ _ Htr Hin Hr). lia.
Qed.

Lemma inv_pull : forall st s t v, Inv st -> Inv (pstep st (PPull s t v)).
Proof.
  intros st s t v I. cbn. destruct (p_tr st t) as [[dv hs]|] eqn:Htr; [|exact I].
  match goal with |- Inv (if ?c then _ else _) => destruct c eqn:Q end; [|exact I].
  apply andb_true_iff in Q. destruct Q as [Q Q4]. apply andb_true_iff in Q. destruct Q as [Q Q3].
  apply andb_true_iff in Q. destruct Q as [Q1 Q2]. apply Z.leb_le in Q2.
  apply inv_rep_update; auto.
  - intros rv H. rewrite H in Q4. apply Z.leb_le in Q4. exact Q4.
  - intros dv' hs' H Hin. rewrite Htr in H. inversion H; subst. apply zmem_In in Hin. rewrite Hin in Q1. discriminate.
Qed.

Lemma inv_rswrite : forall st s p, Inv st -> Inv (pstep st (PRSWrite s p)).
Proof.
  intros st s p [P E D A B V W T]. constructor; cbn; auto.
  - intros s' t' rv Hr R. unfold rupd in Hr. destruct (rk_eqb (s', t') (s, (-2, p))) eqn:Q.
    + apply rk_eqb_eq in Q. inversion Q; subst. discriminate R.
    + eauto.
  - intros s' t' dv hs rv Htr Hin Hr. unfold rupd in Hr. destruct (rk_eqb (s', t') (s, (-2, p))) eqn:Q.
    + apply rk_eqb_eq in Q. inversion Q; subst. destruct (D _ _ _ Htr) as (R & _). discriminate R.
    + eauto.
  - intros k Hk. destruct (T k Hk) as (dv & hs & Htr & Hle & HT). exists dv, hs. repeat split; auto.
    intros Hd s' Hs'. destruct (HT Hd s' Hs') as (rv & Hr & Hge). exists rv. split; auto.
    rewrite rupd_neq; auto. intros Q. inversion Q as [[Q1 Q2]]. destruct (D _ _ _ Htr) as (R & _). rewrite Q2 in R. discriminate R.
Qed.

Lemma inv_taskstart : forall st t, Inv st -> Inv (pstep st (PTaskStart t)).
Proof.
  intros st t I. cbn. destruct (p_tr st t) as [[dv hs]|] eqn:Htr; [|exact I].
  pose proof I as [P E D A B V W T]. constructor; cbn; auto.
  intros k Hk. apply in_app_iff in Hk. destruct Hk as [Hk|[Hk|[]]]; [auto|]. subst k. cbn.
  exists dv, hs. split; auto. split; [lia|]. intros _ s [].
Qed.

Lemma set_nth_task_in : forall l k t x, In x (set_nth_task l k t) -> In x l \/ x = t.
Proof.
  induction l as [|a r IH]; intros k t x H; cbn in *; [contradiction|].
  destruct k; cbn in H.
  - destruct H; auto.
  - destruct H as [H|H]; auto. destruct (IH _ _ _ H); auto.
Qed.

Lemma inv_ack : forall st k s, Inv st -> Inv (pstep st (PAck k s)).
Proof.
  intros st k s I. cbn. destruct (nth_error (p_tasks st) k) as [tk|] eqn:Hn; [|exact I].
  destruct (p_rep st (s, pt_t tk)) as [rv|] eqn:Hr; [|exact I]. destruct (rv =? pt_dv tk + 1) eqn:Q; [|exact I].
  apply Z.eqb_eq in Q. pose proof I as [P E D A B V W T]. constructor; cbn; auto.
  intros x Hx. destruct (set_nth_task_in _ _ _ _ Hx) as [Hx'|Hx']; [auto|]. subst x. cbn.
  apply nth_error_In in Hn. destruct (T tk Hn) as (dv & hs & Htr & Hle & HT). exists dv, hs. repeat split; auto.
  intros Hd s' [Hs'|Hs']; [subst s'; exists rv; split; auto; lia | auto].
Qed.

Lemma inv_commit : forall st k hosts, Inv st -> Inv (pstep st (PCommit k hosts)).
Proof.
  intros st k hosts I. cbn. destruct (nth_error (p_tasks st) k) as [tk|] eqn:Hn; [|exact I].
  destruct (p_tr st (pt_t tk)) as [[dv hs0]|] eqn:Htr; [|exact I].
  match goal with |- Inv (if ?c then _ else _) => destruct c eqn:Q end; [|exact I].
  apply andb_true_iff in Q. destruct Q as [Q1 Q2]. apply Z.eqb_eq in Q1.
  apply nth_error_In in Hn. pose proof I as [P E D A B V W T]. constructor; cbn; auto.
  - intros t dv' hs H. unfold tupd in H. destruct (tid_eqb t (pt_t tk)) eqn:Q.
    + apply tid_eqb_eq in Q. rewrite Q. injection H as H1 H2. destruct (D _ _ _ Htr) as (R & L & X). repeat split; auto. lia.
    + eauto.
  - intros i t v Hi Ho. destruct (A _ _ _ Hi Ho) as (R & L & HA). split; [exact R|]. split; [exact L|].
    intros nt Hb. destruct (HA nt Hb) as [Hlt HT]. split; auto. intros dv' hs H. unfold tupd in H.
    destruct (tid_eqb t (pt_t tk)) eqn:Q.
    + apply tid_eqb_eq in Q. injection H as H1 H2. rewrite Q in HT. destruct (HT _ _ Htr). lia.
    + eauto.
  - intros s t dv' hs rv H Hin Hr. unfold tupd in H. destruct (tid_eqb t (pt_t tk)) eqn:Q.
    + apply tid_eqb_eq in Q. injection H as H1 H2. rewrite Q in Hr.
      destruct (T tk Hn) as (dv2 & hs2 & Htr2 & Hle & HT). rewrite Htr in Htr2. injection Htr2 as H3 H4.
      rewrite forallb_forall in Q2. rewrite <- H2 in Hin. specialize (Q2 _ Hin). apply zmem_In in Q2.
      assert (Hd : dv2 = pt_dv tk) by lia.
      destruct (HT Hd s Q2) as (rv' & Hr' & Hge). rewrite Hr in Hr'. injection Hr' as H5. lia.
    + eauto.
  - intros x Hx. destruct (T x Hx) as (dv2 & hs2 & Htr2 & Hle & HT). unfold tupd.
    destruct (tid_eqb (pt_t x) (pt_t tk)) eqn:Q.
    + apply tid_eqb_eq in Q. rewrite Q in Htr2. rewrite Htr in Htr2. injection Htr2 as H3 H4.
      exists (dv + 1), hosts. split; auto. split; [lia|]. intros Hd. lia.
    + exists dv2, hs2. auto.
Qed.

Lemma inv_finish : forall st b, Inv st -> Inv (pstep st (PFinish b)).
Proof.
  intros st b I. cbn. destruct (p_del st b); [|exact I]. pose proof I as [P E D A B V W T]. constructor; cbn; auto.
  - intros b' nt H. unfold fupd in H. destruct (b' =? b); [discriminate|eauto].
  - intros t dv hs H. destruct (fst t =? b) eqn:Q; [discriminate|]. destruct (D _ _ _ H) as (R & L & nt & Bn & Hi).
    repeat split; auto. exists nt. split; auto. unfold fupd. rewrite Q. auto.
  - intros i t v Hi Ho. destruct (A _ _ _ Hi Ho) as (R & L & HA). split; [exact R|]. split; [exact L|].
    intros nt Hb. unfold fupd in Hb. destruct (fst t =? b) eqn:Q; [discriminate|]. auto.
  - intros i t Hi Hg R. destruct (B _ _ Hi Hg R) as [Bn L]. split; auto. unfold fupd. destruct (fst t =? b); auto.
  - intros s t dv hs rv H. destruct (fst t =? b); [discriminate|eauto].
  - intros k Hk. apply filter_In in Hk. destruct Hk as [Hk Q]. apply negb_true_iff in Q. rewrite Q. auto.
Qed.

Lemma check_old_spec : forall st s t v,
  check_one_f (p_blob st) (p_tr st) (p_chunks st) s t = Old v ->
  regular t /\ exists nt hs, p_blob st (fst t) = Some nt /\ snd t < nt /\ p_tr st t = Some (v, hs) /\ ~ In s hs.
Proof.
  intros st s t v H. unfold check_one_f in H. destruct (is_rs t) eqn:R.
  - destruct (lookup_piece (p_chunks st) (snd t)) as [h|]; [destruct (h =? s)|]; discriminate.
  - split; [exact R|]. destruct (p_blob st (fst t)) as [nt|]; [|discriminate].
    destruct (nt <=? snd t) eqn:Q; [discriminate|]. apply Z.leb_gt in Q.
    destruct (p_tr st t) as [[v' hs]|]; [|discriminate]. destruct (zmem s hs) eqn:M; [discriminate|].
    inversion H; subst. exists nt, hs. repeat split; auto. intros Hin. apply zmem_In in Hin. congruence.
Qed.

Lemma check_gone_spec : forall st s t,
  check_one_f (p_blob st) (p_tr st) (p_chunks st) s t = Gone ->
  (regular t /\ p_blob st (fst t) = None) \/ (is_rs t = true /\ lookup_piece (p_chunks st) (snd t) <> Some s).
Proof.
  intros st s t H. unfold check_one_f in H. destruct (is_rs t) eqn:R.
  - right. split; auto. destruct (lookup_piece (p_chunks st) (snd t)) as [h|]; [|discriminate].
    destruct (h =? s) eqn:Q; [discriminate|]. apply Z.eqb_neq in Q. congruence.
  - left. split; [exact R|]. destruct (p_blob st (fst t)) as [nt|]; auto.
    destruct (nt <=? snd t); [discriminate|]. destruct (p_tr st t) as [[v' hs]|]; [|discriminate]. destruct (zmem s hs); discriminate.
Qed.

Lemma inv_report : forall st s ids, Inv st -> Inv (pstep st (PReport s ids)).
Proof.
  intros st s ids I. cbn. destruct (forallb (id_ok st) ids) eqn:G; [|exact I].
  unfold check_for_garbage_f. pose proof I as [P E D A B V W T]. constructor; cbn; auto.
  - intros i t v Hi Ho. apply in_app_iff in Hi. destruct Hi as [Hi|[Hi|[]]]; [eauto|]. subst i. cbn in *.
    destruct (olds_f_in _ _ _ _ _ _ _ Ho) as [_ Hc]. destruct (check_old_spec _ _ _ _ Hc) as (R & nt & hs & Bn & Hlt & Htr & Hnin).
    split; [exact R|]. split; [destruct (E _ _ Bn); lia|]. intros nt' Hb. rewrite Bn in Hb. inversion Hb; subst nt'.
    split; auto. intros dv hs' H. rewrite Htr in H. inversion H; subst. split; [lia|]. intros X. contradiction.
  - intros i t Hi Hg R. apply in_app_iff in Hi. destruct Hi as [Hi|[Hi|[]]]; [eauto|]. subst i. cbn in *.
    apply filter_In in Hg. destruct Hg as [Hg _]. destruct (gones_f_in _ _ _ _ _ _ Hg) as [Hin Hc].
    destruct (check_gone_spec _ _ _ Hc) as [[_ Bn]|[R' _]]; [|unfold regular in R; congruence].
    split; auto. rewrite forallb_forall in G. specialize (G _ Hin). unfold id_ok in G. rewrite R in G. cbn in G.
    apply andb_true_iff in G. destruct G as [_ G]. apply Z.ltb_lt in G. exact G.
Qed.

Lemma inv_deliver : forall st k f r, Inv st -> Inv (pstep st (PDeliver k f r)).
Proof.
  intros st k f r I. pose proof I as [P E D A B V W T]. constructor; auto.
  - intros s t rv Hr R. apply deliver_rep_some in Hr. eauto.
  - intros s t dv hs rv Htr Hin Hr. apply deliver_rep_some in Hr. cbn in Htr. eauto.
  - intros x Hx. cbn in Hx. destruct (T x Hx) as (dv & hs & Htr & Hle & HT). exists dv, hs. split; [exact Htr|]. split; auto.
    intros Hd s Hs. destruct (HT Hd s Hs) as (rv & Hr & Hge). exists rv. split; auto.
    rewrite deliver_rep. destruct (existsb (rk_eqb (s, pt_t x)) (removals_at st k f r)) eqn:Q; auto.
    apply existsb_rk_In in Q. apply removals_at_sub in Q. exfalso. eapply deliver_keeps_ahead; eauto. lia.
Qed.

Theorem inv_step : forall st ev, Inv st -> Inv (pstep st ev).
Proof.
  intros st ev I. destruct ev.
  - now apply inv_newblob.
  - now apply inv_extend.
  - now apply inv_create.
  - now apply inv_bump.
  - now apply inv_pull.
  - now apply inv_taskstart.
  - now apply inv_ack.
  - now apply inv_commit.
  - cbn. destruct (p_blob st b); auto. apply (inv_same st); auto.
  - cbn. destruct (p_blob st b); auto. apply (inv_same st); auto.
  - now apply inv_finish.
  - now apply inv_report.
  - now apply inv_deliver.
  - apply (inv_same st); auto.
  - apply (inv_same st); auto.
  - apply (inv_same st); auto.
  - now apply inv_rswrite.
  - apply (inv_same st); auto.
  - apply (inv_same st); auto.
Qed.

Theorem inv_run : forall evs st, Inv st -> Inv (prun st evs).
Proof. induction evs as [|e r IH]; cbn; intros st I; auto. apply IH. now apply inv_step. Qed.
