(* C05/LiftDel.v — the lifted C05 theorems with delete / undelete / metadata GC in the alphabet.

   C05.Model takes the records of a blob that is marked deleted out of the Cluster state (every Cluster rule
   then answers "no such blob", as the real curator does) and keeps them in x_del / x_deltr; a final deletion
   drops them (ghost x_dead remembers the id).  The Cluster invariants G / low (C01 builder, Cluster/{Visible,
   Lower}.v) do not hold on such a punctured state.  They are kept on a VIRTUAL Cluster state vst that still
   contains every record ever made: invariant  x_cl x = projd (hidden x) vst /\ G vst /\ low vst  where projd
   filters the records of the hidden (marked deleted or finally deleted) blobs out.

   Schedule predicate ok6_ev = Lift.ok5_ev plus events 42 (DeleteBlob), 43 (UndeleteBlob), 44 (scan of the
   metadata-GC loop), 45 (FinishDeleteBefore applied, with the cutoff re-check of the F18 fix), with ONE
   restriction: a Cluster event (code < 40) is admitted only while no blob is hidden (x_del = [] and x_dead = []).
   Reports and deliveries are admitted at all times.  (Lifting that restriction needs a non-interference theorem
   for Cluster.Model.step with respect to hidden blobs; see notes/C05.md.) *)
From Coq Require Import List ZArith Bool Lia.
From BLB Require Import Gen.Consts Cluster.Model Cluster.Proofs Cluster.Frame Cluster.Inv Cluster.Window
     Cluster.Attempts Cluster.Sched Cluster.Order Cluster.Contain Cluster.Visible Cluster.Lower.
From BLB Require C05.GC C05.Model.
From BLB Require Import C05.Strict C05.Lift C05.NonInt.
Import ListNotations.
Open Scope Z_scope.

(* ------------------------------------------------------------------ G and low only look the durable lists up *)
Section Eqv.
  Variable st : state.
  Variable B : list (Z * (Z * Z)).
  Variable D : list (tkt * (Z * list Z)).
  Hypothesis EB : forall b, zget B b = zget (s_blobs st) b.
  Hypothesis ED : forall k, tget D k = tget (s_dtr st) k.

  Let st' := set_dtr (set_blobs st B) D.

  Lemma eq_bound : forall tk v, bound st' tk v <-> bound st tk v.
  Proof. intros. unfold bound. cbn [s_dtr st' set_dtr set_blobs]. rewrite ED. tauto. Qed.
  Lemma eq_bound1 : forall tk v, bound1 st' tk v <-> bound1 st tk v.
  Proof. intros. unfold bound1. cbn [s_dtr st' set_dtr set_blobs]. rewrite ED. tauto. Qed.
  Lemma eq_durb : forall tk v, durb st' tk v <-> durb st tk v.
  Proof. intros. unfold durb. cbn [s_dtr st' set_dtr set_blobs]. split; intros (dv & hs & H & L); exists dv, hs; [rewrite ED in H | rewrite ED]; auto. Qed.
  Lemma eq_vkx : forall cli tk v Hk, vkx st' cli tk v Hk <-> vkx st cli tk v Hk.
  Proof. intros. unfold vkx, vk. cbn [s_dtr s_know s_pool st' set_dtr set_blobs]. rewrite ED. tauto. Qed.
  Lemma eq_bumped : forall h tk v, bumpedk st' h tk v <-> bumpedk st h tk v.
  Proof. intros. unfold bumpedk. cbn. tauto. Qed.

  Lemma eqv_G : G st -> G st'.
  Proof.
    intros (((DO & K1 & K2 & K3) & W1 & W2 & W3) & (A1 & A2 & A3) & (O1 & O2 & O3 & O4 & O5 & O6) & AK & T & (V1 & S & Q & QA & K0 & PA & AD)).
    destruct DO as [D1 D2].
    split; [split; [split; [split|split; [|split]]|split; [|split]]|].
    - intros b repl nt H. cbn [s_blobs st' set_dtr set_blobs] in H. rewrite EB in H. eauto.
    - intros b i dv hs H. cbn [s_dtr s_blobs st' set_dtr set_blobs] in *. rewrite ED in H. destruct (D2 _ _ _ _ H) as (L & r & n & Z & R).
      split; auto. exists r, n. rewrite EB. auto.
    - intros ke H. apply eq_bound. exact (K1 ke H).
    - intros e H Kd. apply eq_bound. exact (K2 e H Kd).
    - intros e y H Hy. apply eq_bound. exact (K3 e y H Hy).
    - intros k r H. apply eq_bound1. exact (W1 k r H).
    - intros e H C. apply eq_durb. exact (W2 e H C).
    - intros t H P. apply eq_durb. exact (W3 t H P).
    - split; [split; [exact A1 | split; [exact A2 | exact A3]]|].
      split; [split; [exact O1 | split; [exact O2 | split; [exact O3 | split; [exact O4 | split; [exact O5 | exact O6]]]]]|].
      split; [exact AK|]. split; [exact T|].
      split; [|split; [|split; [|split; [|split; [|split]]]]].
      + intros b wid W j dv H g r Ia E R. cbn [s_dtr st' set_dtr set_blobs] in E. rewrite ED in E. exact (V1 _ _ _ _ _ _ _ _ Ia E R).
      + intros o tk h v Wo F L Ac. destruct (S o tk h v Wo F L Ac) as (B1 & B2 & B3). split; [apply eq_bound; exact B1|]. split; [|exact B3].
        intros N. cbn [s_dtr st' set_dtr set_blobs] in N. rewrite ED in N. exact (B2 N).
      + intros cli tk v Hk dv H g r oo Vk Nz E R C OK. apply eq_vkx in Vk. cbn [s_dtr st' set_dtr set_blobs] in E. rewrite ED in E.
        exact (Q cli tk v Hk dv H g r oo Vk Nz E R C OK).
      + intros o tk Wo F Ax. destruct (QA o tk Wo F Ax) as (dv & H & E & X). exists dv, H. cbn [s_dtr st' set_dtr set_blobs]. rewrite ED. auto.
      + intros cli tk v Hk Vk Nz. destruct (K0 cli tk v Hk Vk Nz) as (dv & H & E). exists dv, H. cbn [s_dtr st' set_dtr set_blobs]. rewrite ED. auto.
      + exact PA.
      + intros b wid W j Ia L. destruct (AD b wid W j Ia L) as (dv & H & E). exists dv, H. cbn [s_dtr st' set_dtr set_blobs]. rewrite ED. auto.
  Qed.

  Lemma eqv_low : low st -> low st'.
  Proof.
    intros (R1 & HV & PS & E & PE & ID & OW & TK). split; [exact R1|]. split; [|split; [|split; [exact E | split; [exact PE | split; [exact ID | split; [exact OW | exact TK]]]]]].
    - intros tk dv H h Et I. cbn [s_dtr st' set_dtr set_blobs] in Et. rewrite ED in Et. exact (HV _ _ _ _ Et I).
    - intros e I K dv H Et V. cbn [s_dtr st' set_dtr set_blobs] in Et. rewrite ED in Et. exact (PS e I K dv H Et V).
  Qed.
End Eqv.

(* ------------------------------------------------------------------ list lemmas *)


Lemma filt_true : forall A (f : A -> bool) l, (forall a, f a = true) -> filter f l = l.
Proof. intros A f l H. induction l as [|a l IH]; cbn; auto. rewrite H, IH. reflexivity. Qed.



Lemma zdel_filter : forall A (l : list (Z * A)) b, zdel l b = filter (fun e => negb (b =? fst e)) l.
Proof. intros A l b. induction l as [|[k v] l IH]; cbn; [reflexivity|]. destruct (b =? k); cbn; [|f_equal]; exact IH. Qed.

Lemma gtget_app : forall A (l1 l2 : list (tkt * A)) t,
  GC.tget (l1 ++ l2) t = match GC.tget l1 t with Some r => Some r | None => GC.tget l2 t end.
Proof. intros A l1 l2 t. induction l1 as [|[k v] l1 IH]; cbn; auto. destruct (GC.tid_eqb t k); auto. Qed.

Lemma gaget_eq : forall A (l : list (Z * A)) k, GC.aget l k = zget l k.
Proof. induction l as [|[k' v] l IH]; intros k; cbn; auto; try (rewrite IH; reflexivity). Qed.

Lemma gadel_eq : forall A (l : list (Z * A)) k, GC.adel l k = zdel l k.
Proof. induction l as [|[k' v] l IH]; intros k; cbn; auto; try (rewrite IH; reflexivity). Qed.

Lemma zmem_keys : forall A (l : list (Z * A)) b, zmem b (map fst l) = match zget l b with Some _ => true | None => false end.
Proof. intros A l b. induction l as [|[k v] l IH]; cbn; auto. destruct (b =? k); cbn; auto. Qed.

Lemma gaget_app : forall A (l1 l2 : list (Z * A)) k,
  GC.aget (l1 ++ l2) k = match GC.aget l1 k with Some r => Some r | None => GC.aget l2 k end.
Proof. intros A l1 l2 k. induction l1 as [|[k' v] l1 IH]; cbn; auto. destruct (k =? k'); auto. Qed.

Lemma gaget_map : forall A B (f : A -> B) (l : list (Z * A)) k,
  GC.aget (map (fun e => (fst e, f (snd e))) l) k = match zget l k with Some v => Some (f v) | None => None end.
Proof. intros A B f l k. induction l as [|[k' v] l IH]; cbn; auto. destruct (k =? k'); auto. Qed.

Lemma setbd_eq2 : forall st B D B' D' B0 D0 B1 D1, B = B' -> D = D' ->
  set_dtr (set_blobs (set_dtr (set_blobs st B0) D0) B) D = set_dtr (set_blobs (set_dtr (set_blobs st B1) D1) B') D'.
Proof. intros; subst; reflexivity. Qed.

Lemma state_eta : forall st, set_dtr (set_blobs st (s_blobs st)) (s_dtr st) = st.
Proof. intros []. reflexivity. Qed.

(* ------------------------------------------------------------------ hidden blobs, the virtual state *)
Definition keys (x : X5.xstate) : list Z := map fst (X5.x_del x).
Definition hidden (x : X5.xstate) (b : Z) : bool := zmem b (keys x) || zmem b (X5.x_dead x).


Lemma projd_none : forall hid st, (forall b, hid b = false) -> projd hid st = st.
Proof.
  intros hid st H. unfold projd. rewrite !filt_true; [apply state_eta| |]; intros a; rewrite H; reflexivity.
Qed.

Lemma projd_ext : forall h1 h2 st, (forall b, h1 b = h2 b) -> projd h1 st = projd h2 st.
Proof. intros h1 h2 st H. unfold projd. f_equal; [f_equal|]; apply filt_ext; intros a; rewrite H; reflexivity. Qed.



Record AG (x : X5.xstate) (vst : state) : Prop := {
  ag_cl : X5.x_cl x = projd (hidden x) vst;
  ag_b : forall b repl nt tm, zget (X5.x_del x) b = Some (repl, nt, tm) -> zget (s_blobs vst) b = Some (repl, nt);
  ag_t : forall t, zmem (fst t) (keys x) = true -> tget (X5.x_deltr x) t = tget (s_dtr vst) t;
  ag_n : forall t, zmem (fst t) (keys x) = false -> tget (X5.x_deltr x) t = None;
  ag_dj : forall b, zmem b (keys x) = true -> zmem b (X5.x_dead x) = false
}.

(* the durable records as CheckForGarbage reads them (X5.proj) against the virtual state *)
Definition vis_blob (x : X5.xstate) (b : Z) : option Z :=
  GC.aget (GC.d_blobs (X5.proj x)) b.
Definition vis_tract (x : X5.xstate) (t : tkt) : option (Z * list Z) :=
  GC.tget (GC.d_tracts (X5.proj x)) t.

Lemma vis_tract_v : forall x vst t, AG x vst ->
  vis_tract x t = if zmem (fst t) (X5.x_dead x) then None else tget (s_dtr vst) t.
Proof.
  intros x vst t A. unfold vis_tract, X5.proj. cbn [GC.d_tracts]. rewrite gtget_app, !gtget_eq, (ag_cl _ _ A), tget_projd.
  unfold hidden. destruct (zmem (fst t) (keys x)) eqn:K; cbn [orb].
  - rewrite (ag_dj _ _ A _ K). exact (ag_t _ _ A t K).
  - destruct (zmem (fst t) (X5.x_dead x)) eqn:Dd.
    + exact (ag_n _ _ A t K).
    + pose proof (ag_n _ _ A t K) as N. destruct (tget (s_dtr vst) t); [reflexivity | exact N].
Qed.

Lemma vis_blob_v : forall x vst b, AG x vst ->
  vis_blob x b = if zmem b (X5.x_dead x) then None else match zget (s_blobs vst) b with Some (_, nt) => Some nt | None => None end.
Proof.
  intros x vst b A. unfold vis_blob, X5.proj. cbn [GC.d_blobs].
  rewrite gaget_app. rewrite (gaget_map _ _ (fun v : Z * Z => snd v)), (gaget_map _ _ (fun v : Z * Z * Z => snd (fst v))).
  rewrite (ag_cl _ _ A), zget_projd. unfold hidden.
  pose proof (zmem_keys _ (X5.x_del x) b) as ZK. fold (keys x) in ZK.
  destruct (zget (X5.x_del x) b) as [[[repl nt] tm]|] eqn:Z.
  - rewrite ZK. cbn [orb]. rewrite (ag_dj _ _ A b ZK). rewrite (ag_b _ _ A _ _ _ _ Z). reflexivity.
  - rewrite ZK. cbn [orb]. destruct (zmem b (X5.x_dead x)); [reflexivity|]. destruct (zget (s_blobs vst) b) as [[r n]|]; reflexivity.
Qed.

Definition SA6 (x : X5.xstate) (vst : state) : Prop :=
  forall i t v, In i (X5.x_soup x) -> In (t, v) (X5.i_old i) ->
    exists dv hs, tget (s_dtr vst) t = Some (dv, hs) /\ v <= dv /\ (In (X5.i_ts i) hs -> v < dv).
Definition SB6 (x : X5.xstate) (vst : state) : Prop :=
  forall i t, In i (X5.x_soup x) -> In t (X5.i_gone i) -> GC.is_rs t = false ->
    zget (s_blobs vst) (fst t) = None \/ zmem (fst t) (X5.x_dead x) = true.

Definition xinv6 (x : X5.xstate) : Prop := exists vst, G vst /\ low vst /\ AG x vst /\ SA6 x vst /\ SB6 x vst /\ T1 (hidden x) vst.

Lemma T1_same : forall x x' vst vst', X5.x_del x' = X5.x_del x -> X5.x_dead x' = X5.x_dead x -> s_tasks vst' = s_tasks vst ->
  T1 (hidden x) vst -> T1 (hidden x') vst'.
Proof. intros x x' vst vst' E1 E2 E3 T t I. rewrite E3 in I. unfold hidden, keys. rewrite E1, E2. exact (T t I). Qed.

Lemma xinv6_init : xinv6 X5.init_x.
Proof.
  exists init_state. split; [exact G_init|]. split; [exact low_init|]. split; [|split; [|split]]; try (intros i t; cbn; intros; contradiction).
  constructor; cbn; intros; try discriminate; reflexivity.
Qed.

(* ------------------------------------------------------------------ schedules *)
Definition nohid (x : X5.xstate) : bool :=
  match X5.x_del x, X5.x_dead x with [], [] => true | _, _ => false end.

Definition ok6_ev (x : X5.xstate) (ev : list Z) : bool :=
  match ev with
  | [] => false
  | c :: a =>
      if c <? 40 then ev_ok (hidden x) ev && ok5_ev x ev
      else if (c =? 40) || (c =? 41) then ok5_ev x ev
      else if c =? 42 then match a with [b] => forallb (fun t => negb (t_blob t =? b)) (s_tasks (X5.x_cl x)) | _ => false end
      else if (c =? 43) || (c =? 45) then match a with [_] => true | _ => false end
      else if c =? 44 then true
      else false
  end.

Fixpoint ok6_run (x : X5.xstate) (evs : list (list Z)) : bool :=
  match evs with [] => true | ev :: r => ok6_ev x ev && ok6_run (fst (X5.step x ev)) r end.

Lemma nohid_hidden : forall x, nohid x = true -> forall b, hidden x b = false.
Proof. intros x H b. unfold nohid in H. unfold hidden, keys. destruct (X5.x_del x); [|discriminate]. destruct (X5.x_dead x); [reflexivity|discriminate]. Qed.

(* ------------------------------------------------------------------ Cluster events (naming no hidden blob) *)
Lemma hidden_setcl : forall x cl b, hidden (X5.set_cl x cl) b = hidden x b.
Proof. intros. reflexivity. Qed.

Lemma xinv6_cluster : forall x ev, hd 0 ev <? 40 = true -> ok6_ev x ev = true -> xinv6 x -> xinv6 (fst (X5.step x ev)).
Proof.
  intros x ev C OK (vst & GS & LS & A & SA & SB & TT).
  destruct ev as [|c a]; [discriminate OK|]. cbn [hd] in C. unfold ok6_ev in OK. rewrite C in OK.
  apply andb_true_iff in OK as [EO OK]. unfold ok5_ev in OK. rewrite C in OK. apply andb_true_iff in OK as [OK FB].
  unfold X5.step. rewrite C.
  destruct (step_projd (hidden x) vst (c :: a) TT EO) as [(E1 & HK & T') EOUT].
  rewrite (ag_cl _ _ A) in *. rewrite (ok_ev_projd 4 (hidden x) vst (c :: a) EO) in OK.
  destruct (step (projd (hidden x) vst) (c :: a)) as [cl o] eqn:S. cbn [fst snd] in *.
  set (vst' := fst (step vst (c :: a))) in *.
  exists vst'. split; [eapply G_step; eauto; now apply low_lwp|]. split; [eapply low_step; eauto|].
  destruct HK as [HK1 HK2]. split; [|split; [|split]].
  - destruct A as [A1 A2 A3 A4 A5]. constructor; unfold keys in *; cbn [X5.x_cl X5.set_cl X5.upd X5.x_del X5.x_deltr X5.x_dead] in *.
    + exact E1.
    + intros b repl nt tm H. rewrite HK1; [exact (A2 _ _ _ _ H)|]. unfold hidden, keys. rewrite zmem_keys, H. reflexivity.
    + intros t H. rewrite HK2; [exact (A3 t H)|]. unfold hidden, keys. rewrite H. reflexivity.
    + exact A4.
    + exact A5.
  - intros i t v Hi Ho. cbn in Hi. destruct (SA i t v Hi Ho) as (dv & hs & E & L & K).
    destruct (c =? 2) eqn:C2.
    + apply Z.eqb_eq in C2. subst c. destruct (newblob_step vst a) as [DT _]. exists dv, hs. unfold vst'. rewrite DT. auto.
    + assert (SV : sadv vst vst') by (apply sadv_step; cbn; intros X; subst c; discriminate C2).
      destruct (SV (G_dur _ GS)) as [_ [SD _]]. destruct (SD _ _ _ E) as (dv' & hs' & E' & L' & Q). exists dv', hs'. split; [exact E'|].
      split; [lia|]. intros In'. destruct (Z.eq_dec dv' dv) as [X|X]; [rewrite (Q X) in In'; specialize (K In'); lia | lia].
  - intros i t Hi Hg R. cbn in Hi. cbn [X5.x_dead X5.set_cl X5.upd]. destruct (SB i t Hi Hg R) as [B|B]; [|right; exact B]. left.
    destruct (c =? 2) eqn:C2.
    + apply Z.eqb_eq in C2. subst c. destruct (newblob_step vst a) as [_ NB].
      destruct (NB _ B) as [Y|Y]; [exact Y|]. exfalso.
      unfold fresh_blob in FB. rewrite forallb_forall in FB. specialize (FB _ Hi). rewrite forallb_forall in FB. specialize (FB _ Hg).
      apply negb_true_iff in FB. apply Z.eqb_neq in FB. congruence.
    + assert (SV : sadv vst vst') by (apply sadv_step; cbn; intros X; subst c; discriminate C2).
      destruct (SV (G_dur _ GS)) as [_ [_ BS]]. exact (BS _ B).
  - exact T'.
Qed.

(* ------------------------------------------------------------------ a tract report (event 40) *)
Lemma hb_projd : forall h st ts, fst (step (projd h st) [11; ts]) = projd h (fst (step st [11; ts])).
Proof. intros. reflexivity. Qed.
Lemma hb_dur : forall st ts, s_blobs (fst (step st [11; ts])) = s_blobs st /\ s_dtr (fst (step st [11; ts])) = s_dtr st.
Proof. intros. split; reflexivity. Qed.

Lemma AG_same : forall x x' vst vst',
  X5.x_del x' = X5.x_del x -> X5.x_deltr x' = X5.x_deltr x -> X5.x_dead x' = X5.x_dead x ->
  s_blobs vst' = s_blobs vst -> s_dtr vst' = s_dtr vst -> X5.x_cl x' = projd (hidden x') vst' ->
  AG x vst -> AG x' vst'.
Proof.
  intros x x' vst vst' E1 E2 E3 E4 E5 E6 [A1 A2 A3 A4 A5]. constructor; unfold keys in *; rewrite ?E1, ?E2, ?E3, ?E4, ?E5; auto.
Qed.

Lemma xinv6_report : forall x ts ids, xinv6 x -> xinv6 (fst (X5.step_report x ts ids)).
Proof.
  intros x ts ids (vst & GS & LS & A & SA & SB & TT).
  set (vst1 := fst (step vst [11; ts])).
  assert (G1 : G vst1) by (eapply G_step; [apply (ok_ev_heartbeat vst ts) | now apply low_lwp | exact GS]).
  assert (L1 : low vst1) by (eapply low_step; [apply (ok_ev_heartbeat vst ts) | exact GS | exact LS]).
  destruct (hb_dur vst ts) as [HB HD]. fold vst1 in HB, HD.
  unfold X5.step_report. set (cl1 := fst (step (X5.x_cl x) [11; ts])). set (x1 := X5.set_cl x cl1).
  assert (A1 : AG x1 vst1).
  { apply (AG_same x x1 vst vst1); [reflexivity | reflexivity | reflexivity | exact HB | exact HD | | exact A].
    unfold x1. cbn [X5.x_cl X5.set_cl X5.upd]. unfold cl1. rewrite (ag_cl _ _ A), hb_projd. reflexivity. }
  assert (SA1 : SA6 x1 vst1) by (intros i t v Hi Ho; rewrite HD; exact (SA i t v Hi Ho)).
  assert (SB1 : SB6 x1 vst1) by (intros i t Hi Hg R; rewrite HB; exact (SB i t Hi Hg R)).
  destruct (GC.check_for_garbage (X5.proj x1) (X5.pending_of x1 (s_gen cl1)) ts ids) as [old gone] eqn:CG.
  assert (NEW : xinv6 (X5.upd x1 cl1 (X5.x_soup x1 ++ [{| X5.i_gen := s_gen cl1; X5.i_ts := ts; X5.i_old := old; X5.i_gone := gone |}])
                       (X5.x_del x1) (X5.x_deltr x1) (X5.x_chunks x1) (X5.x_pend x1) (X5.x_rst x1) (X5.x_scan x1) (X5.x_nblobs x1))).
  { unfold GC.check_for_garbage, GC.check_for_garbage_f in CG. injection CG as EO EG.
    exists vst1. split; [exact G1|]. split; [exact L1|]. split; [|split; [|split; [|apply (T1_same x _ vst vst1); auto]]].
    - apply (AG_same x1 _ vst1 vst1); [reflexivity | reflexivity | reflexivity | reflexivity | reflexivity | exact (ag_cl _ _ A1) | exact A1].
    - intros i t v Hi Ho. cbn [X5.x_soup X5.upd] in Hi. apply in_app_iff in Hi as [Hi|[Hi|[]]]; [exact (SA1 i t v Hi Ho)|].
      subst i. cbn [X5.i_old X5.i_ts] in *. rewrite <- EO in Ho. apply GC.olds_f_in in Ho as [_ Hc].
      apply chk_old in Hc as (_ & nt & hs & _ & _ & Ht & Hm).
      change (vis_tract x1 t = Some (v, hs)) in Ht. rewrite (vis_tract_v _ _ _ A1) in Ht.
      destruct (zmem (fst t) (X5.x_dead x1)); [discriminate|]. exists v, hs. split; [exact Ht|]. split; [lia|].
      intros X. exfalso. exact (gzmem_in _ _ Hm X).
    - intros i t Hi Hg R. cbn [X5.x_soup X5.upd] in Hi. apply in_app_iff in Hi as [Hi|[Hi|[]]]; [exact (SB1 i t Hi Hg R)|].
      subst i. cbn [X5.i_gone] in Hg. rewrite <- EG in Hg. apply filter_In in Hg as [Hg _]. apply GC.gones_f_in in Hg as [_ Hc].
      apply chk_gone in Hc; [|exact R]. change (vis_blob x1 (fst t) = None) in Hc. rewrite (vis_blob_v _ _ _ A1) in Hc.
      cbn [X5.x_dead X5.upd]. destruct (zmem (fst t) (X5.x_dead x1)); [right; reflexivity|]. left.
      destruct (zget (s_blobs vst1) (fst t)) as [[r0 nt]|]; [discriminate|reflexivity]. }
  destruct old; [destruct gone|]; cbn [fst]; try exact NEW. exists vst1. split; [exact G1|]. split; [exact L1|]. split; [exact A1|]. split; [exact SA1|]. split; [exact SB1|]. apply (T1_same x _ vst vst1); auto.
Qed.

(* ------------------------------------------------------------------ a delivery (event 41) *)
Lemma xinv6_deliver : forall x n f, deliver_ok x n = true -> xinv6 x -> xinv6 (fst (X5.step_deliver x n f)).
Proof.
  intros x n f OK I. unfold X5.step_deliver.
  destruct (nth_error (X5.x_soup x) (Z.to_nat n)) as [i|] eqn:N; [|exact I]. cbn [fst].
  destruct I as (vst & GS & LS & A & SA & SB & TT). pose proof (nth_error_In _ _ N) as Hi.
  unfold deliver_ok in OK. rewrite N in OK. rewrite forallb_forall in OK.
  assert (RE : s_reps (X5.x_cl x) = s_reps vst) by (rewrite (ag_cl _ _ A); reflexivity).
  assert (OE : s_ops (X5.x_cl x) = s_ops vst) by (rewrite (ag_cl _ _ A); reflexivity).
  change (xinv6 (X5.set_cl x (set_reps (X5.x_cl x) (fold_left (fun m t => rdel m (X5.i_ts i, t)) (removed x i f) (s_reps (X5.x_cl x)))))).
  set (reps' := fold_left (fun m t => rdel m (X5.i_ts i, t)) (removed x i f) (s_reps (X5.x_cl x))).
  assert (SUB : forall k r, rget reps' k = Some r -> rget (s_reps vst) k = Some r) by (intros k r H; rewrite <- RE; eapply fold_rdel_sub; eauto).
  assert (RC : forall h tk, rget (s_reps vst) (h, tk) <> None -> rget reps' (h, tk) = None ->
                 tget (s_dtr vst) tk <> None \/ (forall o, wop vst o -> fst tk <> o_blob o)).
  { intros h tk P Q. rewrite <- RE in P. destruct (fold_rdel_none _ _ _ _ _ Q P) as [_ In']. apply removed_spec in In' as [(v & r & Ho & _)|Hg].
    - left. destruct (SA i tk v Hi Ho) as (dv & hs & E & _). congruence.
    - right. intros o [Io Ko] X. specialize (OK _ Hg). apply negb_true_iff in OK. unfold write_on in OK. rewrite OE in OK.
      assert (existsb (fun o0 => (o_kind o0 =? 3) && (o_blob o0 =? fst tk)) (s_ops vst) = true); [|congruence].
      apply existsb_exists. exists o. split; auto. rewrite Ko, X, !Z.eqb_refl. reflexivity. }
  exists (set_reps vst reps'). split; [apply rm_G; auto|]. split; [apply rm_low; auto|]. split; [|split; [exact SA | split; [exact SB | exact TT]]].
  apply (AG_same x _ vst _); [reflexivity | reflexivity | reflexivity | reflexivity | reflexivity | | exact A].
  cbn [X5.x_cl X5.set_cl X5.upd]. rewrite (ag_cl _ _ A). reflexivity.
Qed.

(* ------------------------------------------------------------------ more list lemmas *)
Lemma tget_app : forall A (l1 l2 : list (tkt * A)) t,
  tget (l1 ++ l2) t = match tget l1 t with Some r => Some r | None => tget l2 t end.
Proof. intros A l1 l2 t. induction l1 as [|[k v] l1 IH]; cbn; auto. destruct (tk_eqb t k); auto. Qed.

Lemma zget_zdel : forall A (l : list (Z * A)) b k, zget (zdel l b) k = if k =? b then None else zget l k.
Proof.
  intros A l b k. rewrite zdel_filter, (zget_filter _ (fun x => negb (b =? x))). rewrite (Z.eqb_sym b k). destruct (k =? b); reflexivity.
Qed.

Lemma zmem_app : forall k l1 l2, zmem k (l1 ++ l2) = zmem k l1 || zmem k l2.
Proof. intros. unfold zmem. apply existsb_app. Qed.

Lemma hidden_false : forall x b, hidden x b = false -> zmem b (keys x) = false /\ zmem b (X5.x_dead x) = false.
Proof. intros x b H. unfold hidden in H. apply orb_false_iff in H. exact H. Qed.

(* ------------------------------------------------------------------ DeleteBlob (event 42) *)
Lemma xinv6_delete : forall x b, forallb (fun t => negb (t_blob t =? b)) (s_tasks (X5.x_cl x)) = true -> xinv6 x -> xinv6 (fst (X5.step_delete x b)).
Proof.
  intros x b NT (vst & GS & LS & A & SA & SB & TT). unfold X5.step_delete.
  destruct (zget (s_blobs (X5.x_cl x)) b) as [[repl nt]|] eqn:ZB; cbn [fst].
  2:{ exists vst. split; [exact GS|]. split; [exact LS|]. split; [|split; [exact SA | split; [exact SB | apply (T1_same x _ vst vst); auto]]].
      apply (AG_same x _ vst vst); try reflexivity; [exact (ag_cl _ _ A) | exact A]. }
  pose proof ZB as Z'. rewrite (ag_cl _ _ A), zget_projd in Z'. destruct (hidden x b) eqn:HB; [discriminate|].
  destruct (hidden_false _ _ HB) as [KB DB].
  assert (TD : T1 (hidden (X5.upd x (set_dtr (set_blobs (X5.x_cl x) (zdel (s_blobs (X5.x_cl x)) b)) (X5.drop_blob_tracts (s_dtr (X5.x_cl x)) b))
                  (X5.x_soup x) ((b, (repl, nt, X5.x_clock x)) :: X5.x_del x) (X5.blob_tracts (s_dtr (X5.x_cl x)) b ++ X5.x_deltr x)
                  (X5.x_chunks x) (X5.x_pend x) (X5.x_rst x) (X5.x_scan x) (X5.x_nblobs x))) vst).
  { intros t It. unfold hidden, keys. cbn [X5.x_del X5.x_dead X5.upd map fst]. change (zmem (t_blob t) (b :: map fst (X5.x_del x))) with ((t_blob t =? b) || zmem (t_blob t) (keys x)).
    rewrite <- orb_assoc. fold (hidden x (t_blob t)). rewrite (TT t It), orb_false_r.
    rewrite (ag_cl _ _ A) in NT. change (s_tasks (projd (hidden x) vst)) with (s_tasks vst) in NT. rewrite forallb_forall in NT.
    apply negb_true_iff. exact (NT t It). }
  exists vst. split; [exact GS|]. split; [exact LS|]. split; [|split; [exact SA | split; [exact SB | exact TD]]].
  destruct A as [A1 A2 A3 A4 A5].
  assert (HK : forall k, zmem k (b :: keys x) = (k =? b) || zmem k (keys x)) by (intros; reflexivity).
  constructor; unfold keys in *; cbn [X5.x_cl X5.upd X5.x_del X5.x_deltr X5.x_dead map fst].
  - rewrite (projd_ext _ (fun k => (k =? b) || hidden x k) vst).
    2:{ intros k. unfold hidden, keys. cbn [X5.x_del X5.x_dead X5.upd map fst]. rewrite HK. rewrite orb_assoc. reflexivity. }
    rewrite A1. unfold projd. cbn [s_blobs s_dtr set_dtr set_blobs].
    replace (zdel (filter (fun e : BinNums.Z * (BinNums.Z * BinNums.Z) => negb (hidden x (fst e))) (s_blobs vst)) b)
      with (filter (fun e : BinNums.Z * (BinNums.Z * BinNums.Z) => negb ((fst e =? b) || hidden x (fst e))) (s_blobs vst)).
    2:{ rewrite zdel_filter, filt_filt. apply filt_ext. intros [k v]. cbn [fst]. rewrite (Z.eqb_sym b k).
        destruct (k =? b); cbn; [rewrite andb_false_r; reflexivity | rewrite andb_true_r; reflexivity]. }
    match goal with |- context [X5.drop_blob_tracts ?l b] =>
      replace (X5.drop_blob_tracts l b) with (filter (fun e : tkt * (BinNums.Z * list BinNums.Z) => negb ((fst (fst e) =? b) || hidden x (fst (fst e)))) (s_dtr vst)) end.
    2:{ unfold X5.drop_blob_tracts. rewrite filt_filt. apply filt_ext. intros [[k j] v]. cbn [fst].
        destruct (k =? b); cbn; [rewrite andb_false_r; reflexivity | rewrite andb_true_r; reflexivity]. }
    reflexivity.
  - intros k r n tm H. cbn [zget] in H. destruct (k =? b) eqn:E.
    + apply Z.eqb_eq in E. subst k. inversion H; subst. exact Z'.
    + exact (A2 _ _ _ _ H).
  - intros t H. rewrite HK in H. unfold X5.blob_tracts. rewrite tget_app, (tget_filter _ (fun k => k =? b)).
    destruct (fst t =? b) eqn:E.
    + apply Z.eqb_eq in E. rewrite A1, tget_projd, E, HB.
      destruct (tget (s_dtr vst) t) eqn:T; [reflexivity|]. apply A4. rewrite E. exact KB.
    + cbn [orb] in H. exact (A3 t H).
  - intros t H. rewrite HK in H. apply orb_false_iff in H as [H1 H2]. unfold X5.blob_tracts. rewrite tget_app, (tget_filter _ (fun k => k =? b)), H1. exact (A4 t H2).
  - intros k H. rewrite HK in H. destruct (k =? b) eqn:E; [apply Z.eqb_eq in E; subst k; exact DB | exact (A5 k H)].
Qed.

(* ------------------------------------------------------------------ UndeleteBlob (event 43) *)
Lemma xinv6_undelete : forall x b, xinv6 x -> xinv6 (fst (X5.step_undelete x b)).
Proof.
  intros x b (vst & GS & LS & A & SA & SB & TT). unfold X5.step_undelete.
  assert (SAME : xinv6 (X5.set_cl x (X5.x_cl x))).
  { exists vst. split; [exact GS|]. split; [exact LS|]. split; [|split; [exact SA | split; [exact SB | apply (T1_same x _ vst vst); auto]]].
    apply (AG_same x _ vst vst); try reflexivity; [exact (ag_cl _ _ A) | exact A]. }
  rewrite gaget_eq. destruct (zget (X5.x_del x) b) as [[[repl nt] tm]|] eqn:ZD; cbn [fst].
  2:{ destruct (zget (s_blobs (X5.x_cl x)) b); exact SAME. }
  destruct A as [A1 A2 A3 A4 A5].
  assert (KB : zmem b (keys x) = true) by (unfold keys; rewrite zmem_keys, ZD; reflexivity).
  pose proof (A5 b KB) as DB. pose proof (A2 _ _ _ _ ZD) as ZV.
  assert (HB : hidden x b = true) by (unfold hidden; rewrite KB; reflexivity).
  set (Bv := (b, (repl, nt)) :: zdel (s_blobs vst) b).
  set (Dv := X5.blob_tracts (X5.x_deltr x) b ++ filter (fun e : tkt * (BinNums.Z * list BinNums.Z) => negb (fst (fst e) =? b)) (s_dtr vst)).
  assert (EB : forall k, zget Bv k = zget (s_blobs vst) k).
  { intros k. unfold Bv. cbn [zget]. destruct (k =? b) eqn:E; [apply Z.eqb_eq in E; subst k; symmetry; exact ZV|]. rewrite zget_zdel, E. reflexivity. }
  assert (ED : forall t, tget Dv t = tget (s_dtr vst) t).
  { intros t. unfold Dv, X5.blob_tracts. rewrite tget_app, (tget_filter _ (fun k => k =? b)), (tget_filter _ (fun k => negb (k =? b))).
    destruct (fst t =? b) eqn:E; cbn [negb].
    - apply Z.eqb_eq in E. rewrite (A3 t) by (rewrite E; exact KB). destruct (tget (s_dtr vst) t); reflexivity.
    - reflexivity. }
  set (vst' := set_dtr (set_blobs vst Bv) Dv).
  assert (HK : forall k, zmem k (map fst (GC.adel (X5.x_del x) b)) = if k =? b then false else zmem k (keys x)).
  { intros k. unfold keys. rewrite gadel_eq, !zmem_keys, zget_zdel. destruct (k =? b); reflexivity. }
  exists vst'. split; [apply eqv_G; auto|]. split; [apply eqv_low; auto|]. split; [|split; [|split]].
  - constructor; unfold keys in *; cbn [X5.x_cl X5.upd X5.x_del X5.x_deltr X5.x_dead].
    + rewrite (projd_ext _ (fun k => if k =? b then false else hidden x k) vst').
      2:{ intros k. unfold hidden, keys. cbn [X5.x_del X5.x_dead X5.upd]. rewrite HK. destruct (k =? b) eqn:E; [|reflexivity].
          apply Z.eqb_eq in E. subst k. exact DB. }
      rewrite A1. unfold projd, vst'. cbn [s_blobs s_dtr set_dtr set_blobs]. apply setbd_eq2.
      * unfold zset, Bv. cbn [filter fst]. rewrite Z.eqb_refl. cbn [negb]. f_equal.
        rewrite !zdel_filter, !filt_filt. apply filt_ext. intros [k v]. cbn [fst]. rewrite (Z.eqb_sym b k).
        destruct (k =? b); cbn; [rewrite andb_false_r; reflexivity | rewrite andb_true_r; reflexivity].
      * unfold Dv. rewrite filter_app. unfold X5.blob_tracts. rewrite !filt_filt. f_equal.
        -- apply filt_ext. intros [[k j] v]. cbn [fst]. destruct (k =? b); reflexivity.
        -- apply filt_ext. intros [[k j] v]. cbn [fst]. destruct (k =? b) eqn:E; cbn; [|reflexivity]. apply Z.eqb_eq in E. subst k. rewrite HB. reflexivity.
    + intros k r n tm' H. rewrite gadel_eq, zget_zdel in H. destruct (k =? b); [discriminate|]. cbn [s_blobs vst' set_dtr set_blobs]. rewrite EB. exact (A2 _ _ _ _ H).
    + intros t H. rewrite HK in H. destruct (fst t =? b) eqn:E; [discriminate|]. cbn [s_dtr vst' set_dtr set_blobs]. rewrite ED.
      unfold X5.drop_blob_tracts. rewrite (tget_filter _ (fun k => negb (k =? b))), E. cbn [negb]. exact (A3 t H).
    + intros t H. rewrite HK in H. unfold X5.drop_blob_tracts. rewrite (tget_filter _ (fun k => negb (k =? b))).
      destruct (fst t =? b) eqn:E; cbn [negb]; [reflexivity | exact (A4 t H)].
    + intros k H. rewrite HK in H. destruct (k =? b); [discriminate | exact (A5 k H)].
  - intros i t v Hi Ho. cbn [X5.x_soup X5.upd] in Hi. cbn [s_dtr vst' set_dtr set_blobs]. rewrite ED. exact (SA i t v Hi Ho).
  - intros i t Hi Hg R. cbn [X5.x_soup X5.upd] in Hi. cbn [s_blobs vst' set_dtr set_blobs X5.x_dead X5.upd]. rewrite EB. exact (SB i t Hi Hg R).
  - intros t It. cbn [s_tasks vst' set_dtr set_blobs] in It. unfold hidden, keys. cbn [X5.x_del X5.x_dead X5.upd]. rewrite HK.
    pose proof (TT t It) as Ht. unfold hidden, keys in Ht. destruct (t_blob t =? b); [cbn [orb]; apply orb_false_iff in Ht as [_ Ht]; exact Ht | exact Ht].
Qed.

(* ------------------------------------------------------------------ metadata GC: scan (44) and FinishDeleteBefore applied (45) *)
Lemma xinv6_scan : forall x, xinv6 x -> xinv6 (fst (X5.step_scan x)).
Proof.
  intros x (vst & GS & LS & A & SA & SB & TT). unfold X5.step_scan. cbn [fst].
  exists vst. split; [exact GS|]. split; [exact LS|]. split; [|split; [exact SA | split; [exact SB | apply (T1_same x _ vst vst); auto]]].
  apply (AG_same x _ vst vst); try reflexivity; [exact (ag_cl _ _ A) | exact A].
Qed.

Lemma xinv6_finish : forall x n, xinv6 x -> xinv6 (fst (X5.step_finish x n)).
Proof.
  intros x n I. unfold X5.step_finish. cbn [fst]. destruct (X5.x_scan x) as [[cutoff sel]|]; [|exact I].
  destruct I as (vst & GS & LS & A & SA & SB & TT).
  set (dead := filter (fun b => match GC.aget (X5.x_del x) b with Some (_, _, tm) => tm <? cutoff | None => false end) sel).
  assert (DK : forall k, zmem k dead = true -> zmem k (keys x) = true).
  { intros k H. apply zmem_in in H. unfold dead in H. apply filter_In in H as [_ H]. rewrite gaget_eq in H. unfold keys. rewrite zmem_keys.
    destruct (zget (X5.x_del x) k); [reflexivity|discriminate]. }
  destruct A as [A1 A2 A3 A4 A5].
  assert (HK : forall k, zmem k (map fst (filter (fun e : BinNums.Z * (BinNums.Z * BinNums.Z * BinNums.Z) => negb (GC.zmem (fst e) dead)) (X5.x_del x))) =
                         negb (zmem k dead) && zmem k (keys x)).
  { intros k. unfold keys. rewrite !zmem_keys, (zget_filter _ (fun j => negb (GC.zmem j dead))).
    change (GC.zmem k dead) with (zmem k dead). destruct (zmem k dead); reflexivity. }
  exists vst. split; [exact GS|]. split; [exact LS|]. split; [|split; [|split]].
  - constructor; unfold keys in *; cbn [X5.x_cl X5.upd X5.add_dead X5.x_del X5.x_deltr X5.x_dead].
    + rewrite A1. apply projd_ext. intros k. unfold hidden, keys. cbn [X5.x_del X5.x_dead X5.upd X5.add_dead]. rewrite HK, zmem_app.
      destruct (zmem k dead) eqn:E; cbn; [rewrite (DK k E); reflexivity | reflexivity].
    + intros k r m tm H. rewrite (zget_filter _ (fun j => negb (GC.zmem j dead))) in H. destruct (negb (GC.zmem k dead)); [exact (A2 _ _ _ _ H) | discriminate].
    + intros t H. rewrite HK in H. apply andb_true_iff in H as [H1 H2]. rewrite (tget_filter _ (fun j => negb (GC.zmem j dead))).
      change (GC.zmem (fst t) dead) with (zmem (fst t) dead). rewrite H1. exact (A3 t H2).
    + intros t H. rewrite HK in H. rewrite (tget_filter _ (fun j => negb (GC.zmem j dead))). change (GC.zmem (fst t) dead) with (zmem (fst t) dead).
      destruct (zmem (fst t) dead); cbn [negb andb] in *; [reflexivity | exact (A4 t H)].
    + intros k H. rewrite HK in H. apply andb_true_iff in H as [H1 H2]. rewrite zmem_app. apply negb_true_iff in H1. rewrite H1. exact (A5 k H2).
  - exact SA.
  - intros i t Hi Hg R. cbn [X5.x_soup X5.upd X5.add_dead] in Hi. cbn [X5.x_dead X5.upd X5.add_dead]. destruct (SB i t Hi Hg R) as [B|B]; [left; exact B|].
    right. rewrite zmem_app, B. apply orb_true_r.
  - intros t It. pose proof (TT t It) as Ht. unfold hidden, keys in *. cbn [X5.x_del X5.x_dead X5.upd X5.add_dead]. rewrite HK, zmem_app.
    apply orb_false_iff in Ht as [H1 H2]. rewrite H1, H2, andb_false_r. cbn [orb].
    destruct (zmem (t_blob t) dead) eqn:E; [rewrite (DK _ E) in H1; discriminate | reflexivity].
Qed.

Lemma xinv6_setcl_same : forall x, xinv6 x -> xinv6 (X5.set_cl x (X5.x_cl x)).
Proof.
  intros x (vst & GS & LS & A & SA & SB & TT). exists vst. split; [exact GS|]. split; [exact LS|]. split; [|split; [exact SA | split; [exact SB | apply (T1_same x _ vst vst); auto]]].
  apply (AG_same x _ vst vst); try reflexivity; [exact (ag_cl _ _ A) | exact A].
Qed.

(* ------------------------------------------------------------------ every admitted event *)
Theorem xinv6_step : forall x ev, ok6_ev x ev = true -> xinv6 x -> xinv6 (fst (X5.step x ev)).
Proof.
  intros x ev OK I. destruct ev as [|c a]; [discriminate OK|].
  destruct (c <? 40) eqn:C. { apply xinv6_cluster; auto. }
  unfold ok6_ev in OK. rewrite C in OK. unfold X5.step. rewrite C.
  destruct (c =? 40) eqn:C40.
  { cbn [orb] in OK. unfold ok5_ev in OK. rewrite C, C40 in OK. destruct a as [|a0 [|ts [|n r]]]; try discriminate OK. apply xinv6_report; auto. }
  destruct (c =? 41) eqn:C41.
  { cbn [orb] in OK. unfold ok5_ev in OK. rewrite C, C40, C41 in OK. destruct a as [|n [|f [|rv [|z r]]]]; try discriminate OK.
    destruct (deliver_to_cases x n f rv) as [E|[E|E]]; rewrite E; [apply xinv6_deliver; auto | apply xinv6_setcl_same; auto | exact I]. }
  cbn [orb] in OK.
  destruct (c =? 42). { destruct a as [|b [|z r]]; try discriminate OK. apply xinv6_delete; auto. }
  cbn [orb] in OK.
  destruct (c =? 43). { destruct a as [|b [|z r]]; try discriminate OK. apply xinv6_undelete; auto. }
  destruct (c =? 44). { apply xinv6_scan; auto. }
  destruct (c =? 45). { destruct a as [|b [|z r]]; try discriminate OK. apply xinv6_finish; auto. }
  discriminate OK.
Qed.

Theorem xinv6_run : forall evs x, ok6_run x evs = true -> xinv6 x -> xinv6 (xrun x evs).
Proof.
  induction evs as [|ev r IH]; intros x OK I; cbn; auto. cbn in OK. apply andb_true_iff in OK as [O1 O2].
  apply IH; auto. now apply xinv6_step.
Qed.

(* ok5 schedules (no delete events) are ok6 schedules *)
Lemma ok5_nohid : forall x ev, ok5_ev x ev = true -> nohid x = true -> nohid (fst (X5.step x ev)) = true.
Proof.
  intros x ev OK NH. destruct ev as [|c a]; [discriminate OK|]. unfold ok5_ev in OK. unfold X5.step.
  destruct (c <? 40) eqn:C. { destruct (step (X5.x_cl x) (c :: a)); exact NH. }
  destruct (c =? 40). { destruct a as [|a0 [|ts [|n r]]]; try discriminate OK. unfold X5.step_report.
    destruct (GC.check_for_garbage _ _ _ _) as [old gone]. destruct old; [destruct gone|]; exact NH. }
  destruct (c =? 41). { destruct a as [|n [|f [|rv [|z r]]]]; try discriminate OK.
    destruct (deliver_to_cases x n f rv) as [E|[E|E]]; rewrite E; [unfold X5.step_deliver; destruct (nth_error _ _); exact NH | exact NH | exact NH]. }
  discriminate OK.
Qed.

Lemma ev_ok_none : forall h ev, (forall b, h b = false) -> ev_ok h ev = true.
Proof.
  intros h ev H. unfold ev_ok. destruct ev as [|c a]; [reflexivity|].
  destruct (c =? 2); [rewrite H; reflexivity|]. destruct ((c =? 5) || (c =? 6)); [rewrite H; reflexivity|].
  destruct (c =? 7). { destruct a as [|m r]; [reflexivity|]. destruct (parse_rpc r) as [[rp r1]|]; [rewrite H|]; reflexivity. }
  destruct (c =? 12); [rewrite H; reflexivity | reflexivity].
Qed.

Lemma ok5_ok6_run : forall evs x, nohid x = true -> ok5_run x evs = true -> ok6_run x evs = true.
Proof.
  induction evs as [|ev r IH]; intros x NH OK; cbn; auto. cbn in OK. apply andb_true_iff in OK as [O1 O2].
  apply andb_true_iff. split; [|apply IH; auto; eapply ok5_nohid; eauto].
  destruct ev as [|c a]; [discriminate O1|]. unfold ok6_ev. pose proof O1 as O1'. unfold ok5_ev in O1'.
  destruct (c <? 40); [rewrite (ev_ok_none _ (c :: a) (nohid_hidden x NH)); exact O1|]. destruct (c =? 40); [exact O1|]. destruct (c =? 41); [exact O1|discriminate O1'].
Qed.

(* ------------------------------------------------------------------ the theorems over runs with delete / undelete / metadata GC *)
Lemma safe6 : forall x i f t, xinv6 x -> In i (X5.x_soup x) -> In t (removed x i f) -> GC.is_rs t = false ->
  match vis_blob x (fst t) with
  | None => True
  | Some nt => snd t < nt /\ forall dv hs, vis_tract x t = Some (dv, hs) -> ~ In (X5.i_ts i) hs
  end.
Proof.
  intros x i f t (vst & GS & LS & A & SA & SB & TT) Hi Hr R.
  assert (RE : s_reps (X5.x_cl x) = s_reps vst) by (rewrite (ag_cl _ _ A); reflexivity).
  rewrite (vis_blob_v _ _ _ A). apply removed_spec in Hr as [(v & r & Ho & Rg & Le)|Hg].
  - destruct (zmem (fst t) (X5.x_dead x)) eqn:Dd; [exact I|].
    destruct (SA i t v Hi Ho) as (dv & hs & E & L & K). destruct (G_dur _ GS) as [_ DD]. destruct t as [b j].
    destruct (DD _ _ _ _ E) as (_ & repl & nt & Z & Rng). cbn [fst snd] in *. rewrite Z. split; [lia|].
    intros dv' hs' E' In'. rewrite (vis_tract_v _ _ _ A) in E'. cbn [fst] in E'. rewrite Dd, E in E'. inversion E'; subst dv' hs'. specialize (K In').
    destruct (low_lwp _ LS) as [HV _]. rewrite RE in Rg. specialize (HV _ _ _ _ _ E In' Rg). lia.
  - destruct (zmem (fst t) (X5.x_dead x)) eqn:Dd; [exact I|]. destruct (SB i t Hi Hg R) as [B|B]; [rewrite B; exact I | congruence].
Qed.

Theorem safe_replicated_cluster6 : forall evs,
  ok6_run X5.init_x evs = true ->
  let x := xrun X5.init_x evs in
  forall i f t, In i (X5.x_soup x) -> In t (removed x i f) -> GC.is_rs t = false ->
  match vis_blob x (fst t) with
  | None => True
  | Some nt => snd t < nt /\ forall dv hs, vis_tract x t = Some (dv, hs) -> ~ In (X5.i_ts i) hs
  end.
Proof. intros evs OK x i f t. apply safe6. apply xinv6_run; [exact OK | exact xinv6_init]. Qed.

Theorem keeps_uncommitted_repair_cluster6 : forall evs,
  ok6_run X5.init_x evs = true ->
  let x := xrun X5.init_x evs in
  forall i f t dv hs r, In i (X5.x_soup x) -> GC.is_rs t = false ->
  vis_tract x t = Some (dv, hs) -> rget (s_reps (X5.x_cl x)) (X5.i_ts i, t) = Some r -> dv < r_ver r ->
  ~ In t (removed x i f).
Proof.
  intros evs OK x i f t dv hs r Hi R E Rg Lt Hr.
  destruct (xinv6_run evs _ OK xinv6_init) as (vst & GS & LS & A & SA & SB & TT). fold x in A, SA, SB.
  rewrite (vis_tract_v _ _ _ A) in E. destruct (zmem (fst t) (X5.x_dead x)) eqn:Dd; [discriminate|].
  apply removed_spec in Hr as [(v & r' & Ho & Rg' & Le)|Hg].
  - rewrite Rg in Rg'. inversion Rg'; subst r'. destruct (SA i t v Hi Ho) as (dv' & hs' & E' & L & _). rewrite E in E'. inversion E'; subst. lia.
  - destruct (SB i t Hi Hg R) as [B|B]; [|congruence]. destruct (G_dur _ GS) as [_ DD]. destruct t as [b j]. destruct (DD _ _ _ _ E) as (_ & repl & nt & Z' & _).
    cbn [fst] in B. congruence.
Qed.

(* ------------------------------------------------------------------ delete ... undelete leaves the blob intact *)
Lemma fold_rdel_keep : forall ts l m k,
  rget (fold_left (fun m0 t => rdel m0 (ts, t)) l m) k = rget m k \/ (exists t, k = (ts, t) /\ In t l).
Proof.
  intros ts l m [h tk]. destruct (rget (fold_left (fun m0 t => rdel m0 (ts, t)) l m) (h, tk)) as [r|] eqn:E.
  - left. symmetry. eapply fold_rdel_sub; eauto.
  - destruct (rget m (h, tk)) as [r|] eqn:E2; [|left; reflexivity]. right.
    destruct (fold_rdel_none ts l m h tk E) as [X Y]; [congruence|]. subst h. exists tk. auto.
Qed.

Section Intact.
  Variables (b repl nt : Z).
  Variable R0 : list (rkey * replica).
  Variable D0 : tkt -> option (Z * list Z).
  Hypothesis BR : (b =? -2) = false.

  Definition keepb (x : X5.xstate) : Prop :=
    (exists tm, zget (X5.x_del x) b = Some (repl, nt, tm)) /\
    (forall t, fst t = b -> tget (X5.x_deltr x) t = D0 t) /\
    (forall t dv hs s, fst t = b -> D0 t = Some (dv, hs) -> In s hs -> rget (s_reps (X5.x_cl x)) (s, t) = rget R0 (s, t)).
  Definition keep (x : X5.xstate) : Prop := keepb x \/ zmem b (X5.x_dead x) = true.

  Lemma keep_nohid : forall x, keep x -> nohid x = false.
  Proof.
    intros x [((tm & Z) & _)|D]; unfold nohid.
    - destruct (X5.x_del x); [discriminate Z|reflexivity].
    - destruct (X5.x_del x); [|reflexivity]. destruct (X5.x_dead x); [discriminate D|reflexivity].
  Qed.

  Lemma keep_step : forall x ev, xinv6 x -> ok6_ev x ev = true -> ev <> [43; b] -> keep x -> keep (fst (X5.step x ev)).
  Proof.
    intros x ev I OK NE K.
    destruct ev as [|c a]; [discriminate OK|]. unfold ok6_ev in OK. unfold X5.step.
    destruct (c <? 40) eqn:C.
    { apply andb_true_iff in OK as [EO O5]. destruct (step (X5.x_cl x) (c :: a)) as [cl o] eqn:S. cbn [fst].
      destruct K as [(K1 & K2 & K3)|D]; [left|right; exact D]. split; [exact K1|]. split; [exact K2|].
      intros t dv hs s Ft Dt Ins. rewrite <- (K3 t dv hs s Ft Dt Ins). cbn [X5.x_cl X5.set_cl X5.upd].
      pose proof (step_frame_holds (X5.x_cl x) (c :: a)) as FR. unfold step_frame in FR. rewrite S in FR. cbn [fst] in FR.
      destruct FR as [E|(mode & rest & rp & r1 & e & Eev & P & _ & _ & SE & _)]; [rewrite E; reflexivity|].
      apply SE. intros X. unfold rpc_key_of, tkey in X. inversion X; subst s t. cbn [fst] in Ft.
      inversion Eev; subst c a. cbn in EO. rewrite P in EO. apply negb_true_iff in EO.
      destruct K1 as [tm Zd]. unfold hidden, keys in EO. rewrite Ft, zmem_keys, Zd in EO. discriminate EO. }
    destruct (c =? 40) eqn:C40.
    { destruct a as [|a0 [|ts [|n r]]]; try (cbn [orb] in OK; unfold ok5_ev in OK; rewrite C, C40 in OK; discriminate OK).
      unfold X5.step_report. destruct (GC.check_for_garbage _ _ _ _) as [old gone].
      assert (K1 : keep (X5.set_cl x (fst (step (X5.x_cl x) [11; ts])))).
      { destruct K as [(K1 & K2 & K3)|D]; [left|right; exact D]. split; [exact K1|]. split; [exact K2|exact K3]. }
      destruct old; [destruct gone|]; cbn [fst]; try exact K1;
        (destruct K1 as [(K1 & K2 & K3)|D]; [left; split; [exact K1|]; split; [exact K2|exact K3] | right; exact D]). }
    destruct (c =? 41) eqn:C41.
    { cbn [orb] in OK. unfold ok5_ev in OK. rewrite C, C40, C41 in OK. destruct a as [|n [|f [|rv [|z r]]]]; try discriminate OK.
      destruct (deliver_to_cases x n f rv) as [EQ|[EQ|EQ]]; rewrite EQ; clear EQ; [| destruct K as [(K1 & K2 & K3)|D]; [left; split; [exact K1|]; split; [exact K2|exact K3] | right; exact D] | exact K].
      unfold X5.step_deliver. destruct (nth_error (X5.x_soup x) (Z.to_nat n)) as [i|] eqn:N; [|exact K]. cbn [fst].
      destruct K as [(K1 & K2 & K3)|D]; [left|right; exact D]. split; [exact K1|]. split; [exact K2|].
      intros t dv hs s Ft Dt Ins. rewrite <- (K3 t dv hs s Ft Dt Ins).
      change (rget (fold_left (fun m t0 => rdel m (X5.i_ts i, t0)) (removed x i f) (s_reps (X5.x_cl x))) (s, t) = rget (s_reps (X5.x_cl x)) (s, t)).
      destruct (fold_rdel_keep (X5.i_ts i) (removed x i f) (s_reps (X5.x_cl x)) (s, t)) as [E|(t' & E & In')]; [exact E|]. exfalso.
      inversion E; subst t' s. pose proof (nth_error_In _ _ N) as Hi.
      assert (RS : GC.is_rs t = false) by (unfold GC.is_rs; rewrite Ft; exact BR).
      pose proof (safe6 x i f t I Hi In' RS) as S. destruct I as (vst & GS & LS & A & SA & SB & TT).
      destruct K1 as [tm Zd]. assert (KB : zmem b (keys x) = true) by (unfold keys; rewrite zmem_keys, Zd; reflexivity).
      rewrite (vis_blob_v _ _ _ A), Ft, (ag_dj _ _ A b KB), (ag_b _ _ A _ _ _ _ Zd) in S. destruct S as [_ S].
      apply (S dv hs); [|exact Ins]. rewrite (vis_tract_v _ _ _ A), Ft, (ag_dj _ _ A b KB). rewrite <- (ag_t _ _ A t) by (rewrite Ft; exact KB).
      rewrite (K2 t Ft). exact Dt. }
    cbn [orb] in OK.
    destruct (c =? 42) eqn:C42.
    { destruct a as [|d [|z r]]; try discriminate OK. unfold X5.step_delete.
      destruct (zget (s_blobs (X5.x_cl x)) d) as [[rp n']|] eqn:Zc; cbn [fst];
        [|destruct K as [(K1 & K2 & K3)|D]; [left; split; [exact K1|]; split; [exact K2|exact K3] | right; exact D]].
      destruct K as [(K1 & K2 & K3)|D]; [left|right; exact D]. destruct K1 as [tm Zd].
      assert (DN : (b =? d) = false).
      { destruct (b =? d) eqn:E; [|reflexivity]. apply Z.eqb_eq in E. subst d. destruct I as (vst & _ & _ & A & _).
        rewrite (ag_cl _ _ A), zget_projd in Zc. unfold hidden, keys in Zc. rewrite zmem_keys, Zd in Zc. discriminate Zc. }
      split; [exists tm; cbn [X5.x_del X5.upd zget]; rewrite DN; exact Zd|]. split.
      - intros t Ft. cbn [X5.x_deltr X5.upd]. unfold X5.blob_tracts. rewrite tget_app, (tget_filter _ (fun k => k =? d)), Ft, DN. exact (K2 t Ft).
      - intros t dv hs s Ft Dt Ins. exact (K3 t dv hs s Ft Dt Ins). }
    destruct (c =? 43) eqn:C43.
    { destruct a as [|d [|z r]]; try discriminate OK. apply Z.eqb_eq in C43. subst c.
      assert (DN : (b =? d) = false) by (destruct (b =? d) eqn:E; [apply Z.eqb_eq in E; subst d; contradiction|reflexivity]).
      unfold X5.step_undelete. rewrite gaget_eq.
      destruct (zget (X5.x_del x) d) as [[[rp n'] tm']|]; cbn [fst].
      2:{ destruct (zget (s_blobs (X5.x_cl x)) d); (destruct K as [(K1 & K2 & K3)|D]; [left; split; [exact K1|]; split; [exact K2|exact K3] | right; exact D]). }
      destruct K as [(K1 & K2 & K3)|D]; [left|right; exact D]. destruct K1 as [tm Zd].
      split; [exists tm; cbn [X5.x_del X5.upd]; rewrite gadel_eq, zget_zdel, DN; exact Zd|]. split.
      - intros t Ft. cbn [X5.x_deltr X5.upd]. unfold X5.drop_blob_tracts. rewrite (tget_filter _ (fun k => negb (k =? d))), Ft, DN. exact (K2 t Ft).
      - intros t dv hs s Ft Dt Ins. exact (K3 t dv hs s Ft Dt Ins). }
    destruct (c =? 44) eqn:C44.
    { unfold X5.step_scan. cbn [fst]. destruct K as [(K1 & K2 & K3)|D]; [left; split; [exact K1|]; split; [exact K2|exact K3] | right; exact D]. }
    destruct (c =? 45) eqn:C45; [|discriminate OK].
    destruct a as [|d [|z r]]; try discriminate OK. unfold X5.step_finish. cbn [fst].
    destruct (X5.x_scan x) as [[cutoff sel]|]; [|exact K].
    set (dead := filter (fun b0 => match GC.aget (X5.x_del x) b0 with Some (_, _, tm) => tm <? cutoff | None => false end) sel).
    destruct K as [(K1 & K2 & K3)|D]; [|right; cbn [X5.x_dead X5.add_dead X5.upd]; rewrite zmem_app, D; apply orb_true_r].
    destruct (zmem b dead) eqn:DB; [right; cbn [X5.x_dead X5.add_dead X5.upd]; rewrite zmem_app, DB; reflexivity|].
    left. destruct K1 as [tm Zd]. split; [|split].
    - exists tm. cbn [X5.x_del X5.add_dead X5.upd]. rewrite (zget_filter _ (fun j => negb (GC.zmem j dead))).
      change (GC.zmem b dead) with (zmem b dead). rewrite DB. exact Zd.
    - intros t Ft. cbn [X5.x_deltr X5.add_dead X5.upd]. rewrite (tget_filter _ (fun j => negb (GC.zmem j dead))).
      change (GC.zmem (fst t) dead) with (zmem (fst t) dead). rewrite Ft, DB. exact (K2 t Ft).
    - intros t dv hs s Ft Dt Ins. exact (K3 t dv hs s Ft Dt Ins).
  Qed.

  Lemma keep_run : forall evs x, ok6_run x evs = true -> (forall ev, In ev evs -> ev <> [43; b]) -> xinv6 x -> keep x -> keep (xrun x evs).
  Proof.
    induction evs as [|ev r IH]; intros x OK NE I K; cbn; auto. cbn in OK. apply andb_true_iff in OK as [O1 O2].
    apply IH; auto; [intros e He; apply NE; right; exact He | now apply xinv6_step | apply keep_step; auto; apply NE; left; reflexivity].
  Qed.
End Intact.

Lemma xrun_app : forall a x b0, xrun x (a ++ b0) = xrun (xrun x a) b0.
Proof. induction a as [|e a IH]; intros x b0; cbn; auto. Qed.
Lemma ok6_run_app : forall a x b0, ok6_run x (a ++ b0) = ok6_run x a && ok6_run (xrun x a) b0.
Proof. induction a as [|e a IH]; intros x b0; cbn; auto. rewrite IH, andb_assoc. reflexivity. Qed.
Lemma step_42 : forall x b, X5.step x [42; b] = X5.step_delete x b.
Proof. intros. reflexivity. Qed.
Lemma step_43 : forall x b, X5.step x [43; b] = X5.step_undelete x b.
Proof. intros. reflexivity. Qed.

Theorem undelete_intact_cluster : forall evs1 evs2 b repl nt,
  ok6_run X5.init_x (evs1 ++ [42; b] :: evs2 ++ [[43; b]]) = true ->
  (forall ev, In ev evs2 -> ev <> [43; b]) -> (b =? -2) = false ->
  let x0 := xrun X5.init_x evs1 in
  zget (s_blobs (X5.x_cl x0)) b = Some (repl, nt) ->
  let x2 := xrun (fst (X5.step x0 [42; b])) evs2 in
  snd (X5.step x2 [43; b]) = [c05_NoError] ->
  let x3 := fst (X5.step x2 [43; b]) in
  zget (s_blobs (X5.x_cl x3)) b = Some (repl, nt) /\
  (forall t, fst t = b -> tget (s_dtr (X5.x_cl x3)) t = tget (s_dtr (X5.x_cl x0)) t) /\
  (forall t dv hs s, fst t = b -> tget (s_dtr (X5.x_cl x0)) t = Some (dv, hs) -> In s hs ->
     rget (s_reps (X5.x_cl x3)) (s, t) = rget (s_reps (X5.x_cl x0)) (s, t)).
Proof.
  intros evs1 evs2 b repl nt OK NE BR x0 ZB x2 ACK x3.
  rewrite ok6_run_app in OK. apply andb_true_iff in OK as [OK1 OK]. fold x0 in OK. cbn [ok6_run] in OK.
  apply andb_true_iff in OK as [OKd OK]. rewrite ok6_run_app in OK. apply andb_true_iff in OK as [OK2 OKu]. fold x2 in OKu.
  assert (I0 : xinv6 x0) by (apply xinv6_run; [exact OK1 | exact xinv6_init]).
  set (x1 := fst (X5.step x0 [42; b])) in *.
  assert (I1 : xinv6 x1) by (apply xinv6_step; auto).
  assert (I2 : xinv6 x2) by (apply xinv6_run; auto).
  set (R0 := s_reps (X5.x_cl x0)). set (D0 := fun t => tget (s_dtr (X5.x_cl x0)) t).
  assert (K1 : keep b repl nt R0 D0 x1).
  { left. unfold x1. rewrite step_42. unfold X5.step_delete. rewrite ZB. cbn [fst].
    destruct I0 as (vst & _ & _ & A & _). pose proof ZB as Z'. rewrite (ag_cl _ _ A), zget_projd in Z'.
    destruct (hidden x0 b) eqn:HB; [discriminate|]. destruct (hidden_false _ _ HB) as [KB _].
    split; [exists (X5.x_clock x0); cbn [X5.x_del X5.upd zget]; rewrite Z.eqb_refl; reflexivity|]. split.
    - intros t Ft. cbn [X5.x_deltr X5.upd]. unfold X5.blob_tracts, D0. rewrite tget_app, (tget_filter _ (fun k => k =? b)), Ft, Z.eqb_refl.
      destruct (tget (s_dtr (X5.x_cl x0)) t); [reflexivity|]. apply (ag_n _ _ A t). rewrite Ft. exact KB.
    - intros. reflexivity. }
  pose proof (keep_run b repl nt R0 D0 BR evs2 x1 OK2 NE I1 K1) as K2. fold x2 in K2.
  unfold x3. rewrite step_43 in *. unfold X5.step_undelete in *.
  destruct K2 as [((tm & Zd) & T2 & R2)|Dd].
  - assert (Zd' : GC.aget (X5.x_del x2) b = Some (repl, nt, tm)) by (rewrite gaget_eq; exact Zd). rewrite Zd'. cbn [fst X5.x_cl X5.upd s_blobs s_dtr s_reps set_dtr set_blobs]. split; [apply zget_zset_same|]. split.
    + intros t Ft. unfold X5.blob_tracts. rewrite tget_app, (tget_filter _ (fun k => k =? b)), Ft, Z.eqb_refl. rewrite (T2 t Ft). unfold D0.
      destruct (tget (s_dtr (X5.x_cl x0)) t); [reflexivity|].
      destruct I2 as (vst & _ & _ & A & _). rewrite (ag_cl _ _ A), tget_projd, Ft. unfold hidden, keys. rewrite zmem_keys, Zd. reflexivity.
    + intros t dv hs s Ft Dt Ins. exact (R2 t dv hs s Ft Dt Ins).
  - exfalso. destruct I2 as (vst & _ & _ & A & _).
    assert (KB : zmem b (keys x2) = false).
    { destruct (zmem b (keys x2)) eqn:E; [|reflexivity]. rewrite (ag_dj _ _ A b E) in Dd. discriminate. }
    unfold keys in KB. rewrite zmem_keys in KB.
    assert (Zn : GC.aget (X5.x_del x2) b = None) by (rewrite gaget_eq; destruct (zget (X5.x_del x2) b); [discriminate|reflexivity]). rewrite Zn in ACK.
    rewrite (ag_cl _ _ A), zget_projd in ACK. unfold hidden in ACK. rewrite Dd, orb_true_r in ACK. cbn [snd] in ACK. cbv in ACK. discriminate ACK.
Qed.
