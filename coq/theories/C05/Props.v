(* C05/Props.v — property-level theorems of C05 "Garbage collection never removes live data".

   All statements are about Proto.pstep: every word over the alphabet of Proto.v (reports, deliveries of
   ANY instruction ever computed, at any time and any number of times, repairs split into start /
   acknowledgement / commit, creation before AckExtend, delete / undelete / final delete, RS encode and
   reconstruction windows, leader change).  The decisions inside are GC.check_one_f and GC.gc_removals, the
   functions the executable trace model (Model.v) runs against the real code on every check. *)
From Coq Require Import List ZArith Bool Lia.
From BLB Require Import Gen.Consts C05.GC C05.Proto.
From BLB Require Cluster.Model Cluster.Sched C05.Model C05.Strict C05.NonInt C05.Lift C05.LiftDel C05.Witness.
Import ListNotations.
Open Scope Z_scope.

Lemma reach_inv : forall evs, Inv (prun pinit evs).
Proof. intros. apply inv_run. apply inv_init. Qed.

(* [FULL] whenever a tractserver executes a GC instruction however late or often and thereby deletes its copy of a REGULAR tract then in the durable state at execution time either the blob is gone for good or never existed or the tract is inside the acknowledged length of a blob that still exists possibly marked deleted and the server is NOT among its holders at any version; in particular a tract in creation beyond the acknowledged end and a copy of a named holder are never deleted *)
Theorem c05_gc_safe_replicated : forall evs k fault recv s t,
  let st := prun pinit evs in
  In (s, t) (removals_at st k fault recv) -> is_rs t = false ->
  match p_blob st (fst t) with
  | None => True
  | Some nt => snd t < nt /\ forall dv hs, p_tr st t = Some (dv, hs) -> ~ In s hs
  end.
Proof. intros evs k fault recv s t st H R. apply removals_at_sub in H. apply (deliver_safe st k fault s t); auto. apply reach_inv. Qed.
Print Assumptions c05_gc_safe_replicated.

(* [FULL] an instruction racing with a repair in progress never deletes a copy that is ahead of the durable version of its tract namely the bumped survivors and the freshly pulled new hosts of a re-replication whose commit is still outstanding *)
Theorem c05_gc_keeps_uncommitted_repair : forall evs k fault recv s t dv hs rv,
  let st := prun pinit evs in
  p_tr st t = Some (dv, hs) -> p_rep st (s, t) = Some rv -> dv < rv ->
  ~ In (s, t) (removals_at st k fault recv).
Proof. intros evs k fault recv s t dv hs rv st H1 H2 H3 H. apply removals_at_sub in H. revert H. eapply deliver_keeps_ahead; eauto. apply reach_inv. Qed.
Print Assumptions c05_gc_keeps_uncommitted_repair.

(* [FULL] a collection request that reaches a tractserver other than the one it was computed for which is stamped on it removes nothing at all whatever it lists: server replaced under a new id at the same address or stale address cache or a duplicate delivered to the wrong process *)
Theorem c05_gc_misaddressed_no_effect : forall st k fault recv i,
  nth_error (p_soup st) k = Some i -> recv <> pi_ts i ->
  removals_at st k fault recv = [] /\ p_rep (pstep st (PDeliver k fault recv)) = p_rep st.
Proof.
  intros st k fault recv i H N. assert (E : removals_at st k fault recv = []).
  { unfold removals_at. rewrite H. destruct (recv =? pi_ts i) eqn:Q; [apply Z.eqb_eq in Q; contradiction|reflexivity]. }
  split; [exact E|]. cbn. rewrite E. reflexivity.
Qed.
Print Assumptions c05_gc_misaddressed_no_effect.

(* ---- undelete *)
Definition gc_only (ev : pev) : Prop :=
  match ev with PReport _ _ | PDeliver _ _ _ | PLeader => True | _ => False end.

Lemma gc_only_keeps : forall evs st, Inv st -> Forall gc_only evs ->
  p_tr (prun st evs) = p_tr st /\ p_blob (prun st evs) = p_blob st /\ p_del (prun st evs) = p_del st /\
  forall s t dv hs, p_tr st t = Some (dv, hs) -> In s hs -> p_rep (prun st evs) (s, t) = p_rep st (s, t).
Proof.
  induction evs as [|e r IH]; intros st I F; cbn; [auto|].
  inversion F as [|? ? Fe Fr]; subst.
  assert (I' : Inv (pstep st e)) by now apply inv_step.
  destruct (IH _ I' Fr) as (H1 & H2 & H3 & H4).
  destruct e; cbn in Fe; try contradiction.
  - (* report *)
    assert (S : p_tr (pstep st (PReport s ids)) = p_tr st /\ p_blob (pstep st (PReport s ids)) = p_blob st /\
                p_del (pstep st (PReport s ids)) = p_del st /\ p_rep (pstep st (PReport s ids)) = p_rep st).
    { cbn. destruct (forallb (id_ok st) ids); auto. }
    destruct S as (S1 & S2 & S3 & S4). rewrite H1, H2, H3, S1, S2, S3. repeat split; auto.
    intros s0 t dv hs Htr Hin. rewrite (H4 s0 t dv hs); [rewrite S4; auto | rewrite S1; auto | auto].
  - (* deliver *)
    rewrite H1, H2, H3. repeat split; auto.
    intros s t dv hs Htr Hin. rewrite (H4 s t dv hs); auto.
    rewrite deliver_rep. destruct (existsb (rk_eqb (s, t)) (removals_at st k fault recv)) eqn:Q; auto.
    apply existsb_rk_In in Q. apply removals_at_sub in Q. exfalso.
    destruct (iD st I _ _ _ Htr) as (R & _ & nt & Bn & _).
    pose proof (deliver_safe st k fault s t I Q R) as S. rewrite Bn in S. destruct S as [_ S]. exact (S dv hs Htr Hin).
  - (* leader *)
    rewrite H1, H2, H3. repeat split; auto.
Qed.

(* [FULL] delete then any amount of GC activity that is reports and deliveries of any instructions old or new and leader changes then undelete with no final deletion in between leaves the metadata of every blob as before and every copy that the metadata names still in place at its version so undelete restores the blob intact *)
Theorem c05_undelete_intact : forall evs0 evs b,
  let st := prun pinit evs0 in
  Forall gc_only evs ->
  let st' := pstep (prun (pstep st (PDelete b)) evs) (PUndelete b) in
  p_tr st' = p_tr st /\ p_blob st' = p_blob st /\
  (forall x, x <> b -> p_del st' x = p_del st x) /\ (p_blob st b <> None -> p_del st' b = false) /\
  forall s t dv hs, p_tr st t = Some (dv, hs) -> In s hs -> p_rep st' (s, t) = p_rep st (s, t).
Proof.
  intros evs0 evs b st F st'. assert (I : Inv st) by apply reach_inv.
  assert (I1 : Inv (pstep st (PDelete b))) by now apply inv_step.
  destruct (gc_only_keeps evs _ I1 F) as (H1 & H2 & H3 & H4).
  assert (D : p_tr (pstep st (PDelete b)) = p_tr st /\ p_blob (pstep st (PDelete b)) = p_blob st /\
              p_rep (pstep st (PDelete b)) = p_rep st /\
              (forall x, x <> b -> p_del (pstep st (PDelete b)) x = p_del st x)).
  { cbn. destruct (p_blob st b); cbn; repeat split; auto. intros x Hx. destruct (x =? b) eqn:Q; auto. apply Z.eqb_eq in Q. contradiction. }
  destruct D as (D1 & D2 & D3 & D4).
  set (s2 := prun (pstep st (PDelete b)) evs) in *.
  assert (U : p_tr st' = p_tr s2 /\ p_blob st' = p_blob s2 /\ p_rep st' = p_rep s2 /\
              (forall x, x <> b -> p_del st' x = p_del s2 x) /\ (p_blob s2 b <> None -> p_del st' b = false)).
  { unfold st'. cbn. destruct (p_blob s2 b) eqn:Q; cbn; repeat split; auto.
    - intros x Hx. destruct (x =? b) eqn:Q2; auto. apply Z.eqb_eq in Q2. contradiction.
    - intros _. rewrite Z.eqb_refl. reflexivity.
    - intros X. contradiction. }
  destruct U as (U1 & U2 & U3 & U4 & U5).
  rewrite U1, U2, H1, H2, D1, D2. repeat split; auto.
  - intros x Hx. rewrite U4, H3; auto.
  - intros Hb. apply U5. rewrite H2, D2. exact Hb.
  - intros s t dv hs Htr Hin. rewrite U3. rewrite (H4 s t dv hs); [rewrite D3; auto | rewrite D1; auto | auto].
Qed.
Print Assumptions c05_undelete_intact.

(* ---- RS pieces *)
Definition f5_schedule : list pev :=
  [ PRSCommit 100 [1; 2; 3; 4; 5; 6; 7; 8; 9];
    PRSWrite 3 102;                                  (* server 3 holds piece 102 *)
    PRSBegin 100 9; PRSWrite 10 102;                 (* server 3 is replaced by server 10 *)
    PRSUpdate 100 [1; 2; 10; 4; 5; 6; 7; 8; 9];
    PReport 3 [(-2, 102)];                           (* server 3 still has its copy: "gone", instruction 0, delayed *)
    PRSBegin 100 9; PRSWrite 3 102;                  (* server 10 fails; the piece is rebuilt on server 3 *)
    PRSUpdate 100 [1; 2; 3; 4; 5; 6; 7; 8; 9] ].

(* [REFUTED] the clause for erasure coded pieces fails on the code as it is (finding F5): a gone instruction carries neither a version nor a fence, so after the schedule above the delayed instruction 0 deletes piece 102 at server 3 although the metadata names server 3 as its holder *)
Theorem c05_gc_safe_rs_refuted : exists evs k s p,
  let st := prun pinit evs in
  In (s, (-2, p)) (removals st k false) /\ lookup_piece (p_chunks st) p = Some s /\ p_rep st (s, (-2, p)) <> None.
Proof.
  exists f5_schedule, 0%nat, 3, 102. vm_compute. split; [left; reflexivity|]. split; [reflexivity|discriminate].
Qed.
Print Assumptions c05_gc_safe_rs_refuted.

(* the same defect in the other order (quick seed 8, case 4 of the harness): the instruction is computed BEFORE the repair starts,
   while the server holds a copy the metadata does not name, and executes between the repair's write and its commit *)
Definition f5_schedule_before_commit : list pev :=
  [ PRSCommit 100 [1; 2; 3; 4; 5; 6; 7; 8; 9];
    PRSWrite 10 102;                                 (* server 10 holds a leftover copy of piece 102 (holder: server 3) *)
    PReport 10 [(-2, 102)];                          (* nothing pending: "gone", instruction 0, delayed *)
    PRSBegin 100 9; PRSWrite 10 102 ].               (* server 3 fails; reconstruction marks the pieces and writes 102 to server 10 *)

(* [REFUTED] second witness for the erasure coded clause: the delayed instruction 0 executes while the reconstruction is in progress with the piece pending and removes the freshly written piece and the commit that follows names server 10 as holder of a piece it no longer has; the pending pieces set cannot prevent it because the instruction predates the marking *)
Theorem c05_gc_safe_rs_refuted_before_commit : exists evs k s p hosts,
  let st := prun pinit evs in
  In (-2, p) (p_pend st) /\ In (s, (-2, p)) (removals st k false) /\
  let st' := pstep (pstep st (PDeliver k false s)) (PRSUpdate 100 hosts) in
  lookup_piece (p_chunks st') p = Some s /\ p_rep st' (s, (-2, p)) = None.
Proof.
  exists f5_schedule_before_commit, 0%nat, 10, 102, [1; 2; 10; 4; 5; 6; 7; 8; 9]. vm_compute.
  split; [right; right; left; reflexivity|]. split; [left; reflexivity|]. split; reflexivity.
Qed.
Print Assumptions c05_gc_safe_rs_refuted_before_commit.

(* [FULL] what the pending pieces set does guarantee: an instruction computed from a report while a piece is marked pending in the computing incarnation never contains that piece so a removal of a pending piece can only come from an instruction computed before the marking or by another incarnation *)
Theorem c05_pending_piece_not_in_new_instruction : forall st s ids t i,
  In t (p_pend st) -> In i (p_soup (pstep st (PReport s ids))) -> ~ In i (p_soup st) -> ~ In t (pi_gone i).
Proof.
  intros st s ids t i Hp Hi Hn Hg. cbn in Hi. destruct (forallb (id_ok st) ids); [|contradiction].
  unfold check_for_garbage_f in Hi. cbn in Hi. apply in_app_iff in Hi as [Hi|[Hi|[]]]; [contradiction|]. subst i. cbn in Hg.
  apply filter_In in Hg as [_ Hg]. apply negb_true_iff in Hg.
  assert (X : tmem t (p_pend st) = true); [|congruence]. unfold tmem. apply existsb_exists. exists t. split; auto. apply tid_eqb_refl.
Qed.
Print Assumptions c05_pending_piece_not_in_new_instruction.

Definition RSInv (st : pstate) : Prop :=
  forall i t, In i (p_soup st) -> In t (pi_gone i) -> is_rs t = true ->
    lookup_piece (pi_chunks i) (snd t) <> Some (pi_ts i).

Lemma soup_other : forall st ev, (forall s ids, ev <> PReport s ids) -> p_soup (pstep st ev) = p_soup st.
Proof.
  intros st ev H. destruct ev; cbn; try reflexivity;
    repeat (match goal with |- context [match ?x with _ => _ end] => destruct x end; cbn; try reflexivity).
  exfalso. eapply H; reflexivity.
Qed.

Lemma rsinv_step : forall st ev, RSInv st -> RSInv (pstep st ev).
Proof.
  intros st ev R. destruct ev; try (unfold RSInv; rewrite soup_other by (intros; discriminate); exact R).
  unfold RSInv. cbn. destruct (forallb (id_ok st) ids); [|exact R].
  unfold check_for_garbage_f. cbn. intros i t Hi Hg Hr. apply in_app_iff in Hi. destruct Hi as [Hi|[Hi|[]]]; [eauto|].
  subst i. cbn in *. apply filter_In in Hg. destruct Hg as [Hg _]. destruct (gones_f_in _ _ _ _ _ _ Hg) as [_ Hc].
  destruct (check_gone_spec _ _ _ Hc) as [[R' _]|[_ X]]; [unfold regular in R'; congruence|exact X].
Qed.

Lemma rsinv_run : forall evs st, RSInv st -> RSInv (prun st evs).
Proof. induction evs as [|e r IH]; cbn; intros st R; auto. apply IH. now apply rsinv_step. Qed.

(* [FULL] what the pending pieces set and the immediate delivery actually guarantee for erasure coded pieces: an instruction that executes while the chunk table is still the one it was computed against that is before the next CommitRSChunk or UpdateRSHosts never deletes a piece at the server the metadata names as its holder *)
Theorem c05_gc_safe_rs_undelayed : forall evs k fault s t i,
  let st := prun pinit evs in
  nth_error (p_soup st) k = Some i -> pi_chunks i = p_chunks st ->
  In (s, t) (removals st k fault) -> is_rs t = true ->
  lookup_piece (p_chunks st) (snd t) <> Some s.
Proof.
  intros evs k fault s t i st Hn Hc Hin Hr.
  assert (I : Inv st) by apply reach_inv.
  assert (R : RSInv st) by (apply rsinv_run; intros ? ? []).
  destruct (removals_spec _ _ _ _ _ Hin) as (i' & Hn' & -> & [(v & rv & Ho & _) | (Hg & _)]);
    rewrite Hn in Hn'; inversion Hn'; subst i'.
  - apply nth_error_In in Hn. destruct (iA st I i t v Hn Ho) as (R' & _). unfold regular in R'. congruence.
  - apply nth_error_In in Hn. rewrite <- Hc. exact (R i t Hn Hg Hr).
Qed.
Print Assumptions c05_gc_safe_rs_undelayed.

(* non-vacuity: a schedule in which a stale copy IS collected (the replaced host of a re-replication) and the re-added host's new copy is NOT, although the stale instruction is delivered again after the server became a holder again *)
Definition readd_schedule : list pev :=
  [ PNewBlob; PCreate 1 (0, 0); PCreate 2 (0, 0); PCreate 3 (0, 0); PExtend 0 [1; 2; 3];
    PTaskStart (0, 0); PBump 1 (0, 0); PBump 2 (0, 0); PPull 4 (0, 0) 2; PAck 0 1; PAck 0 2; PAck 0 4; PCommit 0 [1; 2; 4];
    PReport 3 [(0, 0)];                                   (* instruction 0: old ((0,0), 2) for server 3 *)
    PTaskStart (0, 0); PBump 1 (0, 0); PBump 2 (0, 0); PPull 3 (0, 0) 3; PAck 1 1; PAck 1 2; PAck 1 3; PCommit 1 [1; 2; 3] ].

Example c05_nonvacuous :
  let st := prun pinit readd_schedule in
  p_tr st (0, 0) = Some (3, [1; 2; 3]) /\ p_rep st (3, (0, 0)) = Some 3 /\ removals st 0 false = [] /\
  let st0 := prun pinit (firstn 14 readd_schedule) in
  removals st0 0 false = [(3, (0, 0))].
Proof. vm_compute. repeat split; reflexivity. Qed.

(* ================================================================== over the executable trace model *)
(* The statements below are about C05.Model (the model that is compared with the real code on every run):
   state = Cluster model state + soup of instructions + blobs marked deleted; run = Lift.xrun from C05.Model.init_x.
   Schedules are those accepted by LiftDel.ok6_run:
     - every Cluster event accepted by Cluster.Sched.ok_ev at ladder level 4 (lost, duplicated and failed requests,
       delayed replies, restarts, leader changes, re-replication, fixVersion; carved out there: a superseded PullTract
       taking effect = the F21 trigger, a crash inside PullTract, injected probes), at all times, provided it names no
       HIDDEN blob (one marked deleted or finally deleted) where it matters (NonInt.ev_ok): no blob is created under a
       hidden id, no curator task starts on a hidden blob, no RPC naming a hidden blob executes, no ChangeTract probe on it;
     - tract reports (event 40) and deliveries of any instruction of the soup at any later time, any number of times,
       with or without disk fault, at any server (event 41), admitted at all times;
     - DeleteBlob (42; admitted when no curator task on that blob exists), UndeleteBlob (43), the scan of the metadata-GC
       loop (44) and the application of FinishDeleteBefore with its cutoff re-check (45, the F18 repair), at all times;
     - two side conditions of C05: a new blob does not take an id that an instruction already declared gone, and a
       gone-instruction does not execute while a client write on that same non-existent blob is in progress.
   Cluster events on OTHER blobs (client writes, repairs, ...) run freely while a blob is marked deleted or after a final
   deletion: NonInt.step_projd shows that such an event commutes with projecting the hidden records out.
   The RS events (46-51) are not in this alphabet: for them the Proto theorems above remain the only ones.
   LiftDel.vis_blob / vis_tract are the records as CheckForGarbage reads them (GetBlobAll view: blobs merely marked
   deleted included, finally deleted ones not).  Lift.removed x i f is the list of copies the delivery of instruction
   i removes at its server in state x (Lift.deliver_is_removed). *)

(* [PARTIAL] c05_gc_safe_replicated over the trace model for the schedules just described including delete undelete and final deletion: a delivery that deletes a regular copy at the instruction's server finds the blob absent from the durable state marked deleted blobs counting as present or the tract inside the acknowledged length with that server not among its hosts at any version. Partial: the residue beyond the inherited carve outs of Sched.ok_ev is that while a blob is hidden no RPC naming it executes and no task or probe on it starts and its id is not reused and DeleteBlob waits for the curator tasks on the blob and the two C05 side conditions and RS events are outside the predicate *)
Theorem c05_gc_safe_replicated_cluster : forall evs,
  LiftDel.ok6_run C05.Model.init_x evs = true ->
  let x := Lift.xrun C05.Model.init_x evs in
  forall i f t, In i (C05.Model.x_soup x) -> In t (Lift.removed x i f) -> is_rs t = false ->
  match LiftDel.vis_blob x (fst t) with
  | None => True
  | Some nt => snd t < nt /\ forall dv hs, LiftDel.vis_tract x t = Some (dv, hs) -> ~ In (C05.Model.i_ts i) hs
  end.
Proof. exact LiftDel.safe_replicated_cluster6. Qed.
Print Assumptions c05_gc_safe_replicated_cluster.

(* [PARTIAL] c05_gc_keeps_uncommitted_repair over the trace model for the same schedules: a copy ahead of the durable version of its tract is never deleted by any delivery also while the blob is marked deleted *)
Theorem c05_gc_keeps_uncommitted_repair_cluster : forall evs,
  LiftDel.ok6_run C05.Model.init_x evs = true ->
  let x := Lift.xrun C05.Model.init_x evs in
  forall i f t dv hs r, In i (C05.Model.x_soup x) -> is_rs t = false ->
  LiftDel.vis_tract x t = Some (dv, hs) ->
  Cluster.Model.rget (Cluster.Model.s_reps (C05.Model.x_cl x)) (C05.Model.i_ts i, t) = Some r -> dv < Cluster.Model.r_ver r ->
  ~ In t (Lift.removed x i f).
Proof. exact LiftDel.keeps_uncommitted_repair_cluster6. Qed.
Print Assumptions c05_gc_keeps_uncommitted_repair_cluster.

(* [PARTIAL] c05_undelete_intact over the trace model: a blob that exists is deleted then any admitted events follow that is reports deliveries of instructions computed at any time deletes and undeletes of other blobs scans and final deletions and then an acknowledged undelete of the blob: the blob record every tract record and every copy at a durable host of its tracts are exactly what they were before the delete. Client writes and repairs of other blobs may run in between. Partial only through the schedule predicate whose residue is listed at c05_gc_safe_replicated_cluster *)
Theorem c05_undelete_intact_cluster : forall evs1 evs2 b repl nt,
  LiftDel.ok6_run C05.Model.init_x (evs1 ++ [42; b] :: evs2 ++ [[43; b]]) = true ->
  (forall ev, In ev evs2 -> ev <> [43; b]) -> (b =? -2) = false ->
  let x0 := Lift.xrun C05.Model.init_x evs1 in
  Cluster.Model.zget (Cluster.Model.s_blobs (C05.Model.x_cl x0)) b = Some (repl, nt) ->
  let x2 := Lift.xrun (fst (C05.Model.step x0 [42; b])) evs2 in
  snd (C05.Model.step x2 [43; b]) = [c05_NoError] ->
  let x3 := fst (C05.Model.step x2 [43; b]) in
  Cluster.Model.zget (Cluster.Model.s_blobs (C05.Model.x_cl x3)) b = Some (repl, nt) /\
  (forall t, fst t = b -> Cluster.Model.tget (Cluster.Model.s_dtr (C05.Model.x_cl x3)) t = Cluster.Model.tget (Cluster.Model.s_dtr (C05.Model.x_cl x0)) t) /\
  (forall t dv hs s, fst t = b -> Cluster.Model.tget (Cluster.Model.s_dtr (C05.Model.x_cl x0)) t = Some (dv, hs) -> In s hs ->
     Cluster.Model.rget (Cluster.Model.s_reps (C05.Model.x_cl x3)) (s, t) = Cluster.Model.rget (Cluster.Model.s_reps (C05.Model.x_cl x0)) (s, t)).
Proof. exact LiftDel.undelete_intact_cluster. Qed.
Print Assumptions c05_undelete_intact_cluster.

(* [FULL] over the trace model in every state: an instruction delivered to a tractserver other than the one whose id is stamped on it is answered ErrWrongTractserver and changes nothing *)
Theorem c05_gc_misaddressed_no_effect_cluster : forall x n f recv i,
  nth_error (C05.Model.x_soup x) (Z.to_nat n) = Some i -> recv <> C05.Model.i_ts i ->
  C05.Model.x_cl (fst (C05.Model.step_deliver_to x n f recv)) = C05.Model.x_cl x /\
  hd 0 (snd (C05.Model.step_deliver_to x n f recv)) = c05_ErrWrongTractserver.
Proof.
  intros x n f recv i H N. unfold C05.Model.step_deliver_to. rewrite H.
  destruct (recv =? C05.Model.i_ts i) eqn:Q; [apply Z.eqb_eq in Q; contradiction|]. split; reflexivity.
Qed.
Print Assumptions c05_gc_misaddressed_no_effect_cluster.

(* every schedule of the earlier predicate Lift.ok5_run is a schedule of LiftDel.ok6_run *)
Lemma c05_ok5_is_ok6 : forall evs, Lift.ok5_run C05.Model.init_x evs = true -> LiftDel.ok6_run C05.Model.init_x evs = true.
Proof. intros evs H. apply LiftDel.ok5_ok6_run; [reflexivity | exact H]. Qed.

(* [FULL] over the Cluster model for every event sequence without any schedule restriction: a durable tract record never disappears its version never decreases and the host set of a given durable version never changes and no blob comes into being except by the blob creation event *)
Theorem c05_hosts_change_only_with_version : forall st ev,
  hd 0 ev <> 2 -> Cluster.Inv.dur_ok st ->
  (forall tk dv hs, Cluster.Model.tget (Cluster.Model.s_dtr st) tk = Some (dv, hs) ->
     exists dv' hs', Cluster.Model.tget (Cluster.Model.s_dtr (fst (Cluster.Model.step st ev))) tk = Some (dv', hs') /\
                     dv <= dv' /\ (dv' = dv -> hs' = hs)) /\
  (forall b, Cluster.Model.zget (Cluster.Model.s_blobs st) b = None ->
             Cluster.Model.zget (Cluster.Model.s_blobs (fst (Cluster.Model.step st ev))) b = None).
Proof. intros st ev N D. destruct (C05.Strict.sadv_step st ev N D) as [_ [S B]]. split; [exact S | exact B]. Qed.
Print Assumptions c05_hosts_change_only_with_version.

(* [PARTIAL] the key lemma of DESIGN C05 over the pure Cluster model: a server that is not among the hosts of a tract at durable version d0 and is among them later is there at a strictly greater durable version for every event sequence and for schedules of ladder level 4 the copy it then holds has version at least d0 plus 1. Partial only through the carve outs of Sched.ok_run 4 *)
Theorem c05_rehosted_copy_is_newer : forall evs1 evs2 tk d0 H0 d1 H1 s,
  let st1 := Cluster.Model.run_state Cluster.Model.init_state evs1 in
  let st2 := Cluster.Model.run_state st1 evs2 in
  Cluster.Model.tget (Cluster.Model.s_dtr st1) tk = Some (d0, H0) -> ~ In s H0 ->
  Cluster.Model.tget (Cluster.Model.s_dtr st2) tk = Some (d1, H1) -> In s H1 ->
  d0 < d1 /\
  (Cluster.Sched.ok_run 4 Cluster.Model.init_state (evs1 ++ evs2) = true ->
   forall r, Cluster.Model.rget (Cluster.Model.s_reps st2) (s, tk) = Some r -> d0 + 1 <= Cluster.Model.r_ver r).
Proof. exact Lift.rehosted_copy_is_newer. Qed.
Print Assumptions c05_rehosted_copy_is_newer.

(* non-vacuity of the lifted schedule predicate: the trace of the harness case d-readd recorded on the real code (52 events: a write, two re-replications, reports, the request refused by the wrong processes, the stale instruction delivered twice after the server became a host again) is accepted, and it contains a delivery that removes a copy and later ones that do not *)
Example c05_lift_nonvacuous :
  Lift.ok5_run C05.Model.init_x C05.Witness.readd_trace = true /\
  length (C05.Model.x_soup (Lift.xrun C05.Model.init_x C05.Witness.readd_trace)) = 2%nat.
Proof. vm_compute. split; reflexivity. Qed.

(* non-vacuity with delete and undelete: the trace of the harness case d-undelete recorded on the real code (53 events: two blobs written, DeleteBlob, a report from every server, the scan of the real metadata-GC loop, UndeleteBlob inside its pause, FinishDeleteBefore applied, reports, a client read of the blob, final sweep) is accepted by ok6_run and the blob is neither marked deleted nor finally deleted at the end *)
Example c05_lift_delete_nonvacuous :
  LiftDel.ok6_run C05.Model.init_x C05.Witness.undelete_trace = true /\
  C05.Model.x_del (Lift.xrun C05.Model.init_x C05.Witness.undelete_trace) = [] /\
  C05.Model.x_dead (Lift.xrun C05.Model.init_x C05.Witness.undelete_trace) = [] /\
  existsb (fun ev => hd 0 ev =? 42) C05.Witness.undelete_trace && existsb (fun ev => hd 0 ev =? 43) C05.Witness.undelete_trace &&
  existsb (fun ev => hd 0 ev =? 45) C05.Witness.undelete_trace && existsb (fun ev => hd 0 ev =? 4) C05.Witness.undelete_trace = true.
Proof. vm_compute. repeat split; reflexivity. Qed.

(* non-vacuity of the unrestricted delete alphabet: the trace of the harness case d-delete-busy recorded on the real code (94 events): while blob 0 is marked deleted blob 1 is written twice and repaired by a re-replication with its ChangeTract, every server reports, instructions are delivered; then blob 0 is undeleted and read *)
Example c05_lift_delete_busy_nonvacuous :
  LiftDel.ok6_run C05.Model.init_x C05.Witness.delete_busy_trace = true /\
  C05.Model.x_del (Lift.xrun C05.Model.init_x C05.Witness.delete_busy_trace) = [] /\
  existsb (fun ev => hd 0 ev =? 42) C05.Witness.delete_busy_trace && existsb (fun ev => hd 0 ev =? 43) C05.Witness.delete_busy_trace &&
  existsb (fun ev => hd 0 ev =? 5) C05.Witness.delete_busy_trace && existsb (fun ev => hd 0 ev =? 3) C05.Witness.delete_busy_trace = true.
Proof. vm_compute. repeat split; reflexivity. Qed.

(* [FULL] non interference of the Cluster model with respect to hidden blobs for every event: if no curator task names a hidden blob and the event names none where it matters then stepping the state without the hidden records gives the projection of stepping the full state with the same observation and the hidden records and the task condition are untouched *)
Theorem c05_step_commutes_with_hiding : forall h st ev,
  C05.NonInt.T1 h st -> C05.NonInt.ev_ok h ev = true ->
  Cluster.Model.step (C05.NonInt.projd h st) ev = (C05.NonInt.projd h (fst (Cluster.Model.step st ev)), snd (Cluster.Model.step st ev)) /\
  C05.NonInt.hkeep h st (fst (Cluster.Model.step st ev)) /\ C05.NonInt.T1 h (fst (Cluster.Model.step st ev)).
Proof.
  intros h st ev T OK. destruct (C05.NonInt.step_projd h st ev T OK) as [(E & K & T') O].
  split; [|split; assumption]. destruct (Cluster.Model.step (C05.NonInt.projd h st) ev) as [s1 o1]. cbn [fst snd] in *. subst. reflexivity.
Qed.
Print Assumptions c05_step_commutes_with_hiding.
