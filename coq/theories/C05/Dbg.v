(* C05/NonInt.v — non-interference of Cluster.Model.step with respect to hidden blobs.

   projd hid st = st without the blob and tract records of the blobs selected by hid.  If no curator task of st
   names a hidden blob (T1) and the event names none where it matters (ev_ok: blob creation, task start, executed
   RPC, probe), then the event commutes with the projection, produces the same observation, leaves the hidden
   records untouched and keeps T1:

       step (projd hid st) ev = (projd hid (fst (step st ev)), snd (step st ev)).                       *)
From Coq Require Import List ZArith Bool Lia.
From BLB Require Import Gen.Consts Cluster.Model Cluster.Proofs Cluster.Frame Cluster.Inv Cluster.Sched.
Import ListNotations.
Open Scope Z_scope.

Definition projd (hid : Z -> bool) (st : state) : state :=
  set_dtr (set_blobs st (filter (fun e => negb (hid (fst e))) (s_blobs st)))
          (filter (fun e => negb (hid (fst (fst e)))) (s_dtr st)).

Definition hkeep (hid : Z -> bool) (st st' : state) : Prop :=
  (forall b, hid b = true -> zget (s_blobs st') b = zget (s_blobs st) b) /\
  (forall t, hid (fst t) = true -> tget (s_dtr st') t = tget (s_dtr st) t).

Definition T1 (hid : Z -> bool) (st : state) : Prop := forall t, In t (s_tasks st) -> hid (t_blob t) = false.

(* s1 is what the function made of the projected state, s2 what it made of the full state *)
Definition NI (hid : Z -> bool) (st s1 s2 : state) : Prop := s1 = projd hid s2 /\ hkeep hid st s2 /\ T1 hid s2.

Lemma hkeep_refl : forall h st, hkeep h st st.
Proof. intros; split; intros; reflexivity. Qed.
Lemma hkeep_trans : forall h a b c, hkeep h a b -> hkeep h b c -> hkeep h a c.
Proof. intros h a b c [A1 A2] [B1 B2]. split; intros; [rewrite B1, A1 | rewrite B2, A2]; auto. Qed.
Lemma hkeep_same : forall h st st', s_blobs st' = s_blobs st -> s_dtr st' = s_dtr st -> hkeep h st st'.
Proof. intros h st st' B D. split; intros; [rewrite B | rewrite D]; reflexivity. Qed.

Lemma NI_chain : forall h st s1 s2 (F : state -> state),
  NI h st s1 s2 -> (forall s, T1 h s -> NI h s (F (projd h s)) (F s)) -> NI h st (F s1) (F s2).
Proof.
  intros h st s1 s2 F (E & K & T) HF. subst s1. destruct (HF s2 T) as (E2 & K2 & T2). split; [exact E2|]. split; [eapply hkeep_trans; eauto | exact T2].
Qed.

Lemma NI_same : forall h st s2, s_blobs s2 = s_blobs st -> s_dtr s2 = s_dtr st -> T1 h s2 -> forall s1, s1 = projd h s2 -> NI h st s1 s2.
Proof. intros h st s2 B D T s1 E. split; [exact E|]. split; [now apply hkeep_same | exact T]. Qed.

(* ------------------------------------------------------------------ lookups / updates under the projection *)
Lemma filt_ext : forall A (f g : A -> bool) l, (forall a, f a = g a) -> filter f l = filter g l.
Proof. intros A f g l H. induction l as [|a l IH]; cbn; auto. rewrite H, IH. reflexivity. Qed.
Lemma filt_filt : forall A (f g : A -> bool) l, filter f (filter g l) = filter (fun a => g a && f a) l.
Proof. intros A f g l. induction l as [|a l IH]; cbn; auto. destruct (g a); cbn; [destruct (f a)|]; rewrite IH; reflexivity. Qed.

Lemma zget_filter : forall A (q : Z -> bool) (l : list (Z * A)) k,
  zget (filter (fun e => q (fst e)) l) k = if q k then zget l k else None.
Proof.
  intros A q l k. induction l as [|[k' v] l IH]; cbn; [destruct (q k); reflexivity|].
  destruct (k =? k') eqn:E.
  - apply Z.eqb_eq in E. subst k'. destruct (q k) eqn:Q; cbn; [rewrite Z.eqb_refl; reflexivity|]. rewrite IH. reflexivity.
  - destruct (q k'); cbn; [rewrite E|]; exact IH.
Qed.
Lemma tget_filter : forall A (q : Z -> bool) (l : list (tkt * A)) t,
  tget (filter (fun e => q (fst (fst e))) l) t = if q (fst t) then tget l t else None.
Proof.
  intros A q l t. induction l as [|[k' v] l IH]; cbn; [destruct (q (fst t)); reflexivity|].
  destruct (tk_eqb t k') eqn:E.
  - apply tk_eqb_eq in E. subst k'. destruct (q (fst t)) eqn:Q; cbn; [rewrite tk_eqb_refl; reflexivity|]. rewrite IH. reflexivity.
  - destruct (q (fst k')); cbn; [rewrite E|]; exact IH.
Qed.

Lemma zget_projd : forall hid st b, zget (s_blobs (projd hid st)) b = if hid b then None else zget (s_blobs st) b.
Proof. intros. unfold projd. cbn [s_blobs set_dtr set_blobs]. rewrite (zget_filter _ (fun k => negb (hid k))). destruct (hid b); reflexivity. Qed.
Lemma tget_projd : forall hid st t, tget (s_dtr (projd hid st)) t = if hid (fst t) then None else tget (s_dtr st) t.
Proof. intros. unfold projd. cbn [s_dtr set_dtr set_blobs]. rewrite (tget_filter _ (fun k => negb (hid k))). destruct (hid (fst t)); reflexivity. Qed.

Lemma zdel_filt : forall A (l : list (Z * A)) b, zdel l b = filter (fun e => negb (b =? fst e)) l.
Proof. intros A l b. induction l as [|[k v] l IH]; cbn; [reflexivity|]. destruct (b =? k); cbn; [|f_equal]; exact IH. Qed.
Lemma tdel_filt : forall A (l : list (tkt * A)) k, tdel l k = filter (fun e => negb (tk_eqb k (fst e))) l.
Proof. intros A l k. induction l as [|[k' v] l IH]; cbn; [reflexivity|]. destruct (tk_eqb k k'); cbn; [|f_equal]; exact IH. Qed.

Lemma filter_zset : forall A (q : Z -> bool) (l : list (Z * A)) b v, q b = true ->
  filter (fun e => q (fst e)) (zset l b v) = zset (filter (fun e => q (fst e)) l) b v.
Proof.
  intros A q l b v Q. unfold zset. cbn [filter fst]. rewrite Q. f_equal. rewrite !zdel_filt, !filt_filt. apply filt_ext. intros a. apply andb_comm.
Qed.
Lemma filter_tset : forall A (q : Z -> bool) (l : list (tkt * A)) k v, q (fst k) = true ->
  filter (fun e => q (fst (fst e))) (tset l k v) = tset (filter (fun e => q (fst (fst e))) l) k v.
Proof.
  intros A q l k v Q. unfold tset. cbn [filter fst]. rewrite Q. f_equal. rewrite !tdel_filt, !filt_filt. apply filt_ext. intros a. apply andb_comm.
Qed.

Lemma projd_set_dtr : forall h st D, projd h (set_dtr st D) = set_dtr (projd h st) (filter (fun e => negb (h (fst (fst e)))) D).
Proof. reflexivity. Qed.
Lemma projd_set_blobs : forall h st B, projd h (set_blobs st B) = set_blobs (projd h st) (filter (fun e => negb (h (fst e))) B).
Proof. reflexivity. Qed.

(* ------------------------------------------------------------------ the task machinery *)
Lemma T1_sub : forall h st st', (forall t, In t (s_tasks st') -> In t (s_tasks st)) -> T1 h st -> T1 h st'.
Proof. intros h st st' S T t I. apply T. apply S. exact I. Qed.

Lemma fold_issue_projd : forall h (f : Z -> rpc) o l st,
  fold_left (fun s x => issue_cur s (f x) o) l (projd h st) = projd h (fold_left (fun s x => issue_cur s (f x) o) l st).
Proof. intros h f o l. induction l as [|a l IH]; intros st; cbn [fold_left]; [reflexivity|]. rewrite <- IH. reflexivity. Qed.

Lemma fold_issue_tasks : forall (f : Z -> rpc) o l st, s_tasks (fold_left (fun s x => issue_cur s (f x) o) l st) = s_tasks st.
Proof. intros f o l. induction l as [|a l IH]; intros st; cbn [fold_left]; [reflexivity|]. rewrite IH. reflexivity. Qed.
Lemma fold_issue_dur : forall (f : Z -> rpc) o l st,
  s_blobs (fold_left (fun s x => issue_cur s (f x) o) l st) = s_blobs st /\ s_dtr (fold_left (fun s x => issue_cur s (f x) o) l st) = s_dtr st.
Proof. intros f o l. induction l as [|a l IH]; intros st; cbn [fold_left]; [split; reflexivity|]. destruct (IH (issue_cur st (f a) o)) as [A B]. rewrite A, B. split; reflexivity. Qed.

Lemma finish_task_projd : forall h st t e, finish_task (projd h st) t e = projd h (finish_task st t e).
Proof. intros. unfold finish_task. destruct (t_rpc t =? 0); reflexivity. Qed.
Lemma finish_task_tasks : forall st t e x, In x (s_tasks (finish_task st t e)) -> In x (s_tasks st).
Proof.
  intros st t e x H. unfold finish_task in H. destruct (t_rpc t =? 0); cbn in H; unfold del_task in H; apply filter_In in H; tauto.
Qed.
Lemma finish_task_dur : forall st t e, s_blobs (finish_task st t e) = s_blobs st /\ s_dtr (finish_task st t e) = s_dtr st.
Proof. intros. unfold finish_task. destruct (t_rpc t =? 0); split; reflexivity. Qed.

Lemma NI_finish : forall h st t e, T1 h st -> NI h st (finish_task (projd h st) t e) (finish_task st t e).
Proof.
  intros h st t e T. destruct (finish_task_dur st t e) as [B D]. apply NI_same; auto.
  - eapply T1_sub; [|exact T]. intros x. apply finish_task_tasks.
  - apply finish_task_projd.
Qed.

Lemma upd_task_in : forall ts t' x, In x (upd_task ts t') -> In x ts \/ x = t'.
Proof. intros ts t' x H. unfold upd_task in H. apply in_map_iff in H as (y & E & I). destruct (t_op y =? t_op t'); subst; auto. Qed.


Ltac split_all := repeat match goal with
  | |- context [match ?x with _ => _ end] => destruct x eqn:?
  | |- context [if ?x then _ else _] => destruct x eqn:?
  end.

Lemma activate_projd : forall h st t, h (t_blob t) = false -> activate (projd h st) t = projd h (activate st t).
Proof.
  intros h st t H. unfold activate. rewrite zget_projd, tget_projd. unfold tkey. cbn [fst]. rewrite H.
  change (known_of (projd h st) (t_gen t)) with (known_of st (t_gen t)).
  change (s_term (projd h st)) with (s_term st). change (s_tasks (projd h st)) with (s_tasks st).
  split_all; first [apply finish_task_projd | (rewrite <- fold_issue_projd; reflexivity) | reflexivity].
Qed.

Lemma activate_tasks : forall st t x, In x (s_tasks (activate st t)) -> In x (s_tasks st) \/ t_blob x = t_blob t.
Proof.
  intros st t x H. unfold activate in H.
  repeat match type of H with
  | context [match ?y with _ => _ end] => destruct y eqn:?
  | context [if ?y then _ else _] => destruct y eqn:?
  end; try (left; eapply finish_task_tasks; exact H);
  (rewrite fold_issue_tasks in H; cbn [s_tasks set_tasks] in H; apply upd_task_in in H as [H|H]; [left; exact H | right; subst x; reflexivity]).
Qed.

Lemma NI_activate : forall h st t, T1 h st -> h (t_blob t) = false -> NI h st (activate (projd h st) t) (activate st t).
Proof.
  intros h st t T H. destruct (quiet_activate st t) as (B & D & _). apply NI_same; auto.
  - intros x I. apply activate_tasks in I as [I|I]; [exact (T x I) | rewrite I; exact H].
  - now apply activate_projd.
Qed.

Lemma NI_wake : forall n h st, T1 h st -> NI h st (wake n (projd h st)) (wake n st).
Proof.
  induction n as [|n IH]; intros h st T; [apply NI_same; auto|].
  unfold wake; fold wake. change (s_tasks (projd h st)) with (s_tasks st).
  match goal with |- context [find ?f (s_tasks st)] => destruct (find f (s_tasks st)) as [t|] eqn:F end; [|apply NI_same; auto].
  apply find_some in F as [F Fp]. apply (NI_chain h st _ _ (wake n)); [apply NI_activate; auto | intros s Ts; apply IH; exact Ts].
Qed.

Lemma NI_start_task : forall h st t, T1 h st -> h (t_blob t) = false -> NI h st (start_task (projd h st) t) (start_task st t).
Proof.
  intros h st t T H. unfold start_task.
  change (s_tasks (projd h st)) with (s_tasks st). change (known_of (projd h st) (t_gen t)) with (known_of st (t_gen t)).
  assert (T' : T1 h (set_tasks st (s_tasks st ++ [t]))).
  { intros x I. cbn in I. apply in_app_iff in I as [I|[I|[]]]; [exact (T x I) | subst x; exact H]. }
  assert (N0 : NI h st (set_tasks (projd h st) (s_tasks st ++ [t])) (set_tasks st (s_tasks st ++ [t]))) by (apply NI_same; auto).
  destruct ((t_kind t =? 6) && negb (zmem (t_badts t) (known_of st (t_gen t)))).
  - apply (NI_chain h st _ _ (fun s => finish_task s t cl_ErrHostNotExist) N0). intros s Ts. now apply NI_finish.
  - apply (NI_chain h st _ _ (wake 8) N0). intros s Ts. now apply NI_wake.
Qed.

(* ------------------------------------------------------------------ durable commands *)
Lemma change_tract_projd : forall h st term b t v hs, h b = false ->
  change_tract (projd h st) term b t v hs = (projd h (fst (change_tract st term b t v hs)), snd (change_tract st term b t v hs)).
Proof.
  intros h st term b t v hs H. unfold change_tract. rewrite zget_projd, tget_projd. unfold tkey. cbn [fst]. rewrite H.
  change (s_term (projd h st)) with (s_term st).
  split_all; try reflexivity. cbn [fst snd]. rewrite projd_set_dtr. f_equal. f_equal.
  unfold projd. cbn [s_dtr set_dtr set_blobs]. symmetry. apply (filter_tset _ (fun k => negb (h k))). cbn [fst]. rewrite H. reflexivity.
Qed.

Lemma change_tract_keep : forall h st term b t v hs, h b = false ->
  hkeep h st (fst (change_tract st term b t v hs)) /\ s_tasks (fst (change_tract st term b t v hs)) = s_tasks st.
Proof.
  intros h st term b t v hs H. destruct (change_tract st term b t v hs) as [st' c] eqn:C. cbn [fst].
  apply change_tract_cases in C as [E|(dv & hs0 & G & V & E)]; subst; [split; [apply hkeep_refl|reflexivity]|].
  split; [|reflexivity]. split; [intros; reflexivity|]. intros t' Ht. cbn [s_dtr set_dtr]. apply tget_tset_other.
  intros X. subst t'. cbn [fst] in Ht. congruence.
Qed.

Lemma ext_fold_filter : forall (q : Z -> bool) blob trs m n, q blob = true ->
  filter (fun e : tkt * (Z * list Z) => q (fst (fst e))) (fst (ext_fold blob trs m n)) =
  fst (ext_fold blob trs (filter (fun e : tkt * (Z * list Z) => q (fst (fst e))) m) n).
Proof.
  intros q blob trs. induction trs as [|[[idx ver] hs] trs IH]; intros m n Q; [reflexivity|].
  unfold ext_fold in *. cbn [fold_left]. rewrite IH by exact Q. rewrite (filter_tset _ q) by exact Q. reflexivity.
Qed.

Lemma ext_fold_hid : forall (h : Z -> bool) blob trs m n t, h blob = false -> h (fst t) = true ->
  tget (fst (ext_fold blob trs m n)) t = tget m t.
Proof.
  intros h blob trs. induction trs as [|[[idx ver] hs] trs IH]; intros m n t H Ht; [reflexivity|].
  unfold ext_fold in *. cbn [fold_left]. rewrite IH by auto. apply tget_tset_other. unfold tkey. intros X. subst t. cbn [fst] in Ht. congruence.
Qed.

Lemma ack_extend_projd : forall h st blob trs, h blob = false ->
  ack_extend (projd h st) blob trs = (projd h (fst (ack_extend st blob trs)), snd (ack_extend st blob trs)).
Proof.
  intros h st blob trs H. unfold ack_extend. destruct trs as [|[[first ver0] hs0] trs0]; [reflexivity|].
  remember ((first, ver0, hs0) :: trs0) as trs eqn:T. clear T trs0.
  rewrite zget_projd, H. split_all; try reflexivity. cbn [fst snd].
  fold (ext_fold blob trs (s_dtr (projd h st)) z0). fold (ext_fold blob trs (s_dtr st) z0).
  rewrite projd_set_blobs, projd_set_dtr. f_equal.
  assert (Q : negb (h blob) = true) by (rewrite H; reflexivity).
  unfold projd at 2 3. cbn [s_blobs s_dtr set_dtr set_blobs].
  rewrite (ext_fold_filter (fun k => negb (h k))) by exact Q. rewrite (filter_zset _ (fun k => negb (h k))) by exact Q. reflexivity.
Qed.

Lemma ack_extend_keep : forall h st blob trs, h blob = false ->
  hkeep h st (fst (ack_extend st blob trs)) /\ s_tasks (fst (ack_extend st blob trs)) = s_tasks st.
Proof.
  intros h st blob trs H. unfold ack_extend. destruct trs as [|[[first ver0] hs0] trs0]; [split; [apply hkeep_refl|reflexivity]|].
  remember ((first, ver0, hs0) :: trs0) as trs eqn:T. clear T trs0.
  split_all; cbn [fst]; try (split; [apply hkeep_refl|reflexivity]). split; [|reflexivity]. split.
  - intros b Hb. cbn [s_blobs set_blobs set_dtr]. apply zget_zset_other. intros X. subst b. congruence.
  - intros t Ht. cbn [s_dtr set_blobs set_dtr]. fold (ext_fold blob trs (s_dtr st) z0). apply (ext_fold_hid h); auto.
Qed.

(* ------------------------------------------------------------------ replies *)
Lemma find_task_in : forall ts op t, find_task ts op = Some t -> In t ts.
Proof. induction ts as [|a ts IH]; intros op t H; cbn in H; [discriminate|]. destruct (t_op a =? op); [inversion H; subst; left; reflexivity | right; eauto]. Qed.

Lemma NI_upd_task : forall h st t t', T1 h st -> In t (s_tasks st) -> t_blob t' = t_blob t ->
  NI h st (set_tasks (projd h st) (upd_task (s_tasks st) t')) (set_tasks st (upd_task (s_tasks st) t')).
Proof.
  intros h st t t' T I E. apply NI_same; auto. intros x Hx. cbn in Hx. apply upd_task_in in Hx as [Hx|Hx]; [exact (T x Hx)|]. subst x. rewrite E. exact (T t I).
Qed.

Lemma NI_task_reply : forall h st op err hint, T1 h st -> NI h st (task_reply (projd h st) op err hint) (task_reply st op err hint).
Proof.
  intros h st op err hint T. unfold task_reply. change (s_tasks (projd h st)) with (s_tasks st).
  destruct (find_task (s_tasks st) op) as [t|] eqn:F; [|apply NI_same; auto].
  pose proof (find_task_in _ _ _ F) as It. pose proof (T t It) as Hb.
  assert (FW : forall c, NI h st (wake 8 (finish_task (projd h st) t c)) (wake 8 (finish_task st t c))).
  { intros c. apply (NI_chain h st _ _ (wake 8)); [now apply NI_finish | intros s Ts; now apply NI_wake]. }
  destruct (negb (err =? cl_NoError)); [apply FW|].
  destruct (1 <? t_wait t); [apply (NI_upd_task h st t); auto|].
  change (known_of (projd h st) (t_gen t)) with (known_of st (t_gen t)).
  destruct ((t_kind t =? 5) && (t_phase t =? 1)).
  - split_all; try apply FW.
    Show. admit.
Admitted.
