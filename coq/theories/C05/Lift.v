(* C05/Lift.v — the C05 safety theorems over the executable trace model C05.Model (Cluster model + GC layer),
   using the Cluster invariants proved by the C01 builder (Cluster/{Sched,Visible,Lower}.v): G, low and
   their preservation by every event accepted by Sched.ok_ev 4, plus C05/Strict.v (the host set of a durable
   version never changes).

   Alphabet of the lifted theorems (predicate ok5_ev): every Cluster event accepted at ladder level 4 (client
   writes/reads, re-replication, fixVersion, lost / duplicated / failed requests, delayed replies, restarts,
   leader changes; carve-outs of Sched.ok_ev: superseded PullTract taking effect = the F21 trigger, crash inside
   PullTract, injected probe RPCs), tract reports (event 40) and deliveries of ANY instruction of the soup, any
   number of times, with or without disk fault (event 41).  Two side conditions of our own, spelled out in
   ok5_ev: a new blob does not take an id that an instruction already declared gone (blob ids are never
   reused), and a gone-instruction does not execute while a client write on that very (non-existent) blob is
   in progress.  NOT in the lifted alphabet: delete / undelete / metadata GC (events 42-45: they take records
   out of the Cluster state, which the Cluster invariants do not survive), RS events (46-51). *)
From Coq Require Import List ZArith Bool Lia.
From BLB Require Import Gen.Consts Cluster.Model Cluster.Proofs Cluster.Frame Cluster.Inv Cluster.Window
     Cluster.Attempts Cluster.Sched Cluster.Order Cluster.Contain Cluster.Visible Cluster.Lower.
From BLB Require C05.GC C05.Model.
From BLB Require Import C05.Strict.
Import ListNotations.
Open Scope Z_scope.

Module X5 := BLB.C05.Model.
Module GC := BLB.C05.GC.

(* ------------------------------------------------------------------ removing replicas keeps G and low *)
Section Remove.
  Variable st : state.
  Variable reps' : list (rkey * replica).
  Hypothesis SUB : forall k r, rget reps' k = Some r -> rget (s_reps st) k = Some r.
  (* a removed copy belongs to a durable tract, or no client write is in progress on its blob *)
  Hypothesis RC : forall h tk, rget (s_reps st) (h, tk) <> None -> rget reps' (h, tk) = None ->
                    tget (s_dtr st) tk <> None \/ (forall o, wop st o -> fst tk <> o_blob o).

  Let st' := set_reps st reps'.

  Lemma rm_none : forall k, rget (s_reps st) k = None -> rget reps' k = None.
  Proof. intros k H. destruct (rget reps' k) eqn:E; auto. apply SUB in E. congruence. Qed.

  Lemma rm_bumped : forall h tk v, bumpedk st h tk v -> bumpedk st' h tk v.
  Proof.
    intros h tk v B. unfold bumpedk in *. cbn [s_reps st' set_reps]. destruct (rget reps' (h, tk)) eqn:E; auto.
    apply SUB in E. rewrite E in B. exact B.
  Qed.

  Lemma rm_acc : forall o tk h v, acc st' o tk h v <-> acc st o tk h v.
  Proof. intros. unfold acc, acc_pool. cbn. tauto. Qed.

  Lemma rm_G : G st -> G st'.
  Proof.
    intros ((I & W1 & W2 & W3) & (A1 & A2 & A3) & (O1 & O2 & O3 & O4 & O5 & O6) & AK & T & (V1 & S & Q & QA & K0 & PA & AD)).
    split; [split|].
    - apply (inv_quiet st); [apply quiet_set_reps | exact I].
    - split; [|split].
      + intros k r H. cbn [s_reps st' set_reps] in H. apply SUB in H. exact (W1 _ _ H).
      + exact W2.
      + exact W3.
    - split; [split; [exact A1 | split; [exact A2|]]|].
      { intros ts b j r wr H. cbn [s_reps st' set_reps] in H. apply SUB in H. exact (A3 _ _ _ _ _ H). }
      split; [split; [exact O1 | split; [exact O2 | split; [|split; [exact O4 | split; [exact O5 | exact O6]]]]]|].
      { intros k r H. cbn [s_reps st' set_reps] in H. apply SUB in H. exact (O3 _ _ H). }
      split; [exact AK|]. split; [exact T|].
      split; [|split; [|split; [|split; [|split; [exact K0 | split; [exact PA | exact AD]]]]]].
      + intros b wid W j dv H g r Ia E R. cbn [s_reps st' set_reps] in R. apply SUB in R. exact (V1 _ _ _ _ _ _ _ _ Ia E R).
      + intros o tk h v Wo F L Ac. apply rm_acc in Ac. destruct (S o tk h v Wo F L Ac) as (B1 & B2 & B3).
        split; [exact B1|]. split.
        * intros N. cbn [s_reps st' set_reps]. intros X.
          destruct (RC h tk (B2 N) X) as [Y|Y]; [exact (Y N) | exact (Y o Wo F)].
        * intros r R. cbn [s_reps st' set_reps] in R. apply SUB in R. exact (B3 r R).
      + intros cli tk v Hk dv H g r oo Vk Nz E R C OK. cbn [s_reps st' set_reps] in R. apply SUB in R.
        destruct (Q cli tk v Hk dv H g r oo Vk Nz E R C OK) as [X|(h & Ih & Na & St)]; [left; exact X|].
        right. exists h. split; [exact Ih|]. split.
        * destruct oo; [|constructor]. cbn in *. intros Y. apply Na. apply rm_acc in Y. exact Y.
        * unfold stuck in *. cbn [s_reps st' set_reps]. destruct St as [N|[(rh & Rh & Lt)|Eq]].
          -- left. now apply rm_none.
          -- destruct (rget reps' (h, tk)) eqn:Z; [|left; reflexivity]. right. left.
             pose proof (SUB _ _ Z) as Z'. rewrite Rh in Z'. inversion Z'; subst. exists r0. split; auto.
          -- right. right. exact Eq.
      + intros o tk Wo F Ax. destruct (QA o tk Wo F Ax) as (dv & H & E & X). exists dv, H. split; [exact E|].
        intros L g r R C. cbn [s_reps st' set_reps] in R. apply SUB in R. exact (X L g r R C).
  Qed.

  Lemma rm_low : low st -> low st'.
  Proof.
    intros (R1 & HV & PS & E & PE & ID & OW & TK). split; [|split; [|split; [|split; [|split; [|split; [|split]]]]]].
    - intros k r H. cbn [s_reps st' set_reps] in H. apply SUB in H. exact (R1 _ _ H).
    - intros tk dv H h Et I. apply rm_bumped. exact (HV _ _ _ _ Et I).
    - exact PS.
    - intros e I C O. apply rm_bumped. exact (E e I C O).
    - exact PE.
    - exact ID.
    - exact OW.
    - intros t I. destruct (TK t I) as (P0 & P1 & P2 & P3 & P4). split; [exact P0|]. split; [exact P1|]. split; [exact P2|]. split.
      + intros Ph. destruct (P3 Ph) as [N X]. split; [exact N|]. intros h Ih. destruct (X h Ih) as [Y|Y]; [left; now apply rm_bumped | right; exact Y].
      + intros Ph. destruct (P4 Ph) as (N & X & Y). split; [exact N|]. split.
        * intros h Ih. apply rm_bumped. exact (X h Ih).
        * intros n In'. destruct (Y n In') as [Z|Z]; [left; now apply rm_bumped | right; exact Z].
  Qed.
End Remove.

(* ------------------------------------------------------------------ the two tget/zmem/aget are the same functions *)
Lemma gtget_eq : forall A (m : list (tkt * A)) k, GC.tget m k = tget m k.
Proof. induction m as [|[k' v] m IH]; intros k; cbn; auto; try (unfold GC.tid_eqb, tk_eqb; rewrite IH; reflexivity). Qed.

Lemma gaget_blobs : forall (l : list (Z * (Z * Z))) b,
  GC.aget (map (fun e => (fst e, snd (snd e))) l ++ []) b = match zget l b with Some (_, nt) => Some nt | None => None end.
Proof.
  intros l b. rewrite app_nil_r. induction l as [|[k [r nt]] l IH]; cbn; auto. destruct (b =? k); auto.
Qed.

(* ------------------------------------------------------------------ schedules *)
Definition write_on (cl : state) (b : Z) : bool := existsb (fun o => (o_kind o =? 3) && (o_blob o =? b)) (s_ops cl).

Definition deliver_ok (x : X5.xstate) (n : Z) : bool :=
  match nth_error (X5.x_soup x) (Z.to_nat n) with
  | None => true
  | Some i => forallb (fun t => negb (write_on (X5.x_cl x) (fst t))) (X5.i_gone i)
  end.

Definition fresh_blob (x : X5.xstate) (b : Z) : bool :=
  forallb (fun i => forallb (fun t => negb (fst t =? b)) (X5.i_gone i)) (X5.x_soup x).

Definition ok5_ev (x : X5.xstate) (ev : list Z) : bool :=
  match ev with
  | [] => false
  | c :: a =>
      if c <? 40 then ok_ev 4 (X5.x_cl x) ev && (if c =? 2 then fresh_blob x (hd 0 a) else true)
      else if c =? 40 then match a with _ :: _ :: _ :: _ => true | _ => false end
      else if c =? 41 then match a with [n; _; _] => deliver_ok x n | _ => false end
      else false
  end.

Fixpoint xrun (x : X5.xstate) (evs : list (list Z)) : X5.xstate :=
  match evs with [] => x | ev :: r => xrun (fst (X5.step x ev)) r end.
Fixpoint ok5_run (x : X5.xstate) (evs : list (list Z)) : bool :=
  match evs with [] => true | ev :: r => ok5_ev x ev && ok5_run (fst (X5.step x ev)) r end.

(* ------------------------------------------------------------------ the invariant of the lifted model *)
Definition SA (x : X5.xstate) : Prop :=
  forall i t v, In i (X5.x_soup x) -> In (t, v) (X5.i_old i) ->
    exists dv hs, tget (s_dtr (X5.x_cl x)) t = Some (dv, hs) /\ v <= dv /\ (In (X5.i_ts i) hs -> v < dv).
Definition SB (x : X5.xstate) : Prop :=
  forall i t, In i (X5.x_soup x) -> In t (X5.i_gone i) -> GC.is_rs t = false -> zget (s_blobs (X5.x_cl x)) (fst t) = None.

Definition xinv (x : X5.xstate) : Prop :=
  G (X5.x_cl x) /\ low (X5.x_cl x) /\ X5.x_del x = [] /\ X5.x_deltr x = [] /\ SA x /\ SB x.

Lemma G_dur : forall st, G st -> dur_ok st.
Proof. intros st (((D & _) & _) & _). exact D. Qed.

Lemma xinv_init : xinv X5.init_x.
Proof.
  split; [exact G_init|]. split; [exact low_init|]. split; [reflexivity|]. split; [reflexivity|].
  split; intros i t; cbn; intros; contradiction.
Qed.

(* a Cluster event of the schedule *)
Lemma SA_cluster : forall x cl', sadv (X5.x_cl x) cl' -> dur_ok (X5.x_cl x) -> SA x -> SA (X5.set_cl x cl').
Proof.
  intros x cl' S D A i t v Hi Ho. cbn in Hi. destruct (A i t v Hi Ho) as (dv & hs & E & L & K).
  destruct (S D) as [_ [SD _]]. destruct (SD _ _ _ E) as (dv' & hs' & E' & L' & Q). exists dv', hs'. cbn. split; [exact E'|].
  split; [lia|]. intros In'. destruct (Z.eq_dec dv' dv) as [X|X]; [rewrite (Q X) in In'; specialize (K In'); lia | lia].
Qed.

Lemma xinv_cluster : forall x ev, hd 0 ev <? 40 = true -> ok5_ev x ev = true -> xinv x -> xinv (fst (X5.step x ev)).
Proof.
  intros x ev C OK (GS & LS & D1 & D2 & A & B).
  destruct ev as [|c a]; [discriminate OK|]. cbn [hd] in C. unfold ok5_ev in OK. rewrite C in OK.
  apply andb_true_iff in OK as [OK FB]. unfold X5.step. rewrite C.
  destruct (step (X5.x_cl x) (c :: a)) as [cl o] eqn:S. cbn [fst].
  assert (CL : cl = fst (step (X5.x_cl x) (c :: a))) by (rewrite S; reflexivity).
  split; [|split; [|split; [|split; [|split]]]]; cbn [X5.x_cl X5.set_cl X5.upd X5.x_del X5.x_deltr].
  - rewrite CL. eapply G_step; eauto. now apply low_lwp.
  - rewrite CL. eapply low_step; eauto.
  - exact D1.
  - exact D2.
  - destruct (c =? 2) eqn:C2.
    + apply Z.eqb_eq in C2. subst c. destruct (newblob_step (X5.x_cl x) a) as [DT _]. rewrite <- CL in DT.
      intros i t v Hi Ho. cbn in Hi. destruct (A i t v Hi Ho) as (dv & hs & E & L & K). exists dv, hs. cbn. rewrite DT. auto.
    + apply SA_cluster; auto; [|now apply G_dur]. rewrite CL. apply sadv_step. cbn. intros X. subst c. discriminate C2.
  - intros i t Hi Hg R. cbn in Hi. cbn [X5.x_cl X5.set_cl X5.upd]. specialize (B i t Hi Hg R).
    destruct (c =? 2) eqn:C2.
    + apply Z.eqb_eq in C2. subst c. destruct (newblob_step (X5.x_cl x) a) as [_ NB]. rewrite <- CL in NB.
      destruct (NB _ B) as [Y|Y]; [exact Y|]. exfalso.
      unfold fresh_blob in FB. rewrite forallb_forall in FB. specialize (FB _ Hi). rewrite forallb_forall in FB. specialize (FB _ Hg).
      apply negb_true_iff in FB. apply Z.eqb_neq in FB. congruence.
    + assert (SV : sadv (X5.x_cl x) cl) by (rewrite CL; apply sadv_step; cbn; intros X; subst c; discriminate C2).
      destruct (SV (G_dur _ GS)) as [_ [_ BS]]. exact (BS _ B).
Qed.

(* ------------------------------------------------------------------ CheckForGarbage's verdicts *)
Lemma chk_old : forall bl tr ch s t v,
  GC.check_one_f bl tr ch s t = GC.Old v ->
  GC.is_rs t = false /\ exists nt hs, bl (fst t) = Some nt /\ snd t < nt /\ tr t = Some (v, hs) /\ GC.zmem s hs = false.
Proof.
  intros bl tr ch s t v H. unfold GC.check_one_f in H. destruct (GC.is_rs t) eqn:R.
  - destruct (GC.lookup_piece ch (snd t)) as [h|]; [destruct (h =? s)|]; discriminate.
  - split; [reflexivity|]. destruct (bl (fst t)) as [nt|]; [|discriminate].
    destruct (nt <=? snd t) eqn:Q; [discriminate|]. apply Z.leb_gt in Q.
    destruct (tr t) as [[v' hs]|]; [|discriminate]. destruct (GC.zmem s hs) eqn:M; [discriminate|].
    inversion H; subst. exists nt, hs. auto.
Qed.

Lemma chk_gone : forall bl tr ch s t,
  GC.check_one_f bl tr ch s t = GC.Gone -> GC.is_rs t = false -> bl (fst t) = None.
Proof.
  intros bl tr ch s t H R. unfold GC.check_one_f in H. rewrite R in H.
  destruct (bl (fst t)) as [nt|]; auto. destruct (nt <=? snd t); [discriminate|].
  destruct (tr t) as [[v' hs]|]; [|discriminate]. destruct (GC.zmem s hs); discriminate.
Qed.

Lemma gzmem_in : forall x l, GC.zmem x l = false -> ~ In x l.
Proof.
  intros x l H I. unfold GC.zmem in H. assert (existsb (Z.eqb x) l = true); [|congruence].
  apply existsb_exists. exists x. split; auto. apply Z.eqb_refl.
Qed.

(* ------------------------------------------------------------------ a tract report (event 40) *)
Lemma ok_ev_heartbeat : forall st ts, ok_ev 4 st [11; ts] = true.
Proof. intros. reflexivity. Qed.

Lemma xinv_report : forall x ts ids, xinv x -> xinv (fst (X5.step_report x ts ids)).
Proof.
  intros x ts ids I.
  assert (I1 : xinv (X5.set_cl x (fst (step (X5.x_cl x) [11; ts])))).
  { pose proof (xinv_cluster x [11; ts] eq_refl) as H.
    assert (E : fst (X5.step x [11; ts]) = X5.set_cl x (fst (step (X5.x_cl x) [11; ts]))).
    { unfold X5.step. change (11 <? 40) with true. cbn iota. destruct (step (X5.x_cl x) [11; ts]); reflexivity. }
    rewrite <- E. apply H; [reflexivity | exact I]. }
  unfold X5.step_report. set (cl1 := fst (step (X5.x_cl x) [11; ts])) in *. set (x1 := X5.set_cl x cl1) in *.
  destruct (GC.check_for_garbage (X5.proj x1) (X5.pending_of x1 (s_gen cl1)) ts ids) as [old gone] eqn:CG.
  destruct I1 as (GS & LS & D1 & D2 & A & B).
  assert (NEW : xinv (X5.upd x1 cl1 (X5.x_soup x1 ++ [{| X5.i_gen := s_gen cl1; X5.i_ts := ts; X5.i_old := old; X5.i_gone := gone |}])
                       (X5.x_del x1) (X5.x_deltr x1) (X5.x_chunks x1) (X5.x_pend x1) (X5.x_rst x1) (X5.x_scan x1) (X5.x_nblobs x1))).
  { unfold GC.check_for_garbage, GC.check_for_garbage_f in CG. injection CG as EO EG.
    split; [exact GS|]. split; [exact LS|]. split; [exact D1|]. split; [exact D2|]. split.
    - intros i t v Hi Ho. cbn [X5.x_soup X5.upd] in Hi. apply in_app_iff in Hi as [Hi|[Hi|[]]]; [exact (A i t v Hi Ho)|].
      subst i. cbn [X5.i_old X5.i_ts] in *. rewrite <- EO in Ho. apply GC.olds_f_in in Ho as [_ Hc].
      apply chk_old in Hc as (_ & nt & hs & _ & _ & Ht & Hm).
      change (GC.tget (s_dtr (X5.x_cl x1) ++ X5.x_deltr x1) t = Some (v, hs)) in Ht.
      rewrite D2, app_nil_r, gtget_eq in Ht. exists v, hs. cbn [X5.x_cl X5.upd]. split; [exact Ht|]. split; [lia|].
      intros X. exfalso. exact (gzmem_in _ _ Hm X).
    - intros i t Hi Hg R. cbn [X5.x_soup X5.upd] in Hi. apply in_app_iff in Hi as [Hi|[Hi|[]]]; [exact (B i t Hi Hg R)|].
      subst i. cbn [X5.i_gone] in Hg. rewrite <- EG in Hg. apply filter_In in Hg as [Hg _]. apply GC.gones_f_in in Hg as [_ Hc].
      apply chk_gone in Hc; [|exact R].
      change (GC.aget (map (fun e => (fst e, snd (snd e))) (s_blobs (X5.x_cl x1)) ++ map (fun e => (fst e, snd (fst (snd e)))) (X5.x_del x1)) (fst t) = None) in Hc.
      rewrite D1 in Hc. cbn [map] in Hc. rewrite gaget_blobs in Hc.
      change (zget (s_blobs (X5.x_cl x1)) (fst t) = None).
      destruct (zget (s_blobs (X5.x_cl x1)) (fst t)) as [[r0 nt]|] eqn:Z; [exfalso|reflexivity].
      assert (Z' : zget (s_blobs (X5.x_cl x)) (fst t) = Some (r0, nt)) by exact Z.
      try rewrite Z in Hc; try rewrite Z' in Hc; discriminate. }
  destruct old; [destruct gone|]; cbn [fst]; try exact NEW. split; [exact GS|]. split; [exact LS|]. auto.
Qed.

(* ------------------------------------------------------------------ a delivery (event 41) *)
Lemma rget_rdel_some : forall m k0 k r, rget (rdel m k0) k = Some r -> rget m k = Some r.
Proof.
  intros m k0 k r H. destruct (rk_eqb k k0) eqn:E.
  - apply rk_eqb_eq in E. subst. rewrite rget_rdel_same in H. discriminate.
  - rewrite rget_rdel_other in H; auto. intros X. subst. rewrite rk_eqb_refl in E. discriminate.
Qed.

Lemma fold_rdel_sub : forall ts l m k r,
  rget (fold_left (fun m0 t => rdel m0 (ts, t)) l m) k = Some r -> rget m k = Some r.
Proof.
  induction l as [|a l IH]; intros m k r H; cbn in H; auto. apply IH in H. eapply rget_rdel_some; eauto.
Qed.

Lemma fold_rdel_none : forall ts l m h tk,
  rget (fold_left (fun m0 t => rdel m0 (ts, t)) l m) (h, tk) = None -> rget m (h, tk) <> None -> h = ts /\ In tk l.
Proof.
  induction l as [|a l IH]; intros m h tk H N; cbn in H; [congruence|].
  destruct (rk_eqb (h, tk) (ts, a)) eqn:E.
  - apply rk_eqb_eq in E. inversion E; subst. split; auto. left; auto.
  - destruct (IH _ _ _ H) as [X Y]; [|split; auto; right; auto].
    rewrite rget_rdel_other; auto. intros X. rewrite X in E. rewrite rk_eqb_refl in E. discriminate.
Qed.

(* what a delivery removes *)
Definition removed (x : X5.xstate) (i : X5.instr) (fault : Z) : list GC.tid :=
  GC.gc_removals (X5.ver_at (X5.x_cl x) (X5.i_ts i)) (map (fun o => (o, negb (fault =? 0))) (X5.i_old i)) (X5.i_gone i).

Lemma removed_spec : forall x i f t, In t (removed x i f) ->
  (exists v r, In (t, v) (X5.i_old i) /\ rget (s_reps (X5.x_cl x)) (X5.i_ts i, t) = Some r /\ r_ver r <= v) \/ In t (X5.i_gone i).
Proof.
  intros x i f t H. unfold removed, GC.gc_removals in H. apply in_app_iff in H as [H|H].
  - left. apply in_map_iff in H as (o & E & Hf). apply filter_In in Hf as [Hm Hr].
    apply in_map_iff in Hm as ([t' v] & Eo & Hin). subst o. cbn in E. subst t'. cbn in Hr.
    unfold GC.old_removes, X5.ver_at in Hr. cbn in Hr.
    destruct (rget (s_reps (X5.x_cl x)) (X5.i_ts i, t)) as [r|] eqn:R; [|discriminate].
    apply andb_true_iff in Hr as [_ Hv]. apply Z.leb_le in Hv. exists v, r. auto.
  - right. apply filter_In in H as [H _]. exact H.
Qed.

Lemma xinv_deliver : forall x n f, deliver_ok x n = true -> xinv x -> xinv (fst (X5.step_deliver x n f)).
Proof.
  intros x n f OK I. unfold X5.step_deliver.
  destruct (nth_error (X5.x_soup x) (Z.to_nat n)) as [i|] eqn:N; [|exact I]. cbn [fst].
  destruct I as (GS & LS & D1 & D2 & A & B). pose proof (nth_error_In _ _ N) as Hi.
  unfold deliver_ok in OK. rewrite N in OK. rewrite forallb_forall in OK.
  change (xinv (X5.set_cl x (set_reps (X5.x_cl x) (fold_left (fun m t => rdel m (X5.i_ts i, t)) (removed x i f) (s_reps (X5.x_cl x)))))).
  set (reps' := fold_left (fun m t => rdel m (X5.i_ts i, t)) (removed x i f) (s_reps (X5.x_cl x))).
  assert (SUB : forall k r, rget reps' k = Some r -> rget (s_reps (X5.x_cl x)) k = Some r) by (intros k r H; eapply fold_rdel_sub; eauto).
  assert (RC : forall h tk, rget (s_reps (X5.x_cl x)) (h, tk) <> None -> rget reps' (h, tk) = None ->
                 tget (s_dtr (X5.x_cl x)) tk <> None \/ (forall o, wop (X5.x_cl x) o -> fst tk <> o_blob o)).
  { intros h tk P Q. destruct (fold_rdel_none _ _ _ _ _ Q P) as [_ In']. apply removed_spec in In' as [(v & r & Ho & _)|Hg].
    - left. destruct (A i tk v Hi Ho) as (dv & hs & E & _). congruence.
    - right. intros o [Io Ko] X. specialize (OK _ Hg). apply negb_true_iff in OK. unfold write_on in OK.
      assert (existsb (fun o0 => (o_kind o0 =? 3) && (o_blob o0 =? fst tk)) (s_ops (X5.x_cl x)) = true); [|congruence].
      apply existsb_exists. exists o. split; auto. rewrite Ko, X, !Z.eqb_refl. reflexivity. }
  split; [apply rm_G; auto|]. split; [apply rm_low; auto|]. split; [exact D1|]. split; [exact D2|]. split; [exact A|exact B].
Qed.

(* the receiver is the addressed server, or the request is refused and nothing happens *)
Lemma deliver_to_cases : forall x n f r,
  fst (X5.step_deliver_to x n f r) = fst (X5.step_deliver x n f) \/ fst (X5.step_deliver_to x n f r) = X5.set_cl x (X5.x_cl x) \/
  fst (X5.step_deliver_to x n f r) = x.
Proof.
  intros x n f r. unfold X5.step_deliver_to. destruct (nth_error (X5.x_soup x) (Z.to_nat n)) as [i|]; [|right; right; reflexivity].
  destruct (r =? X5.i_ts i); [left; destruct (X5.step_deliver x n f); reflexivity | right; left; reflexivity].
Qed.

Lemma xinv_setcl_same : forall x, xinv x -> xinv (X5.set_cl x (X5.x_cl x)).
Proof. intros x (GS & LS & D1 & D2 & A & B). split; [exact GS|]. split; [exact LS|]. split; [exact D1|]. split; [exact D2|]. split; [exact A|exact B]. Qed.

Theorem xinv_step : forall x ev, ok5_ev x ev = true -> xinv x -> xinv (fst (X5.step x ev)).
Proof.
  intros x ev OK I. destruct ev as [|c a]; [discriminate OK|].
  destruct (c <? 40) eqn:C. { apply xinv_cluster; auto. }
  unfold ok5_ev in OK. rewrite C in OK. unfold X5.step. rewrite C.
  destruct (c =? 40). { destruct a as [|a0 [|ts [|n r]]]; try discriminate OK. apply xinv_report; auto. }
  destruct (c =? 41).
  { destruct a as [|n [|f [|rv [|z r]]]]; try discriminate OK.
    destruct (deliver_to_cases x n f rv) as [E|[E|E]]; rewrite E; [apply xinv_deliver; auto | apply xinv_setcl_same; auto | exact I]. }
  discriminate OK.
Qed.

Theorem xinv_run : forall evs x, ok5_run x evs = true -> xinv x -> xinv (xrun x evs).
Proof.
  induction evs as [|ev r IH]; intros x OK I; cbn; auto. cbn in OK. apply andb_true_iff in OK as [O1 O2].
  apply IH; auto. now apply xinv_step.
Qed.

(* ------------------------------------------------------------------ the lifted theorems *)
Lemma deliver_is_removed : forall x n f i, nth_error (X5.x_soup x) (Z.to_nat n) = Some i ->
  fst (X5.step_deliver x n f) = X5.set_cl x (X5.remove_all (X5.x_cl x) (X5.i_ts i) (removed x i f)).
Proof. intros x n f i H. unfold X5.step_deliver. rewrite H. reflexivity. Qed.

Theorem safe_replicated_cluster : forall evs,
  ok5_run X5.init_x evs = true ->
  let x := xrun X5.init_x evs in
  forall i f t, In i (X5.x_soup x) -> In t (removed x i f) -> GC.is_rs t = false ->
  match zget (s_blobs (X5.x_cl x)) (fst t) with
  | None => True
  | Some (_, nt) => snd t < nt /\ forall dv hs, tget (s_dtr (X5.x_cl x)) t = Some (dv, hs) -> ~ In (X5.i_ts i) hs
  end.
Proof.
  intros evs OK x i f t Hi Hr R. destruct (xinv_run evs _ OK xinv_init) as (GS & LS & _ & _ & A & B). fold x in GS, LS, A, B.
  apply removed_spec in Hr as [(v & r & Ho & Rg & Le)|Hg].
  - destruct (A i t v Hi Ho) as (dv & hs & E & L & K). destruct (G_dur _ GS) as [_ DD]. destruct t as [b j].
    destruct (DD _ _ _ _ E) as (_ & repl & nt & Z & Rng). cbn [fst snd]. rewrite Z. split; [lia|].
    intros dv' hs' E' In'. rewrite E in E'. inversion E'; subst dv' hs'. specialize (K In').
    destruct (low_lwp _ LS) as [HV _]. specialize (HV _ _ _ _ _ E In' Rg). lia.
  - rewrite (B i t Hi Hg R). exact I.
Qed.

Theorem keeps_uncommitted_repair_cluster : forall evs,
  ok5_run X5.init_x evs = true ->
  let x := xrun X5.init_x evs in
  forall i f t dv hs r, In i (X5.x_soup x) -> GC.is_rs t = false ->
  tget (s_dtr (X5.x_cl x)) t = Some (dv, hs) -> rget (s_reps (X5.x_cl x)) (X5.i_ts i, t) = Some r -> dv < r_ver r ->
  ~ In t (removed x i f).
Proof.
  intros evs OK x i f t dv hs r Hi R E Rg Lt Hr. destruct (xinv_run evs _ OK xinv_init) as (GS & LS & _ & _ & A & B). fold x in GS, LS, A, B.
  apply removed_spec in Hr as [(v & r' & Ho & Rg' & Le)|Hg].
  - rewrite Rg in Rg'. inversion Rg'; subst r'. destruct (A i t v Hi Ho) as (dv' & hs' & E' & L & _). rewrite E in E'. inversion E'; subst. lia.
  - pose proof (B i t Hi Hg R) as Z. destruct (G_dur _ GS) as [_ DD]. destruct t as [b j]. destruct (DD _ _ _ _ E) as (_ & repl & nt & Z' & _).
    cbn [fst] in Z. congruence.
Qed.

(* ------------------------------------------------------------------ the key lemma over the pure Cluster model *)
Lemma run_state_app : forall a st b, run_state st (a ++ b) = run_state (run_state st a) b.
Proof. induction a as [|e a IH]; intros st b; cbn; auto. Qed.

Lemma dstrict_run : forall evs st, Inv st -> dstrict st (run_state st evs).
Proof.
  induction evs as [|ev evs IH]; intros st I; cbn [run_state]; [apply strict_refl|].
  assert (S1 : dstrict st (fst (step st ev))).
  { destruct (Z.eq_dec (hd 0 ev) 2) as [E|N].
    - destruct ev as [|c a]; [cbn in E; lia|]. cbn in E. subst c. destruct (newblob_step st a) as [DT _].
      intros tk dv hs H. rewrite DT. exists dv, hs. repeat split; auto; lia.
    - destruct (sadv_step st ev N (proj1 I)) as [_ [S _]]. exact S. }
  specialize (IH _ (inv_step st ev I)). intros tk dv hs H.
  destruct (S1 _ _ _ H) as (dv1 & hs1 & G1 & L1 & E1). destruct (IH _ _ _ G1) as (dv2 & hs2 & G2 & L2 & E2).
  exists dv2, hs2. split; auto. split; [lia|]. intros X. assert (dv1 = dv) by lia. subst dv1. rewrite E2 by lia. auto.
Qed.

(* a server that is not among the hosts of a tract at durable version d0 and is among them later is there at a
   strictly greater version d1 (every schedule), and the copy it then holds is of version >= d1 >= d0 + 1
   (schedules of ladder level 4) *)
Theorem rehosted_copy_is_newer : forall evs1 evs2 tk d0 H0 d1 H1 s,
  let st1 := run_state init_state evs1 in
  let st2 := run_state st1 evs2 in
  tget (s_dtr st1) tk = Some (d0, H0) -> ~ In s H0 ->
  tget (s_dtr st2) tk = Some (d1, H1) -> In s H1 ->
  d0 < d1 /\
  (ok_run 4 init_state (evs1 ++ evs2) = true -> forall r, rget (s_reps st2) (s, tk) = Some r -> d0 + 1 <= r_ver r).
Proof.
  intros evs1 evs2 tk d0 H0 d1 H1 s st1 st2 E0 N0 E1 I1.
  assert (Iv : Inv st1) by (apply inv_reachable; exact inv_init).
  destruct (dstrict_run evs2 st1 Iv _ _ _ E0) as (dv & hs & E & L & Q). fold st2 in E. rewrite E1 in E. inversion E; subst dv hs.
  assert (LT : d0 < d1). { destruct (Z.eq_dec d1 d0) as [X|X]; [|lia]. rewrite (Q X) in I1. contradiction. }
  split; [exact LT|]. intros OK r Rg.
  pose proof (lower_window 4 (evs1 ++ evs2) OK) as LW. cbn zeta in LW. rewrite run_state_app in LW. fold st1 st2 in LW.
  specialize (LW _ _ _ _ _ E1 I1 Rg). lia.
Qed.
