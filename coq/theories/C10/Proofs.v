(* C10/Proofs.v — lemmas for the C10 theorems, curator half: snapshot / replay / restart agreement. *)
From Coq Require Import List Arith NArith Bool Lia ZifyN ZifyNat ZifyBool.
From BLB Require Import Gen.Consts Meta.AMap Meta.Curator Meta.CuratorFacts.
Import ListNotations.
Open Scope N_scope.

Lemma apply_is_a_function_lemma : forall s i c r1 r2, apply s i c = r1 -> apply s i c = r2 -> r1 = r2.
Proof. intros; congruence. Qed.

(* ---------- durable level ---------- *)

(* every write entry of a history has an index at or below the txn_index the history ends with *)
Definition covered (d : dstate) (e : N * cmd) : Prop := is_write (snd e) = true -> fst e <= d_index d.

Lemma run_covers : forall cs d d' r, dapply_all d cs = Some (d', r) -> Forall (covered d') cs.
Proof.
  induction cs as [|[i c] cs IH]; intros d d' r H; cbn [apply_all dapply_all] in H; [constructor|].
  destruct (dapply d i c) as [[d1 res]|] eqn:E; [|discriminate].
  destruct (dapply_all d1 cs) as [[d2 rs]|] eqn:E2; [|discriminate]. inv H.
  constructor; [|eauto].
  unfold covered; cbn. intros Hw. apply dapply_index in E. rewrite Hw in E.
  apply dapply_all_index_mono in E2. destruct (d_index d <? i) eqn:E3; cbn in E; lia.
Qed.

Lemma dapply_nonwrite_some : forall d i c, is_write c = false -> exists r, dapply d i c = Some (d, r).
Proof.
  intros d i c Hw. unfold dapply. destruct (i <=? d_index d); [eauto|].
  destruct c; try discriminate; eauto.
Qed.

(* handing such entries to the replica again changes nothing *)
Lemma redelivery_noop : forall cs d, Forall (covered d) cs ->
  exists rs, dapply_all d cs = Some (d, rs) /\ length rs = length cs.
Proof.
  induction cs as [|[i c] cs IH]; intros d H; [exists []; auto|].
  pose proof (Forall_inv H) as H1. pose proof (Forall_inv_tail H) as H2.
  destruct (IH d H2) as (rs & E & L). cbn [dapply_all].
  destruct (is_write c) eqn:Hw.
  - rewrite dapply_skip by (apply H1; exact Hw). rewrite E. exists (r_nil :: rs). cbn. auto.
  - destruct (dapply_nonwrite_some d i c Hw) as [r Er]. rewrite Er, E. exists (r :: rs). cbn. auto.
Qed.

(* a step that leaves txn_index alone leaves the database alone *)
Lemma dapply_same_index : forall d i c d' r, dapply d i c = Some (d', r) -> d_index d' = d_index d -> d' = d.
Proof.
  intros d i c d' r H Hi. pose proof (dapply_index _ _ _ _ _ H) as E.
  destruct (i <=? d_index d) eqn:E1.
  - rewrite dapply_skip in H by lia. inv H. reflexivity.
  - destruct (is_write c) eqn:Hw.
    + assert (d_index d <? i = true) by lia. rewrite H0 in E. cbn in E. lia.
    + eapply dapply_nonwrite; eauto.
Qed.

Lemma run_same_index : forall cs d d' r, dapply_all d cs = Some (d', r) -> d_index d' <= d_index d -> d' = d.
Proof.
  induction cs as [|[i c] cs IH]; intros d d' r H Hi; cbn [apply_all dapply_all] in H; [inv H; reflexivity|].
  destruct (dapply d i c) as [[d1 res]|] eqn:E; [|discriminate].
  destruct (dapply_all d1 cs) as [[d2 rs]|] eqn:E2; [|discriminate]. inv H.
  pose proof (dapply_all_index_mono _ _ _ _ E2).
  pose proof (dapply_index _ _ _ _ _ E) as Ei.
  assert (d_index d <= d_index d1) by (destruct ((d_index d <? i) && is_write c) eqn:X; lia).
  assert (d1 = d) by (eapply dapply_same_index; eauto; lia). subst d1.
  eapply IH; eauto.
Qed.

Definition drestore (d snap : dstate) : dstate := if d_index snap <=? d_index d then d else snap.

Lemma firstn_skipn_split : forall {A} (l : list A) sf j, (sf <= j)%nat -> (j <= length l)%nat ->
  skipn sf l = skipn sf (firstn j l) ++ skipn j l.
Proof.
  intros A l sf j H1 H2.
  rewrite <- (firstn_skipn j l) at 1. rewrite skipn_app.
  rewrite firstn_length_le by lia.
  replace (sf - j)%nat with 0%nat by lia. reflexivity.
Qed.

Lemma firstn_firstn_split : forall {A} (l : list A) k j, (k <= j)%nat ->
  firstn j l = firstn k l ++ skipn k (firstn j l).
Proof.
  intros. rewrite <- (firstn_skipn k (firstn j l)) at 1. rewrite firstn_firstn.
  replace (Nat.min k j) with k by lia. reflexivity.
Qed.

Lemma Forall_skipn : forall {A} (P : A -> Prop) n l, Forall P l -> Forall P (skipn n l).
Proof.
  induction n; intros; cbn; [auto|]. destruct l; [constructor|]. apply IHn. eapply Forall_inv_tail; eauto.
Qed.

(* the durable heart of replicas_agree: no hypothesis on the commands or their indices *)
Lemma replicas_agree_durable_lemma :
  forall (cs : list (N * cmd)) (k j sf : nat) d0 dk rk dj rj dfull rfull,
    (k <= j)%nat -> (j <= length cs)%nat -> (sf <= j)%nat ->
    dapply_all d0 (firstn k cs) = Some (dk, rk) ->
    dapply_all d0 (firstn j cs) = Some (dj, rj) ->
    dapply_all d0 cs = Some (dfull, rfull) ->
    drestore dk dj = dj /\
    exists r', dapply_all dj (skipn sf cs) = Some (dfull, r') /\ skipn (j - sf) r' = skipn j rfull.
Proof.
  intros cs k j sf d0 dk rk dj rj dfull rfull Hkj Hj Hsf Hk Hjr Hfull.
  split.
  - unfold drestore. destruct (d_index dj <=? d_index dk) eqn:E; [|reflexivity].
    rewrite (firstn_firstn_split cs k j Hkj) in Hjr.
    apply dapply_all_app in Hjr. destruct Hjr as (d1 & r1 & r2 & A1 & A2 & _).
    rewrite Hk in A1. inv A1. symmetry. eapply run_same_index; eauto. lia.
  - rewrite <- (firstn_skipn j cs) in Hfull.
    apply dapply_all_app in Hfull. destruct Hfull as (d1 & r1 & r2 & A1 & A2 & A3 & A4).
    rewrite Hjr in A1. inv A1.
    pose proof (run_covers _ _ _ _ Hjr) as Hc.
    destruct (redelivery_noop (skipn sf (firstn j cs)) d1 (Forall_skipn _ _ _ Hc)) as (rs & E & L).
    exists (rs ++ r2). split.
    + rewrite (firstn_skipn_split cs sf j Hsf Hj). eapply dapply_all_app_intro; eauto.
    + rewrite skipn_length, firstn_length_le in L by lia.
      rewrite skipn_app. rewrite <- L at 1. rewrite skipn_all. cbn [app].
      replace (j - sf - length rs)%nat with 0%nat by lia. cbn [skipn].
      rewrite skipn_app. rewrite firstn_length_le in A4 by lia. rewrite <- A4 at 1. rewrite skipn_all.
      replace (j - length r1)%nat with 0%nat by lia. reflexivity.
Qed.

(* ---------- process level: the volatile checksum fields and VerifyChecksum ---------- *)

(* every VerifyChecksum of the history carries the checksum that the ChecksumCommand at that index returned
   (ConsistencyCheck builds it from the ChecksumResult), and never names the handler's initial index *)
Definition ck_consistent (cs : list (N * cmd)) : Prop :=
  forall i1 sb sr n ock i2 ix ck,
    In (i1, CChecksum sb sr n ock) cs -> In (i2, CVerify ix ck) cs -> ix = i1 -> ck = ock.
Definition verify_not_initial (cs : list (N * cmd)) : Prop :=
  forall i ix ck, In (i, CVerify ix ck) cs -> ix <> v_ckidx v_init.

Definition vol_ok (cs : list (N * cmd)) (v : vstate) : Prop :=
  v = v_init \/ exists sb sr n, In (v_ckidx v, CChecksum sb sr n (v_ck v)) cs.

Lemma apply_vol_ok : forall cs d v i c d' v' r,
  apply (d, v) i c = Some ((d', v'), r) -> In (i, c) cs -> vol_ok cs v -> vol_ok cs v'.
Proof.
  intros cs d v i c d' v' r H Hin Hv. unfold apply in H.
  destruct (i <=? d_index d); [inv H; exact Hv|].
  destruct c;
    try (destruct (d_ro (set_index d i)); [inv H; exact Hv|];
         match type of H with context [apply_mut ?a ?b] => destruct (apply_mut a b) as [[d2 r2]|] end;
         [inv H; exact Hv|discriminate]);
    try (inv H; exact Hv).
  - inv H. right. cbn. eauto.
  - destruct ((v_ckidx v =? idx) && negb (v_ck v =? ck)); [discriminate|inv H; exact Hv].
Qed.

Lemma apply_all_vol_ok : forall cs cs' d v d' v' r,
  apply_all (d, v) cs' = Some ((d', v'), r) -> incl cs' cs -> vol_ok cs v -> vol_ok cs v'.
Proof.
  induction cs' as [|[i c] cs' IH]; intros d v d' v' r H Hi Hv; cbn [apply_all dapply_all] in H; [inv H; exact Hv|].
  destruct (apply (d, v) i c) as [[[d1 v1] res]|] eqn:E; [|discriminate].
  destruct (apply_all (d1, v1) cs') as [[s2 rs]|] eqn:E2; [|discriminate]. inv H.
  eapply IH; eauto.
  - eapply incl_cons_inv; eauto.
  - eapply apply_vol_ok; eauto. apply Hi. now left.
Qed.

Lemma apply_all_dapply_all : forall cs d v s' r,
  apply_all (d, v) cs = Some (s', r) -> dapply_all d cs = Some (fst s', r).
Proof.
  induction cs as [|[i c] cs IH]; intros d v s' r H; cbn [apply_all dapply_all] in H; [inv H; reflexivity|].
  destruct (apply (d, v) i c) as [[[d1 v1] res]|] eqn:E; [|discriminate].
  destruct (apply_all (d1, v1) cs) as [[s2 rs]|] eqn:E2; [|discriminate]. inv H.
  apply apply_dapply in E. cbn in E. cbn [dapply_all]. rewrite E. erewrite IH; eauto.
Qed.

Lemma dapply_all_apply_all : forall cs cs' d v d' r,
  dapply_all d cs' = Some (d', r) -> incl cs' cs ->
  ck_consistent cs -> verify_not_initial cs -> vol_ok cs v ->
  exists v', apply_all (d, v) cs' = Some ((d', v'), r).
Proof.
  induction cs' as [|[i c] cs' IH]; intros d v d' r H Hi Hc Hn Hv; cbn [apply_all dapply_all] in H; [inv H; cbn; eauto|].
  destruct (dapply d i c) as [[d1 res]|] eqn:E; [|discriminate].
  destruct (dapply_all d1 cs') as [[d2 rs]|] eqn:E2; [|discriminate]. inv H.
  assert (Hin : In (i, c) cs) by (apply Hi; now left).
  assert (Hver : forall ix ck, c = CVerify ix ck -> d_index d < i -> v_ckidx v = ix -> v_ck v = ck).
  { intros ix ck -> _ Hx. destruct Hv as [-> | (sb & sr & n & Hck)].
    - exfalso. eapply Hn; eauto.
    - symmetry. eapply Hc; eauto. }
  destruct (dapply_apply d v i c d1 res E Hver) as [v1 E1].
  destruct (IH d1 v1 _ _ E2) as [v2 E3]; auto.
  - eapply incl_cons_inv; eauto.
  - eapply apply_vol_ok; eauto.
  - exists v2. cbn [apply_all]. rewrite E1, E3. reflexivity.
Qed.

Lemma incl_firstn : forall {A} n (l : list A), incl (firstn n l) l.
Proof. intros A n l x H. rewrite <- (firstn_skipn n l). apply in_or_app. now left. Qed.
Lemma incl_skipn : forall {A} n (l : list A), incl (skipn n l) l.
Proof. intros A n l x H. rewrite <- (firstn_skipn n l). apply in_or_app. now right. Qed.

Lemma restore_drestore : forall s snap, fst (restore s snap) = drestore (fst s) snap.
Proof. intros [d v] snap. unfold restore, drestore. cbn. destruct (d_index snap <=? d_index d); reflexivity. Qed.

Lemma vol_ok_init : forall cs, vol_ok cs v_init.
Proof. intros; now left. Qed.

Lemma replicas_agree_lemma :
  forall (cs : list (N * cmd)) (k j sf : nat) sk rk sj rj sfull rfull,
    (k <= j)%nat -> (j <= length cs)%nat -> (sf <= j)%nat ->
    ck_consistent cs -> verify_not_initial cs ->
    apply_all s_init (firstn k cs) = Some (sk, rk) ->
    apply_all s_init (firstn j cs) = Some (sj, rj) ->
    apply_all s_init cs = Some (sfull, rfull) ->
    exists s' r',
      apply_all (restore sk (snapshot sj)) (skipn sf cs) = Some (s', r') /\
      fst s' = fst sfull /\ skipn (j - sf) r' = skipn j rfull.
Proof.
  intros cs k j sf sk rk sj rj sfull rfull Hkj Hj Hsf Hc Hn Hk Hjr Hfull.
  pose proof (apply_all_dapply_all _ _ _ _ _ Hk) as Dk.
  pose proof (apply_all_dapply_all _ _ _ _ _ Hjr) as Dj.
  pose proof (apply_all_dapply_all _ _ _ _ _ Hfull) as Df.
  destruct (replicas_agree_durable_lemma cs k j sf _ _ _ _ _ _ _ Hkj Hj Hsf Dk Dj Df) as (R & r' & E & Hr).
  destruct sk as [dk vk].
  assert (Hvk : vol_ok cs vk).
  { eapply (apply_all_vol_ok cs (firstn k cs)); eauto using incl_firstn, vol_ok_init. }
  remember (restore (dk, vk) (snapshot sj)) as s0. destruct s0 as [d0 v0].
  assert (d0 = fst sj).
  { change d0 with (fst (d0, v0)). rewrite Heqs0, restore_drestore. exact R. }
  assert (v0 = vk).
  { change v0 with (snd (d0, v0)). rewrite Heqs0. unfold restore. break_goal; reflexivity. }
  subst d0 v0.
  destruct (dapply_all_apply_all cs (skipn sf cs) (fst sj) vk _ _ E) as [v' E']; auto using incl_skipn.
  exists (fst sfull, v'), r'. auto.
Qed.

(* restart: the database survives, the volatile fields are reset; already-applied commands are handed over again *)
Lemma restart_agree_lemma :
  forall (cs : list (N * cmd)) (m sf : nat) sm rm sfull rfull,
    (m <= length cs)%nat -> (sf <= m)%nat ->
    ck_consistent cs -> verify_not_initial cs ->
    apply_all s_init (firstn m cs) = Some (sm, rm) ->
    apply_all s_init cs = Some (sfull, rfull) ->
    exists s' r',
      apply_all (restart sm) (skipn sf cs) = Some (s', r') /\
      fst s' = fst sfull /\ skipn (m - sf) r' = skipn m rfull.
Proof.
  intros cs m sf sm rm sfull rfull Hm Hsf Hc Hn Hmr Hfull.
  pose proof (apply_all_dapply_all _ _ _ _ _ Hmr) as Dm.
  pose proof (apply_all_dapply_all _ _ _ _ _ Hfull) as Df.
  destruct (replicas_agree_durable_lemma cs m m sf _ _ _ _ _ _ _ (le_n m) Hm Hsf Dm Dm Df) as (_ & r' & E & Hr).
  unfold restart.
  destruct (dapply_all_apply_all cs (skipn sf cs) (fst sm) v_init _ _ E) as [v' E']; auto using incl_skipn, vol_ok_init.
  exists (fst sfull, v'), r'. auto.
Qed.

(* the shape of DESIGN.md appendix C: consecutive indices starting at 1 *)
Fixpoint index_from (i : N) (cs : list cmd) : list (N * cmd) :=
  match cs with [] => [] | c :: r => (i, c) :: index_from (i + 1) r end.
