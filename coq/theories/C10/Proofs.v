(* C10/Proofs.v — lemmas for the C10 theorems (curator half). *)
From Coq Require Import List Arith NArith Bool Lia ZifyN ZifyNat ZifyBool.
From BLB Require Import Gen.Consts Meta.AMap Meta.Curator.
Import ListNotations.
Open Scope N_scope.

(* Gallina functions are deterministic; the content of this lemma is only that [apply] is a total function of
   (state, index, command): stated for completeness (apply_is_a_function in DESIGN.md). *)
Lemma apply_is_a_function_lemma : forall s i c r1 r2, apply s i c = r1 -> apply s i c = r2 -> r1 = r2.
Proof. intros; congruence. Qed.
