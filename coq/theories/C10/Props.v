(* C10/Props.v — property-level theorems only. Tags are read by bin/check. *)
From Coq Require Import List NArith Lia.
From BLB Require Import Meta.AMap Meta.Curator Meta.CuratorFacts Meta.CuratorInv Meta.Master C10.Proofs C10.ProofsMaster C10.ProofsNoCrash C10.ProofsReplica C11.ProofsInv C11.ProofsG.
Import ListNotations.
Open Scope N_scope.

(* [FULL] curator, database level, for EVERY list of (index, command) pairs (no hypothesis on commands or indices), every snapshot point j, every earlier point k of the same history as the receiving replica's state, every suffix start sf at or before j: restoring the snapshot of prefix j onto the replica at prefix k (index tag and skip rule of SnapshotRestore) gives the state of prefix j, and applying the commands from position sf on (those up to j a second time) ends in the same database and returns the same results for the commands after j as applying everything once *)
Theorem replicas_agree_durable :
  forall (cs : list (N * cmd)) (k j sf : nat) d0 dk rk dj rj dfull rfull,
    (k <= j)%nat -> (j <= length cs)%nat -> (sf <= j)%nat ->
    dapply_all d0 (firstn k cs) = Some (dk, rk) ->
    dapply_all d0 (firstn j cs) = Some (dj, rj) ->
    dapply_all d0 cs = Some (dfull, rfull) ->
    drestore dk dj = dj /\
    exists r', dapply_all dj (skipn sf cs) = Some (dfull, r') /\ skipn (j - sf) r' = skipn j rfull.
Proof. exact replicas_agree_durable_lemma. Qed.
Print Assumptions replicas_agree_durable.

(* [FULL] curator, whole replica including the handler's volatile checksum fields and the Fatalf of VerifyChecksum, shape of DESIGN appendix C generalised to arbitrary indices: the restored replica gets through the suffix, ends with the same database and returns the same results for the commands after j. Hypotheses on the history are only that each VerifyChecksum carries the checksum its ChecksumCommand returned and not the handler's initial index, which is how ConsistencyCheck builds it *)
Theorem replicas_agree :
  forall (cs : list (N * cmd)) (k j sf : nat) sk rk sj rj sfull rfull,
    (k <= j)%nat -> (j <= length cs)%nat -> (sf <= j)%nat ->
    ck_consistent cs -> verify_not_initial cs ->
    apply_all s_init (firstn k cs) = Some (sk, rk) ->
    apply_all s_init (firstn j cs) = Some (sj, rj) ->
    apply_all s_init cs = Some (sfull, rfull) ->
    exists s' r',
      apply_all (restore sk (snapshot sj)) (skipn sf cs) = Some (s', r') /\
      fst s' = fst sfull /\ skipn (j - sf) r' = skipn j rfull.
Proof. exact replicas_agree_lemma. Qed.
Print Assumptions replicas_agree.

(* [FULL] curator restart: a replica that applied the first m commands, lost its volatile fields and is handed the commands from any position at or before m+1 again ends with the same database and the same results for the commands after m *)
Theorem restart_agree :
  forall (cs : list (N * cmd)) (m sf : nat) sm rm sfull rfull,
    (m <= length cs)%nat -> (sf <= m)%nat ->
    ck_consistent cs -> verify_not_initial cs ->
    apply_all s_init (firstn m cs) = Some (sm, rm) ->
    apply_all s_init cs = Some (sfull, rfull) ->
    exists s' r',
      apply_all (restart sm) (skipn sf cs) = Some (s', r') /\
      fst s' = fst sfull /\ skipn (m - sf) r' = skipn m rfull.
Proof. exact restart_agree_lemma. Qed.
Print Assumptions restart_agree.

(* [FULL] master with the repaired restore, decode into a fresh State, commit ca0788b: for every command list whose checksum rounds have the shape ConsistencyCheck produces, raft indices distinct and every ChecksumVerify carrying the index and the checksum of an earlier ChecksumRequest of the same list, every snapshot point j and every earlier point k, the replica at k that restores the snapshot of j and applies the commands after j ends in the same state with the same results. No other hypothesis on the commands *)
Theorem replicas_agree_master :
  forall (cs : list (N * mcmd)) (k j : nat) sk rk sj rj sfull rfull,
    (k <= j)%nat -> (j <= length cs)%nat -> cc_shaped cs ->
    mapply_all (m_init, mv_init) (firstn k cs) = Some (sk, rk) ->
    mapply_all (m_init, mv_init) (firstn j cs) = Some (sj, rj) ->
    mapply_all (m_init, mv_init) cs = Some (sfull, rfull) ->
    exists s' r',
      mapply_all (restore_fresh sk (msnapshot sj)) (skipn j cs) = Some (s', r') /\
      fst s' = fst sfull /\ r' = skipn j rfull.
Proof. exact replicas_agree_master_cc_lemma. Qed.
Print Assumptions replicas_agree_master.

(* [REFUTED] master with the CURRENT restore (gob decoding into the live struct, restore_merge): SetReadOnly true, SetReadOnly false, RegisterCurator, NewPartition with k = 1 and j = 2 ends in a different state and returns different results, finding F7 *)
Theorem replicas_agree_master_refuted :
  exists (cs : list (N * mcmd)) (k j : nat) sk rk sj rj sfull rfull s' r',
    (k <= j)%nat /\ (j <= length cs)%nat /\
    mapply_all (m_init, mv_init) (firstn k cs) = Some (sk, rk) /\
    mapply_all (m_init, mv_init) (firstn j cs) = Some (sj, rj) /\
    mapply_all (m_init, mv_init) cs = Some (sfull, rfull) /\
    harmless (snd sk) (skipn j cs) /\
    mapply_all (restore_merge sk (msnapshot sj)) (skipn j cs) = Some (s', r') /\
    fst s' <> fst sfull /\ r' <> skipn j rfull.
Proof. exact replicas_agree_master_refuted_lemma. Qed.
Print Assumptions replicas_agree_master_refuted.

(* [FULL] curator, the last sentence of the property: in every state reachable from the empty database by submittable commands, restarts allowed, every further submittable command is applied without killing the replica. submittable is relative to the HISTORY, see C10/ProofsNoCrash.v and notes/C10.md: a ChangeTract index is one GetTracts returned for that blob at some earlier state, a VerifyChecksum carries the checksum the ChecksumCommand at that raft index returned, storage classes come from the enum, host lists carry ids 1 to 2^20 - 1, commit layouts are packTracts layouts; blob ids, versions, cutoffs, repeated or unknown ids are unrestricted. The gap between history and current state is closed by the C11 invariants, ids never reused and tract lists only grow, and by parts_ok which makes the Fatalf of PutBlob unreachable *)
Theorem no_crash_on_api_commands :
  forall h past s i c, sreach h past s -> submittable h past c -> apply s i c <> None.
Proof. exact no_crash_full_lemma. Qed.
Print Assumptions no_crash_on_api_commands.

(* [FULL] what holds in every state so reachable: the C11 invariant cinv, every blob in an existing partition, replicated tracts with exactly repl holders, the known-tractserver set covering all holders, RS pointers well formed, every earlier state of the history related to the current one by ids-spoken-for and tract-lists-only-grow, and the volatile checksum pair coming from a ChecksumCommand of the history *)
Theorem submittable_reachable_invariants :
  forall h past s, sreach h past s ->
    cinv (fst s) /\ parts_ok (fst s) /\ parts_wf (fst s) /\ Forall (fun d0 => pastrel d0 (fst s)) past /\ hvol_ok h (snd s)
    /\ inv_c (fst s) /\ inv_h (fst s) /\ inv_g (fst s).
Proof. exact sreach_sinv. Qed.
Print Assumptions submittable_reachable_invariants.

(* [FULL] the state-relative form for states reachable by ANY command sequence, kept because it needs no hypothesis on the history: a command whose ChangeTract index is below the current tract count, whose storage class is in the enum and whose VerifyChecksum agrees with the replica's own checksum does not kill the replica *)
Theorem no_crash_on_api_commands_state_relative :
  forall cs s r i c,
    apply_all s_init cs = Some (s, r) -> submittable_now s c -> apply s i c <> None.
Proof.
  intros cs s r i c H S. destruct (reachable_ok _ _ _ H). apply no_crash_lemma; auto.
Qed.
Print Assumptions no_crash_on_api_commands_state_relative.

(* [FULL] curator, snapshot restore, re-delivery and restart in one reachability relation: H is a history a straight replica went through when handed submittable commands, with checksum rounds as ConsistencyCheck builds them. A replica fed H in any of the ways raft feeds a state machine, the next command, an already applied command again, a restart, or the restore of a snapshot taken at ANY point j of the same history, earlier or later than the replica, always holds the database of the prefix n of H, never dies on a command it may be handed, leaves its database alone on a re-delivery, and answers the next command exactly as the straight replica did. Subsumes replicas_agree and restart_agree for submittable histories and extends no_crash_on_api_commands to replicas that restored snapshots *)
Theorem replica_tracks_history :
  forall H n s, hist_ok H -> rreach H n s ->
    (n <= length H)%nat /\
    (exists rn, dapply_all d_init (firstn n H) = Some (fst s, rn)) /\
    forall p i c, (p <= n)%nat -> nth_error H p = Some (i, c) ->
      exists s' r, apply s i c = Some (s', r) /\
        (p = n -> forall dfull rfull, dapply_all d_init H = Some (dfull, rfull) -> nth_error rfull n = Some r) /\
        (p < n -> fst s' = fst s)%nat.
Proof. exact replica_tracks_history_lemma. Qed.
Print Assumptions replica_tracks_history.

(* [FULL] master: only a ChecksumVerify that contradicts the replica's own checksum at that index kills a master replica *)
Theorem no_crash_on_api_commands_master :
  forall sv i c,
    (forall ix ck, c = MCkVerify ix ck -> mv_ckidx (snd sv) = ix -> mv_ck (snd sv) = ck) ->
    mapply sv i c <> None.
Proof. exact no_crash_master_lemma. Qed.
Print Assumptions no_crash_on_api_commands_master.

(* [FULL] Apply is a function of state, index and command, trivial in Gallina, the Go-side determinism is what the replica-versus-replica monitors check *)
Theorem apply_is_a_function :
  forall s i c r1 r2, apply s i c = r1 -> apply s i c = r2 -> r1 = r2.
Proof. exact apply_is_a_function_lemma. Qed.
Print Assumptions apply_is_a_function.

(* non-vacuity: a history with a checksum round, a snapshot after command 6 restored onto the replica at 2,
   commands re-delivered from position 4 *)
Definition ex_cs : list (N * cmd) :=
  [(1, CSetReg 1); (2, CAddPart 1); (4, CCreate 3 (1600000000 * nano) 0 0);
   (5, CExtend 4294967297 0 [[1; 2; 3]]); (6, CChecksum None None 2 77); (7, CVerify 6 77);
   (9, CChangeTract 4294967297 0 2 [1; 2; 4]); (10, CDelete 4294967297 (1600000009 * nano))].
Example ex_replicas_agree_instance :
  exists sk rk sj rj sfull rfull s' r',
    apply_all s_init (firstn 2 ex_cs) = Some (sk, rk) /\
    apply_all s_init (firstn 6 ex_cs) = Some (sj, rj) /\
    apply_all s_init ex_cs = Some (sfull, rfull) /\
    apply_all (restore sk (snapshot sj)) (skipn 3 ex_cs) = Some (s', r') /\
    fst s' = fst sfull /\ skipn 3 r' = skipn 6 rfull /\ d_index (fst sfull) = 10 /\ length (d_blobs (fst sfull)) = 1%nat.
Proof. do 8 eexists. repeat (match goal with |- _ /\ _ => split end); vm_compute; reflexivity. Qed.

(* non-vacuity of no_crash_on_api_commands: after create + extend (+ a delete of another blob) a ChangeTract built from the
   read made right after the extend is submittable with respect to the history and is applied (here: successfully) *)
Definition ex_nc : list (N * cmd) :=
  [(1, CSetReg 1); (2, CAddPart 1); (3, CCreate 3 (1600000000 * nano) 0 0); (4, CCreate 2 (1600000001 * nano) 0 0);
   (5, CExtend 4294967297 0 [[1; 2; 3]]); (6, CDelete 4294967298 (1600000005 * nano));
   (7, CFinishDelete 0 [4294967298; 4294967298; 77])].
Example ex_nc_simple : Forall (fun e => simple_sub (snd e)) ex_nc.
Proof.
  repeat constructor; cbn; auto; try (intros n Hn; discriminate Hn);
    repeat constructor; unfold host_ok, two20; lia.
Qed.
Example ex_no_crash_instance :
  exists past s s' r,
    sreach ex_nc past s /\ submittable ex_nc past (CChangeTract 4294967297 0 2 [1; 2; 4]) /\
    apply s 9 (CChangeTract 4294967297 0 2 [1; 2; 4]) = Some (s', r) /\ r = [1; 0].
Proof.
  destruct (apply_all s_init ex_nc) as [[s rs]|] eqn:E; [|vm_compute in E; discriminate].
  destruct (sreach_run ex_nc [] [d_init] s_init s rs sr_init ex_nc_simple E) as [past R]. cbn [app] in R.
  assert (Es : s = fst (match apply_all s_init ex_nc with Some x => x | None => (s_init, []) end)) by (rewrite E; reflexivity).
  exists past, s. destruct (apply s 9 (CChangeTract 4294967297 0 2 [1; 2; 4])) as [[s' r]|] eqn:Ea.
  - exists s', r. split; [exact R|]. split.
    + repeat split; try (cbn; repeat constructor; unfold host_ok, two20; lia); try (intros n Hn; discriminate Hn).
      exists (fst s). pose proof (sreach_cur_in_past _ _ _ R) as Hin.
      rewrite Es. eexists. split; [rewrite <- Es; exact Hin|]. split; [vm_compute; reflexivity|vm_compute; reflexivity].
    + split; [reflexivity|]. rewrite Es in Ea. vm_compute in Ea. injection Ea as _ <-. reflexivity.
  - exfalso. rewrite Es in Ea. vm_compute in Ea. discriminate.
Qed.

(* non-vacuity of replica_tracks_history: a replica applies two commands, restores the snapshot taken after six (a
   restore in the middle), is handed command 4 again, restarts, and applies command 7 *)
Definition ex_h : list (N * cmd) :=
  [(1, CSetReg 1); (2, CAddPart 1); (3, CCreate 3 (1600000000 * nano) 0 0); (4, CExtend 4294967297 0 [[1; 2; 3]]);
   (5, CChecksum None None 2 77); (6, CDelete 4294967297 (1600000005 * nano)); (7, CCreate 2 (1600000007 * nano) 0 0);
   (8, CFinishDelete (1600000009 * nano) [4294967297; 4294967297])].
Example ex_h_simple : Forall (fun e => simple_sub (snd e)) ex_h.
Proof.
  repeat constructor; cbn; auto; try (intros n Hn; discriminate Hn);
    repeat constructor; unfold host_ok, two20; lia.
Qed.
Example ex_h_ok : hist_ok ex_h.
Proof.
  split; [|split].
  - destruct (apply_all s_init ex_h) as [[s rs]|] eqn:E; [|vm_compute in E; discriminate].
    destruct (shist_of_run ex_h [] [d_init] s_init s rs sh_init ex_h_simple E) as [past R]. eauto.
  - intros i1 sb sr n ock i2 ix ck H1 H2. cbn in H2. repeat (destruct H2 as [H2|H2]; [discriminate|]). contradiction.
  - intros i ix ck H2. cbn in H2. repeat (destruct H2 as [H2|H2]; [discriminate|]). contradiction.
Qed.
Example ex_replica_with_restore :
  exists s, rreach ex_h 7 s /\ d_index (fst s) = 7 /\ length (d_blobs (fst s)) = 2%nat.
Proof.
  pose (c := fun k => match nth_error ex_h k with Some e => e | None => (0, CSetRO false) end).
  pose (s1 := nxt s_init 1 (snd (c 0%nat))). pose (s2 := nxt s1 2 (snd (c 1%nat))).
  pose (d6 := match dapply_all d_init (firstn 6 ex_h) with Some (d, _) => d | None => d_init end).
  pose (r6 := match dapply_all d_init (firstn 6 ex_h) with Some (_, r) => r | None => [] end).
  pose (s3 := restore s2 d6). pose (s4 := nxt s3 4 (snd (c 3%nat))). pose (s5 := restart s4).
  pose (s6 := nxt s5 7 (snd (c 6%nat))).
  assert (R1 : rreach ex_h 1 s1) by (eapply (rr_next ex_h 0 s_init 1); [constructor|reflexivity|apply apply_nxt; vm_compute; discriminate]).
  assert (R2 : rreach ex_h 2 s2) by (eapply (rr_next ex_h 1 s1 2); [exact R1|reflexivity|apply apply_nxt; vm_compute; discriminate]).
  assert (R3 : rreach ex_h (Nat.max 2 6) s3) by (eapply (rr_restore ex_h 2 s2 6 d6 r6); [exact R2|cbn; lia|vm_compute; reflexivity]).
  assert (R4 : rreach ex_h 6 s4) by (eapply (rr_again ex_h 6 s3 3 4); [exact R3|lia|reflexivity|apply apply_nxt; vm_compute; discriminate]).
  assert (R5 : rreach ex_h 6 s5) by (apply rr_restart; exact R4).
  assert (R6 : rreach ex_h 7 s6) by (eapply (rr_next ex_h 6 s5 7); [exact R5|reflexivity|apply apply_nxt; vm_compute; discriminate]).
  exists s6. split; [exact R6|]. split; vm_compute; reflexivity.
Qed.

(* non-vacuity of replicas_agree_master: a ConsistencyCheck round (request at raft index 2, verify carrying its result)
   straddling a read-only episode; snapshot after 5 restored onto the replica at 3 (which is read-only and holds the
   checksum pair of index 2) *)
Example ex_master_cc : cc_shaped f7_cc_example.
Proof.
  split; [repeat constructor; cbn; intuition discriminate|].
  intros q i ix ck Hq. destruct q as [|[|[|[|[|[|q]]]]]]; cbn in Hq; try discriminate; [|destruct q; discriminate].
  injection Hq as <- <- <-. split; [vm_compute; discriminate|]. exists 1%nat. split; [lia|]. split; [reflexivity|].
  vm_compute. reflexivity.
Qed.
Example ex_master_cc_run :
  exists sfull rfull, mapply_all (m_init, mv_init) f7_cc_example = Some (sfull, rfull) /\ m_parts (fst sfull) = [0; 1].
Proof.
  destruct (mapply_all (m_init, mv_init) f7_cc_example) as [[s r]|] eqn:E; [|vm_compute in E; discriminate].
  exists s, r. split; [reflexivity|]. vm_compute in E. injection E as <- _. reflexivity.
Qed.
