(* C10/Props.v — property-level theorems only. Tags are read by bin/check. *)
From Coq Require Import List NArith.
From BLB Require Import Meta.AMap Meta.Curator Meta.CuratorFacts Meta.CuratorInv Meta.Master C10.Proofs C10.ProofsMaster.
Import ListNotations.
Open Scope N_scope.

(* [FULL] curator, database level, for EVERY list of (index, command) pairs (no hypothesis on commands or indices), every snapshot point j, every earlier point k of the same history as the receiving replica's state, every suffix start sf at or before j: restoring the snapshot of prefix j onto the replica at prefix k (index tag and skip rule of SnapshotRestore) gives the state of prefix j, and applying the commands from position sf on (those up to j a second time) ends in the same database and returns the same results for the commands after j as applying everything once *)
Theorem replicas_agree_durable :
  forall (cs : list (N * cmd)) (k j sf : nat) d0 dk rk dj rj dfull rfull,
    (k <= j)%nat -> (j <= length cs)%nat -> (sf <= j)%nat ->
    dapply_all d0 (firstn k cs) = Some (dk, rk) ->
    dapply_all d0 (firstn j cs) = Some (dj, rj) ->
    dapply_all d0 cs = Some (dfull, rfull) ->
    drestore dk dj = dj /\
    exists r', dapply_all dj (skipn sf cs) = Some (dfull, r') /\ skipn (j - sf) r' = skipn j rfull.
Proof. exact replicas_agree_durable_lemma. Qed.
Print Assumptions replicas_agree_durable.

(* [FULL] curator, whole replica including the handler's volatile checksum fields and the Fatalf of VerifyChecksum, shape of DESIGN appendix C generalised to arbitrary indices: the restored replica gets through the suffix, ends with the same database and returns the same results for the commands after j. Hypotheses on the history are only that each VerifyChecksum carries the checksum its ChecksumCommand returned and not the handler's initial index, which is how ConsistencyCheck builds it *)
Theorem replicas_agree :
  forall (cs : list (N * cmd)) (k j sf : nat) sk rk sj rj sfull rfull,
    (k <= j)%nat -> (j <= length cs)%nat -> (sf <= j)%nat ->
    ck_consistent cs -> verify_not_initial cs ->
    apply_all s_init (firstn k cs) = Some (sk, rk) ->
    apply_all s_init (firstn j cs) = Some (sj, rj) ->
    apply_all s_init cs = Some (sfull, rfull) ->
    exists s' r',
      apply_all (restore sk (snapshot sj)) (skipn sf cs) = Some (s', r') /\
      fst s' = fst sfull /\ skipn (j - sf) r' = skipn j rfull.
Proof. exact replicas_agree_lemma. Qed.
Print Assumptions replicas_agree.

(* [FULL] curator restart: a replica that applied the first m commands, lost its volatile fields and is handed the commands from any position at or before m+1 again ends with the same database and the same results for the commands after m *)
Theorem restart_agree :
  forall (cs : list (N * cmd)) (m sf : nat) sm rm sfull rfull,
    (m <= length cs)%nat -> (sf <= m)%nat ->
    ck_consistent cs -> verify_not_initial cs ->
    apply_all s_init (firstn m cs) = Some (sm, rm) ->
    apply_all s_init cs = Some (sfull, rfull) ->
    exists s' r',
      apply_all (restart sm) (skipn sf cs) = Some (s', r') /\
      fst s' = fst sfull /\ skipn (m - sf) r' = skipn m rfull.
Proof. exact restart_agree_lemma. Qed.
Print Assumptions restart_agree.

(* [FULL] master with the REPAIRED restore (decode into a fresh State, fixes/F7): for every command list, snapshot point j and earlier point k, the replica at k that restores the snapshot of j and applies the commands after j ends in the same state with the same results; harmless = its own last checksum pair is not contradicted by a later ChecksumVerify *)
Theorem replicas_agree_master :
  forall (cs : list (N * mcmd)) (k j : nat) sk rk sj rj sfull rfull,
    (k <= j)%nat -> (j <= length cs)%nat ->
    mapply_all (m_init, mv_init) (firstn k cs) = Some (sk, rk) ->
    mapply_all (m_init, mv_init) (firstn j cs) = Some (sj, rj) ->
    mapply_all (m_init, mv_init) cs = Some (sfull, rfull) ->
    harmless (snd sk) (skipn j cs) ->
    exists s' r',
      mapply_all (restore_fresh sk (msnapshot sj)) (skipn j cs) = Some (s', r') /\
      fst s' = fst sfull /\ r' = skipn j rfull.
Proof. exact replicas_agree_master_lemma. Qed.
Print Assumptions replicas_agree_master.

(* [REFUTED] master with the CURRENT restore (gob decoding into the live struct, restore_merge): SetReadOnly true, SetReadOnly false, RegisterCurator, NewPartition with k = 1 and j = 2 ends in a different state and returns different results, finding F7 *)
Theorem replicas_agree_master_refuted :
  exists (cs : list (N * mcmd)) (k j : nat) sk rk sj rj sfull rfull s' r',
    (k <= j)%nat /\ (j <= length cs)%nat /\
    mapply_all (m_init, mv_init) (firstn k cs) = Some (sk, rk) /\
    mapply_all (m_init, mv_init) (firstn j cs) = Some (sj, rj) /\
    mapply_all (m_init, mv_init) cs = Some (sfull, rfull) /\
    harmless (snd sk) (skipn j cs) /\
    mapply_all (restore_merge sk (msnapshot sj)) (skipn j cs) = Some (s', r') /\
    fst s' <> fst sfull /\ r' <> skipn j rfull.
Proof. exact replicas_agree_master_refuted_lemma. Qed.
Print Assumptions replicas_agree_master_refuted.

(* [PARTIAL] curator: in every state reachable from the empty database by ANY command sequence, a command that is submittable relative to that state (ChangeTract index below the current tract count, storage class from the enum, VerifyChecksum consistent with the replica's own checksum) does not kill the replica; partial because submittable is state-relative, the lifting from an index read at an earlier state needs C11 clauses a and b *)
Theorem no_crash_on_api_commands_partial :
  forall cs s r i c,
    apply_all s_init cs = Some (s, r) -> submittable_now s c -> apply s i c <> None.
Proof.
  intros cs s r i c H S. destruct (reachable_ok _ _ _ H). apply no_crash_lemma; auto.
Qed.
Print Assumptions no_crash_on_api_commands_partial.

(* [FULL] master: only a ChecksumVerify that contradicts the replica's own checksum at that index kills a master replica *)
Theorem no_crash_on_api_commands_master :
  forall sv i c,
    (forall ix ck, c = MCkVerify ix ck -> mv_ckidx (snd sv) = ix -> mv_ck (snd sv) = ck) ->
    mapply sv i c <> None.
Proof. exact no_crash_master_lemma. Qed.
Print Assumptions no_crash_on_api_commands_master.

(* [FULL] Apply is a function of state, index and command, trivial in Gallina, the Go-side determinism is what the replica-versus-replica monitors check *)
Theorem apply_is_a_function :
  forall s i c r1 r2, apply s i c = r1 -> apply s i c = r2 -> r1 = r2.
Proof. exact apply_is_a_function_lemma. Qed.
Print Assumptions apply_is_a_function.

(* non-vacuity: a history with a checksum round, a snapshot after command 6 restored onto the replica at 2,
   commands re-delivered from position 4 *)
Definition ex_cs : list (N * cmd) :=
  [(1, CSetReg 1); (2, CAddPart 1); (4, CCreate 3 (1600000000 * nano) 0 0);
   (5, CExtend 4294967297 0 [[1; 2; 3]]); (6, CChecksum None None 2 77); (7, CVerify 6 77);
   (9, CChangeTract 4294967297 0 2 [1; 2; 4]); (10, CDelete 4294967297 (1600000009 * nano))].
Example ex_replicas_agree_instance :
  exists sk rk sj rj sfull rfull s' r',
    apply_all s_init (firstn 2 ex_cs) = Some (sk, rk) /\
    apply_all s_init (firstn 6 ex_cs) = Some (sj, rj) /\
    apply_all s_init ex_cs = Some (sfull, rfull) /\
    apply_all (restore sk (snapshot sj)) (skipn 3 ex_cs) = Some (s', r') /\
    fst s' = fst sfull /\ skipn 3 r' = skipn 6 rfull /\ d_index (fst sfull) = 10 /\ length (d_blobs (fst sfull)) = 1%nat.
Proof. do 8 eexists. repeat (match goal with |- _ /\ _ => split end); vm_compute; reflexivity. Qed.
