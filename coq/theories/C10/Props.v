(* C10/Props.v — property-level theorems only. Tags are read by bin/check. *)
From Coq Require Import List NArith.
From BLB Require Import Meta.AMap Meta.Curator C10.Proofs.
Import ListNotations.
Open Scope N_scope.

(* [PARTIAL] the model's Apply is a function of state, index and command; the Go-side determinism is what the
   two-replica monitors of the harness check *)
Theorem apply_is_a_function :
  forall s i c r1 r2, apply s i c = r1 -> apply s i c = r2 -> r1 = r2.
Proof. exact apply_is_a_function_lemma. Qed.
Print Assumptions apply_is_a_function.
