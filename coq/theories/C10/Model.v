(* C10/Model.v — the C10 model is the shared curator state machine of Meta/Curator.v (+ Meta/Master.v for the
   master half); this file only names the entry point used by the correspondence run. *)
From Coq Require Import List ZArith.
From BLB Require Import Meta.Curator Meta.CuratorWire Meta.Master Meta.MasterWire.
Definition run_case (ops : list (list Z)) : list (list Z) := MasterWire.run_any_case ops.
