(* C10/ProofsReplica.v — one theorem over an extended reachability relation: a replica that is fed a history produced by
   submittable commands in ANY of the ways raft feeds a state machine — the next command, an already-applied command
   again, a restart, or the restore of a snapshot taken at ANY point of the same history (earlier or later than the
   replica) — never dies, always holds the database of some prefix of the history, and answers every first-time
   command exactly as the straight replica did. *)
From Coq Require Import List Arith NArith Bool Lia ZifyN ZifyNat ZifyBool.
From BLB Require Import Gen.Consts Meta.AMap Meta.Curator Meta.CuratorFacts Meta.CuratorInv
     C10.Proofs C10.ProofsNoCrash.
Import ListNotations.
Open Scope N_scope.

(* the history: what a straight replica (no restart, no restore) goes through when it is handed submittable commands *)
Inductive shist : list (N * cmd) -> list dstate -> state -> Prop :=
| sh_init : shist [] [d_init] s_init
| sh_step : forall h past s i c s' r,
    shist h past s -> submittable h past c -> apply s i c = Some (s', r) ->
    shist (h ++ [(i, c)]) (fst s' :: past) s'.

Lemma shist_sreach : forall h past s, shist h past s -> sreach h past s.
Proof. induction 1; [constructor|econstructor; eauto]. Qed.

Lemma dapply_all_snoc : forall h d d1 r i c d2 r2,
  dapply_all d h = Some (d1, r) -> dapply d1 i c = Some (d2, r2) -> dapply_all d (h ++ [(i, c)]) = Some (d2, r ++ [r2]).
Proof.
  intros. eapply dapply_all_app_intro; eauto. cbn [dapply_all]. rewrite H0. reflexivity.
Qed.

Lemma shist_run : forall h past s, shist h past s -> exists r, dapply_all d_init h = Some (fst s, r).
Proof.
  induction 1 as [|h past s i c s' r Hs [r0 IH] Hsub Ha]; [exists []; reflexivity|].
  destruct s as [d v]. apply apply_dapply in Ha. cbn [fst] in *. eexists. eapply dapply_all_snoc; eauto.
Qed.

(* a history that a straight replica survived, with checksum rounds as ConsistencyCheck builds them *)
Definition hist_ok (H : list (N * cmd)) : Prop :=
  (exists past sfull, shist H past sfull) /\ ck_consistent H /\ verify_not_initial H.

(* the replica: n = how much of H its database reflects *)
Inductive rreach (H : list (N * cmd)) : nat -> state -> Prop :=
| rr_init : rreach H 0 s_init
| rr_next : forall n s i c s' r, rreach H n s -> nth_error H n = Some (i, c) -> apply s i c = Some (s', r) -> rreach H (S n) s'
| rr_again : forall n s p i c s' r, rreach H n s -> (p < n)%nat -> nth_error H p = Some (i, c) ->
    apply s i c = Some (s', r) -> rreach H n s'
| rr_restart : forall n s, rreach H n s -> rreach H n (restart s)
| rr_restore : forall n s j dj rj, rreach H n s -> (j <= length H)%nat ->
    dapply_all d_init (firstn j H) = Some (dj, rj) -> rreach H (Nat.max n j) (restore s dj).

Lemma firstn_S_nth : forall {A} (l : list A) n x, nth_error l n = Some x -> firstn (S n) l = firstn n l ++ [x].
Proof.
  induction l as [|y l IH]; intros n x H; destruct n; cbn in *; try discriminate.
  - inv H. reflexivity.
  - f_equal. apply IH. exact H.
Qed.

Lemma nth_error_firstn_in : forall {A} (l : list A) p n x, (p < n)%nat -> nth_error l p = Some x -> In x (firstn n l).
Proof.
  induction l as [|y l IH]; intros p n x Hp H; destruct p; destruct n; cbn in *; try discriminate; try lia.
  - inv H. now left.
  - right. eapply IH; [|exact H]. lia.
Qed.

(* the straight run, cut at n *)
Lemma run_prefix : forall H d0 dfull rfull n, dapply_all d0 H = Some (dfull, rfull) ->
  exists dn rn, dapply_all d0 (firstn n H) = Some (dn, rn).
Proof.
  intros H d0 dfull rfull n Hf. rewrite <- (firstn_skipn n H) in Hf. apply dapply_all_app in Hf.
  destruct Hf as (d1 & r1 & r2 & A1 & _). eauto.
Qed.

Lemma run_step_at : forall H d0 dfull rfull n i c dn rn, dapply_all d0 H = Some (dfull, rfull) ->
  nth_error H n = Some (i, c) -> dapply_all d0 (firstn n H) = Some (dn, rn) ->
  exists d1 r, dapply dn i c = Some (d1, r) /\ nth_error rfull n = Some r /\
               dapply_all d0 (firstn (S n) H) = Some (d1, rn ++ [r]).
Proof.
  intros H d0 dfull rfull n i c dn rn Hf Hn Hp.
  assert (Hlen : (n < length H)%nat) by (apply nth_error_Some; congruence).
  assert (Hs : skipn n H = (i, c) :: skipn (S n) H).
  { clear - Hn. revert n Hn. induction H as [|y l IH]; intros n Hn; destruct n; cbn in *; try discriminate.
    - inv Hn. reflexivity.
    - apply IH. exact Hn. }
  rewrite <- (firstn_skipn n H), Hs in Hf. apply dapply_all_app in Hf.
  destruct Hf as (d1 & r1 & r2 & A1 & A2 & A3 & A4). rewrite Hp in A1. inv A1.
  cbn [dapply_all] in A2. destruct (dapply d1 i c) as [[d2 res]|] eqn:E; [|discriminate].
  destruct (dapply_all d2 (skipn (S n) H)) as [[d3 rs]|]; [|discriminate]. inv A2.
  exists d2, res. split; [reflexivity|]. split.
  - rewrite firstn_length_le in A4 by lia. rewrite nth_error_app2 by lia. rewrite A4, Nat.sub_diag. reflexivity.
  - rewrite (firstn_S_nth _ _ _ Hn). eapply dapply_all_snoc; eauto.
Qed.

(* an entry the database already reflects changes nothing when handed over again *)
Lemma redeliver_one : forall cs d0 dn rn i c, dapply_all d0 cs = Some (dn, rn) -> In (i, c) cs ->
  exists r, dapply dn i c = Some (dn, r).
Proof.
  intros cs d0 dn rn i c Hr Hin. pose proof (run_covers _ _ _ _ Hr) as Hc. rewrite Forall_forall in Hc.
  specialize (Hc _ Hin). unfold covered in Hc. cbn in Hc.
  destruct (is_write c) eqn:Hw; [rewrite dapply_skip by auto; eauto|apply dapply_nonwrite_some; auto].
Qed.

Definition rinv (H : list (N * cmd)) (n : nat) (s : state) : Prop :=
  (n <= length H)%nat /\ (exists rn, dapply_all d_init (firstn n H) = Some (fst s, rn)) /\ vol_ok H (snd s).

Lemma vol_step : forall H d v i c s' r, apply (d, v) i c = Some (s', r) -> In (i, c) H -> vol_ok H v -> vol_ok H (snd s').
Proof. intros H d v i c [d' v'] r Ha Hin Hv. eapply apply_vol_ok; eauto. Qed.

Lemma rreach_rinv : forall H n s, hist_ok H -> rreach H n s -> rinv H n s.
Proof.
  intros H n s ((past & sfull & Hh) & Hck & Hvn) Hr. destruct (shist_run _ _ _ Hh) as [rfull Hfull].
  induction Hr as [|n s i c s' r Hr IH Hn Ha|n s p i c s' r Hr IH Hp Hn Ha|n s Hr IH|n s j dj rj Hr IH Hj Hdj].
  - split; [lia|]. split; [exists []; reflexivity|now left].
  - destruct IH as (L & (rn & Hrn) & Hv). destruct s as [d v]. cbn [fst snd] in *.
    assert (Hlt : (n < length H)%nat) by (apply nth_error_Some; congruence).
    split; [lia|]. split.
    + destruct (run_step_at _ _ _ _ _ _ _ _ _ Hfull Hn Hrn) as (d1 & r1 & E1 & _ & E3).
      pose proof (apply_dapply _ _ _ _ _ _ Ha) as D. rewrite E1 in D. inv D. eauto.
    + eapply vol_step; eauto. eapply nth_error_In; eauto.
  - destruct IH as (L & (rn & Hrn) & Hv). destruct s as [d v]. cbn [fst snd] in *.
    split; [exact L|]. split.
    + destruct (redeliver_one _ _ _ _ i c Hrn (nth_error_firstn_in _ _ _ _ Hp Hn)) as [r1 E1].
      pose proof (apply_dapply _ _ _ _ _ _ Ha) as D. rewrite E1 in D. inv D. eauto.
    + eapply vol_step; eauto. eapply nth_error_In; eauto.
  - destruct IH as (L & Hrn & Hv). split; [exact L|]. split; [exact Hrn|now left].
  - destruct IH as (L & (rn & Hrn) & Hv). split; [lia|]. split.
    + rewrite restore_drestore.
      destruct (Nat.le_ge_cases n j) as [Hnj|Hnj].
      * rewrite Nat.max_r by exact Hnj.
        destruct (replicas_agree_durable_lemma H n j j _ _ _ _ _ _ _ Hnj Hj (le_n j) Hrn Hdj Hfull) as [R _].
        rewrite R. eauto.
      * rewrite Nat.max_l by exact Hnj. unfold drestore.
        destruct (d_index dj <=? d_index (fst s)) eqn:E; [eauto|].
        exfalso. rewrite (firstn_firstn_split H j n Hnj) in Hrn. apply dapply_all_app in Hrn.
        destruct Hrn as (d1 & r1 & r2 & A1 & A2 & _). rewrite Hdj in A1. inv A1.
        apply dapply_all_index_mono in A2. lia.
    + unfold restore. break_goal; exact Hv.
Qed.

(* the theorem *)
Lemma replica_tracks_history_lemma : forall H n s, hist_ok H -> rreach H n s ->
  (n <= length H)%nat /\
  (exists rn, dapply_all d_init (firstn n H) = Some (fst s, rn)) /\
  forall p i c, (p <= n)%nat -> nth_error H p = Some (i, c) ->
    exists s' r, apply s i c = Some (s', r) /\
      (p = n -> forall dfull rfull, dapply_all d_init H = Some (dfull, rfull) -> nth_error rfull n = Some r) /\
      (p < n -> fst s' = fst s)%nat.
Proof.
  intros H n s Hok Hr. pose proof (rreach_rinv _ _ _ Hok Hr) as (L & (rn & Hrn) & Hv).
  destruct Hok as ((past & sfull & Hh) & Hck & Hvn). destruct (shist_run _ _ _ Hh) as [rfull Hfull].
  split; [exact L|]. split; [eauto|].
  intros p i c Hp Hn. destruct s as [d v]. cbn [fst snd] in *.
  assert (Hin : In (i, c) H) by (eapply nth_error_In; eauto).
  assert (Hver : forall ix ck, c = CVerify ix ck -> d_index d < i -> v_ckidx v = ix -> v_ck v = ck).
  { intros ix ck -> _ Hx. destruct Hv as [->|(sb & sr & m & Hc)].
    - exfalso. eapply Hvn; eauto.
    - symmetry. eapply Hck; eauto. }
  destruct (Nat.eq_dec p n) as [->|Hne].
  - destruct (run_step_at _ _ _ _ _ _ _ _ _ Hfull Hn Hrn) as (d1 & r1 & E1 & E2 & _).
    destruct (dapply_apply d v i c d1 r1 E1 Hver) as [v1 Ea]. exists (d1, v1), r1. split; [exact Ea|]. split.
    + intros _ df rf Hf. rewrite Hfull in Hf. inv Hf. exact E2.
    + intros; lia.
  - assert (Hlt : (p < n)%nat) by lia.
    destruct (redeliver_one _ _ _ _ i c Hrn (nth_error_firstn_in _ _ _ _ Hlt Hn)) as [r1 E1].
    destruct (dapply_apply d v i c d r1 E1 Hver) as [v1 Ea]. exists (d, v1), r1. split; [exact Ea|]. split; [intros; lia|reflexivity].
Qed.

(* ---------- non-vacuity helpers ---------- *)

Lemma shist_of_run : forall cs h past s s' r, shist h past s -> Forall (fun e => simple_sub (snd e)) cs ->
  apply_all s cs = Some (s', r) -> exists past', shist (h ++ cs) past' s'.
Proof.
  induction cs as [|[i c] cs IH]; intros h past s s' r Hr Hs Ha; cbn [apply_all] in Ha.
  - inv Ha. rewrite app_nil_r. eauto.
  - destruct (apply s i c) as [[s1 res]|] eqn:E; [|discriminate].
    destruct (apply_all s1 cs) as [[s2 rs]|] eqn:E2; [|discriminate]. inv Ha. inversion Hs; subst.
    assert (R1 : shist (h ++ [(i, c)]) (fst s1 :: past) s1) by (eapply sh_step; eauto; apply simple_submittable; auto).
    destruct (IH _ _ _ _ _ R1 H2 E2) as [past' R2]. rewrite <- app_assoc in R2. eauto.
Qed.

Definition nxt (s : state) (i : N) (c : cmd) : state := match apply s i c with Some (s', _) => s' | None => s end.
Definition res (s : state) (i : N) (c : cmd) : list N := match apply s i c with Some (_, r) => r | None => [] end.
Lemma apply_nxt : forall s i c, apply s i c <> None -> apply s i c = Some (nxt s i c, res s i c).
Proof. intros s i c H. unfold nxt, res. destruct (apply s i c) as [[s' r]|]; [reflexivity|contradiction]. Qed.
