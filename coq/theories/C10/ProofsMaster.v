(* C10/ProofsMaster.v — master half: snapshot agreement for the repaired restore, refutation for the current one. *)
From Coq Require Import List Arith NArith Bool Lia ZifyN ZifyNat ZifyBool.
From BLB Require Import Gen.Consts Meta.Master Meta.CuratorFacts C10.Proofs.
Import ListNotations.
Open Scope N_scope.

(* durable projection of the master's Apply (total: only a disagreeing ChecksumVerify can kill the process) *)
Definition mdapply (s : mstate) (idx : N) (c : mcmd) : mstate * list N :=
  match c with
  | MSetRO b => (mkM (m_parts s) (m_nextcid s) (m_nexttsid s) b, [1; e_NoError])
  | MCkReq => (s, [5; idx; m_checksum s])
  | MCkVerify _ _ => (s, [0])
  | _ =>
    if m_ro s then (s, [1; e_ReadOnlyMode]) else
    match c with
    | MRegCurator => (mkM (m_parts s) (u32m (m_nextcid s + 1)) (m_nexttsid s) (m_ro s), [2; m_nextcid s])
    | MRegTS => (mkM (m_parts s) (m_nextcid s) (u32m (m_nexttsid s + 1)) (m_ro s), [3; m_nexttsid s])
    | MNewPart cid =>
      if (cid =? 0) || (m_nextcid s <=? cid) then (s, [4; 0; e_BadCuratorID]) else
      if c_MaxPartitionID <=? N.of_nat (length (m_parts s)) then (s, [4; 0; e_ExceedNewPartitionQuota]) else
      (mkM (m_parts s ++ [cid]) (m_nextcid s) (m_nexttsid s) (m_ro s), [4; N.of_nat (length (m_parts s)); e_NoError])
    | _ => (s, [0])
    end
  end.

Fixpoint mdapply_all (s : mstate) (cs : list (N * mcmd)) : mstate * list (list N) :=
  match cs with
  | [] => (s, [])
  | (i, c) :: r => let '(s1, res) := mdapply s i c in let '(s2, rs) := mdapply_all s1 r in (s2, res :: rs)
  end.

Lemma mapply_mdapply : forall s v i c sv' r, mapply (s, v) i c = Some (sv', r) -> mdapply s i c = (fst sv', r).
Proof.
  intros s v i c sv' r H. unfold mapply in H. unfold mdapply.
  destruct c; try (destruct (m_ro s); [inv H; reflexivity|]); try (inv H; reflexivity).
  - repeat break_hyp H; inv H; reflexivity.
  - repeat break_hyp H; inv H; reflexivity.
Qed.

Lemma mdapply_mapply : forall s v i c,
  (forall ix ck, c = MCkVerify ix ck -> mv_ckidx v = ix -> mv_ck v = ck) ->
  exists v', mapply (s, v) i c = Some ((fst (mdapply s i c), v'), snd (mdapply s i c)).
Proof.
  intros s v i c Hv. unfold mapply, mdapply.
  destruct c; try (destruct (m_ro s); cbn; eauto; fail); try (cbn; eauto; fail).
  - destruct (m_ro s); cbn; eauto. repeat break_goal; cbn; eauto.
  - destruct (mv_ckidx v =? idx) eqn:E; cbn [andb]; [|cbn; eauto].
    apply N.eqb_eq in E. rewrite (Hv idx ck eq_refl E), N.eqb_refl. cbn. eauto.
Qed.

(* the volatile pair (index, checksum) a replica still holds from its own past is not contradicted by a
   ChecksumVerify of the commands it is about to receive (ConsistencyCheck builds every ChecksumVerify from the
   ChecksumRes of the request at that index, which every replica that executed it computed identically) *)
Definition harmless (v : mvol) (cs : list (N * mcmd)) : Prop :=
  forall i ix ck, In (i, MCkVerify ix ck) cs -> mv_ckidx v = ix -> mv_ck v = ck.

Lemma mapply_vol : forall s v i c s' v' r, mapply (s, v) i c = Some ((s', v'), r) ->
  (c <> MCkReq /\ v' = v) \/ (c = MCkReq /\ v' = mkMV (m_checksum s) i).
Proof.
  intros s v i c s' v' r H. unfold mapply in H.
  destruct c; cbv zeta in H.
  - destruct (m_ro s); inv H; left; split; [discriminate|reflexivity| discriminate|reflexivity].
  - destruct (m_ro s); inv H; left; split; [discriminate|reflexivity| discriminate|reflexivity].
  - repeat break_hyp H; inv H; left; (split; [discriminate|reflexivity]).
  - inv H. right. auto.
  - repeat break_hyp H; inv H; left; (split; [discriminate|reflexivity]).
  - inv H. left. split; [discriminate|reflexivity].
Qed.

(* two replicas with the same durable state, one of which (b) gets through the commands: the other (a) does too,
   with the same durable states and results, provided its volatile pair is harmless *)
Lemma mrun_vol_indep : forall cs s va vb sb' r,
  mapply_all (s, vb) cs = Some (sb', r) -> (va = vb \/ harmless va cs) ->
  exists va', mapply_all (s, va) cs = Some ((fst sb', va'), r).
Proof.
  induction cs as [|[i c] cs IH]; intros s va vb sb' r H Hv; cbn [mapply_all] in *; [inv H; cbn; eauto|].
  destruct (mapply (s, vb) i c) as [[[s1 vb1] res]|] eqn:E; [|discriminate].
  destruct (mapply_all (s1, vb1) cs) as [[sb2 rs]|] eqn:E2; [|discriminate]. inv H.
  pose proof (mapply_mdapply _ _ _ _ _ _ E) as Ed. cbn [fst] in Ed.
  assert (Hc : forall ix ck, c = MCkVerify ix ck -> mv_ckidx va = ix -> mv_ck va = ck).
  { intros ix ck -> Hx. destruct Hv as [-> | Hh].
    - unfold mapply in E. destruct (mv_ckidx vb =? ix) eqn:E3; [|apply N.eqb_neq in E3; contradiction].
      cbn [andb] in E. destruct (mv_ck vb =? ck) eqn:E4; [apply N.eqb_eq in E4; exact E4|discriminate].
    - eapply Hh; eauto. now left. }
  destruct (mdapply_mapply s va i c Hc) as [va1 Ea]. rewrite Ed in Ea. cbn [fst snd] in Ea. rewrite Ea.
  assert (Hv1 : va1 = vb1 \/ harmless va1 cs).
  { destruct (mapply_vol _ _ _ _ _ _ _ Ea) as [[Ha0 Ha] | [Ha1 Ha2]]; destruct (mapply_vol _ _ _ _ _ _ _ E) as [[Hb0 Hb] | [Hb1 Hb2]]; subst;
      try contradiction.
    - destruct Hv as [-> | Hh]; [now left|]. right. intros i' ix ck Hin. eapply Hh. right. exact Hin.
    - left. reflexivity. }
  destruct (IH s1 va1 vb1 _ _ E2 Hv1) as [va2 E3]. rewrite E3. cbn. eauto.
Qed.

Lemma mapply_all_app : forall a b sv sv2 r,
  mapply_all sv (a ++ b) = Some (sv2, r) ->
  exists sv1 r1 r2, mapply_all sv a = Some (sv1, r1) /\ mapply_all sv1 b = Some (sv2, r2) /\ r = r1 ++ r2
                    /\ length r1 = length a.
Proof.
  induction a as [|[i c] a IH]; intros b sv sv2 r H; cbn [mapply_all app] in *.
  - exists sv, [], r. auto.
  - destruct (mapply sv i c) as [[sv' res]|]; [|discriminate].
    destruct (mapply_all sv' (a ++ b)) as [[sv'' rs]|] eqn:E; [|discriminate]. inv H.
    destruct (IH _ _ _ _ E) as (sv1 & r1 & r2 & H1 & H2 & H3 & H4).
    rewrite H1. exists sv1, (res :: r1), r2. subst. cbn. auto.
Qed.

(* snapshot agreement for the REPAIRED restore (decode into a fresh State, then replace) *)
Lemma replicas_agree_master_lemma :
  forall (cs : list (N * mcmd)) (k j : nat) sk rk sj rj sfull rfull,
    (k <= j)%nat -> (j <= length cs)%nat ->
    mapply_all (m_init, mv_init) (firstn k cs) = Some (sk, rk) ->
    mapply_all (m_init, mv_init) (firstn j cs) = Some (sj, rj) ->
    mapply_all (m_init, mv_init) cs = Some (sfull, rfull) ->
    harmless (snd sk) (skipn j cs) ->
    exists s' r',
      mapply_all (restore_fresh sk (msnapshot sj)) (skipn j cs) = Some (s', r') /\
      fst s' = fst sfull /\ r' = skipn j rfull.
Proof.
  intros cs k j sk rk sj rj sfull rfull Hkj Hj Hk Hjr Hfull Hh.
  rewrite <- (firstn_skipn j cs) in Hfull at 1.
  apply mapply_all_app in Hfull. destruct Hfull as (sv1 & r1 & r2 & A1 & A2 & A3 & A4).
  rewrite Hjr in A1. inv A1. destruct sv1 as [dj vj].
  destruct (mrun_vol_indep _ dj (snd sk) vj _ _ A2 (or_intror Hh)) as [va' E].
  unfold restore_fresh, msnapshot. cbn [fst snd].
  exists (fst sfull, va'), r2. repeat split; auto.
  rewrite firstn_length_le in A4 by lia.
  rewrite skipn_app. rewrite <- A4 at 1. rewrite skipn_all. replace (j - length r1)%nat with 0%nat by lia. reflexivity.
Qed.

(* the CURRENT restore (gob-decoding into the live struct) breaks it: finding F7 *)
Definition f7_cmds : list (N * mcmd) := [(1, MSetRO true); (2, MSetRO false); (3, MRegCurator); (4, MNewPart 1)].

Lemma replicas_agree_master_refuted_lemma :
  exists (cs : list (N * mcmd)) (k j : nat) sk rk sj rj sfull rfull s' r',
    (k <= j)%nat /\ (j <= length cs)%nat /\
    mapply_all (m_init, mv_init) (firstn k cs) = Some (sk, rk) /\
    mapply_all (m_init, mv_init) (firstn j cs) = Some (sj, rj) /\
    mapply_all (m_init, mv_init) cs = Some (sfull, rfull) /\
    harmless (snd sk) (skipn j cs) /\
    mapply_all (restore_merge sk (msnapshot sj)) (skipn j cs) = Some (s', r') /\
    fst s' <> fst sfull /\ r' <> skipn j rfull.
Proof.
  exists f7_cmds, 1%nat, 2%nat.
  do 8 eexists.
  split; [cbn; lia|]. split; [cbn; lia|].
  split; [vm_compute; reflexivity|]. split; [vm_compute; reflexivity|]. split; [vm_compute; reflexivity|].
  split; [intros i ix ck Hin; cbn in Hin; repeat (destruct Hin as [Hin|Hin]; [discriminate|]); contradiction|].
  split; [vm_compute; reflexivity|].
  split; intro H; discriminate H.
Qed.

(* only a ChecksumVerify that contradicts the replica's own checksum kills a master replica *)
Lemma no_crash_master_lemma : forall sv i c,
  (forall ix ck, c = MCkVerify ix ck -> mv_ckidx (snd sv) = ix -> mv_ck (snd sv) = ck) ->
  mapply sv i c <> None.
Proof.
  intros [s v] i c H. destruct (mdapply_mapply s v i c H) as [v' E]. rewrite E. discriminate.
Qed.

(* ---------- deriving [harmless] from the shape of ConsistencyCheck ---------- *)

Lemma mapply_all_mdapply_all : forall cs s v sv' r,
  mapply_all (s, v) cs = Some (sv', r) -> mdapply_all s cs = (fst sv', r).
Proof.
  induction cs as [|[i c] cs IH]; intros s v sv' r H; cbn [mapply_all mdapply_all] in *; [inv H; reflexivity|].
  destruct (mapply (s, v) i c) as [[[s1 v1] res]|] eqn:E; [|discriminate].
  destruct (mapply_all (s1, v1) cs) as [[sv2 rs]|] eqn:E2; [|discriminate]. inv H.
  apply mapply_mdapply in E. cbn in E. rewrite E. rewrite (IH _ _ _ _ E2). reflexivity.
Qed.


(* master/durable/handler.go ConsistencyCheck: the leader proposes ChecksumRequestCmd, waits for its ChecksumRes
   (Index = the raft index of that entry, Checksum = State.checksum of the state it was applied to) and then proposes
   ChecksumVerifyCmd{res.Index, res.Checksum}.  Raft indices of log entries are distinct. *)
Definition cc_shaped (cs : list (N * mcmd)) : Prop :=
  NoDup (map fst cs) /\
  forall q i ix ck, nth_error cs q = Some (i, MCkVerify ix ck) ->
    ix <> mv_ckidx mv_init /\
    exists p, (p < q)%nat /\ nth_error cs p = Some (ix, MCkReq) /\
              ck = m_checksum (fst (mdapply_all m_init (firstn p cs))).

(* the volatile pair of a replica that applied the first k commands *)
Definition vol_from (cs : list (N * mcmd)) (k : nat) (v : mvol) : Prop :=
  v = mv_init \/ exists p, (p < k)%nat /\ nth_error cs p = Some (mv_ckidx v, MCkReq) /\
                           mv_ck v = m_checksum (fst (mdapply_all m_init (firstn p cs))).

Lemma firstn_S_nth_m : forall {A} (l : list A) n x, nth_error l n = Some x -> firstn (S n) l = firstn n l ++ [x].
Proof.
  induction l as [|y l IH]; intros n x H; destruct n; cbn in *; try discriminate.
  - inv H. reflexivity.
  - f_equal. apply IH. exact H.
Qed.

Lemma prefix_vol_from : forall cs k sk rk, (k <= length cs)%nat ->
  mapply_all (m_init, mv_init) (firstn k cs) = Some (sk, rk) -> vol_from cs k (snd sk).
Proof.
  intros cs k. induction k as [|k IH]; intros sk rk Hk H.
  - cbn in H. inv H. now left.
  - destruct (nth_error cs k) as [[i c]|] eqn:En; [|apply nth_error_None in En; lia].
    rewrite (firstn_S_nth_m _ _ _ En) in H. apply mapply_all_app in H.
    destruct H as (sv1 & r1 & r2 & A1 & A2 & _). cbn [mapply_all] in A2.
    destruct (mapply sv1 i c) as [[sv2 res]|] eqn:E; [|discriminate]. inv A2.
    assert (Hk' : (k <= length cs)%nat) by lia. specialize (IH _ _ Hk' A1).
    destruct sv1 as [s1 v1]. destruct sk as [s2 v2]. cbn [snd] in *.
    destruct (mapply_vol _ _ _ _ _ _ _ E) as [[_ ->]|[-> ->]].
    + destruct IH as [->|(p & Hp & Hn & Hc)]; [now left|right; exists p; repeat split; auto; lia].
    + right. exists k. cbn [mv_ckidx mv_ck]. split; [lia|]. split; [exact En|].
      pose proof (mapply_all_mdapply_all _ _ _ _ _ A1) as D. cbn [fst] in D. rewrite D. reflexivity.
Qed.

Lemma NoDup_fst_nth : forall {A} (cs : list (N * A)) p q i a b, NoDup (map fst cs) ->
  nth_error cs p = Some (i, a) -> nth_error cs q = Some (i, b) -> p = q.
Proof.
  intros A cs p q i a b Hnd Hp Hq.
  assert (Hp' : nth_error (map fst cs) p = Some i) by (rewrite nth_error_map, Hp; reflexivity).
  assert (Hq' : nth_error (map fst cs) q = Some i) by (rewrite nth_error_map, Hq; reflexivity).
  eapply NoDup_nth_error; eauto. apply nth_error_Some. congruence. congruence.
Qed.

Lemma cc_shaped_harmless : forall cs k j sk rk, cc_shaped cs -> (k <= length cs)%nat ->
  mapply_all (m_init, mv_init) (firstn k cs) = Some (sk, rk) -> harmless (snd sk) (skipn j cs).
Proof.
  intros cs k j sk rk [Hnd Hcc] Hk H i ix ck Hin Hx.
  assert (Hin' : In (i, MCkVerify ix ck) cs).
  { rewrite <- (firstn_skipn j cs). apply in_or_app. now right. }
  apply In_nth_error in Hin'. destruct Hin' as [q Hq].
  destruct (Hcc _ _ _ _ Hq) as (Hni & p & Hpq & Hp & Hck).
  destruct (prefix_vol_from _ _ _ _ Hk H) as [Hv|(p' & Hp' & Hn' & Hc')].
  - rewrite Hv in Hx. exfalso. apply Hni. symmetry. exact Hx.
  - rewrite Hx in Hn'. assert (p' = p) by (eapply NoDup_fst_nth; eauto). subst p'. rewrite Hc', Hck. reflexivity.
Qed.

(* snapshot agreement for the repaired restore, for every history with ConsistencyCheck-shaped checksum rounds *)
Lemma replicas_agree_master_cc_lemma :
  forall (cs : list (N * mcmd)) (k j : nat) sk rk sj rj sfull rfull,
    (k <= j)%nat -> (j <= length cs)%nat -> cc_shaped cs ->
    mapply_all (m_init, mv_init) (firstn k cs) = Some (sk, rk) ->
    mapply_all (m_init, mv_init) (firstn j cs) = Some (sj, rj) ->
    mapply_all (m_init, mv_init) cs = Some (sfull, rfull) ->
    exists s' r',
      mapply_all (restore_fresh sk (msnapshot sj)) (skipn j cs) = Some (s', r') /\
      fst s' = fst sfull /\ r' = skipn j rfull.
Proof.
  intros cs k j sk rk sj rj sfull rfull Hkj Hj Hcc Hk Hjr Hfull.
  eapply replicas_agree_master_lemma; eauto. apply (cc_shaped_harmless cs k j sk rk Hcc); [lia|exact Hk].
Qed.

(* a ConsistencyCheck-shaped history never kills the straight master replica either *)
Definition f7_cc_example : list (N * mcmd) :=
  [(1, MRegCurator); (2, MCkReq); (3, MSetRO true); (4, MCkVerify 2 1624963391); (5, MSetRO false); (6, MNewPart 1)].
