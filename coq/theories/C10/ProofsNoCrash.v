(* C10/ProofsNoCrash.v — the last sentence of C10 at full strength: in every state reachable from the empty database by
   submittable commands (restarts allowed), no submittable command makes Apply die.  `submittable` is relative to the
   HISTORY (what the proposer read or was answered earlier), not to the state the command happens to be applied to;
   the gap is closed with the C11 invariants: blob ids are never reused and tract lists only grow. *)
From Coq Require Import List Arith NArith Bool Lia ZifyN ZifyNat ZifyBool.
From BLB Require Import Gen.Consts Meta.AMap Meta.Curator Meta.CuratorFacts Meta.CuratorInv
     C10.Proofs C11.Proofs C11.ProofsInv C11.ProofsG.
Import ListNotations.
Open Scope N_scope.

(* DESIGN appendix B.1, clause by clause (h = the commands applied so far with their raft indices, past = the database
   states the history went through, newest first):
   - host lists of ExtendBlob / ChangeTract carry master-issued tractserver ids 1..2^20-1            (hosts_sub)
   - CommitRSChunk layouts are what packTracts produces                                            (layout_sub)
   - AllocateRSChunkIDs asks for a sane count                                                       (alloc_sane)
   - ChangeTract names a tract index that GetTracts returned for that blob at some earlier state    (replicateTract, fixVersion)
   - CommitRSChunk names an RS storage class, UpdateStorageClass a class of the enum                (encCommit, storageClassLoop)
   - VerifyChecksum carries the checksum that the ChecksumCommand at that raft index returned       (ConsistencyCheck)
   - everything else (ids of unknown / deleted / removed blobs, stale versions, repeated ids, FinishDelete with or
     without cutoff, wrong first tract keys, host lists of the wrong length, ...) is unrestricted. *)
Definition submittable (h : list (N * cmd)) (past : list dstate) (c : cmd) : Prop :=
  hosts_sub c /\ layout_sub c /\ alloc_sane c /\
  match c with
  | CChangeTract bid idx _ _ =>
      exists d0 b0, In d0 past /\ live_blob d0 bid = Some b0 /\ idx < N.of_nat (length (b_tracts b0))
  | CCommitRS _ cls _ _ => is_rs_class cls = true
  | CUpdateSC _ cls => known_class cls = true
  | CVerify ix ck =>
      ix <> v_ckidx v_init /\ forall i' sb sr n ock, In (i', CChecksum sb sr n ock) h -> i' = ix -> ock = ck
  | _ => True
  end.

Inductive sreach : list (N * cmd) -> list dstate -> state -> Prop :=
| sr_init : sreach [] [d_init] s_init
| sr_step : forall h past s i c s' r,
    sreach h past s -> submittable h past c -> apply s i c = Some (s', r) ->
    sreach (h ++ [(i, c)]) (fst s' :: past) s'
| sr_restart : forall h past s, sreach h past s -> sreach h past (restart s).

(* an earlier state d0 of the history, seen from the current state d: every blob of d0 is still "spoken for" (its id
   cannot be handed out again) and, if it still exists, has at least as many tracts *)
Definition pastrel (d0 d : dstate) : Prop :=
  forall bid b0, aget bid (d_blobs d0) = Some b0 ->
    below d bid /\ forall b, aget bid (d_blobs d) = Some b -> (length (b_tracts b0) <= length (b_tracts b))%nat.

Lemma pastrel_refl : forall d, inv_a d -> pastrel d d.
Proof.
  intros d Ia bid b0 G. split; [apply Ia; unfold has; congruence|]. intros b Gb. rewrite G in Gb. inv Gb. lia.
Qed.

(* a blob key that appears was not spoken for *)
Lemma new_key_not_below : forall d i c d' r id, dapply d i c = Some (d', r) -> pinv d ->
  has id (d_blobs d') -> ~ has id (d_blobs d) -> ~ below d id.
Proof.
  intros d i c d' r id H P Hh Hn.
  destruct (dapply_cases _ _ _ _ _ H) as [[(_ & E2 & _) _]|(A & _)]; [rewrite E2 in Hh; contradiction|].
  destruct (apply_mut_newkey (set_index d i) c d' r id (proj1 P) A Hh) as [Hold|(pid & p & _ & _ & _ & _ & Hr)]; [contradiction|].
  exact (proj1 (create_returns_fresh _ _ _ _ _ _ H P Hr)).
Qed.

Lemma pastrel_step : forall d0 d i c d' r, dapply d i c = Some (d', r) -> cinv d -> pastrel d0 d -> pastrel d0 d'.
Proof.
  intros d0 d i c d' r H C Hp bid b0 G. destruct (Hp bid b0 G) as [B L]. pose proof C as (P & Ia & Ok).
  split; [eapply below_step; eauto|].
  intros b' Gb'. destruct (aget bid (d_blobs d)) as [b|] eqn:Gb.
  - specialize (L b eq_refl). pose proof (proj1 (dapply_blob_rel _ _ _ _ _ _ _ _ H C Gb Gb')). lia.
  - exfalso. eapply (new_key_not_below _ _ _ _ _ bid H P); [unfold has; congruence|unfold has; congruence|exact B].
Qed.

Definition hvol_ok (h : list (N * cmd)) (v : vstate) : Prop :=
  v = v_init \/ exists sb sr n, In (v_ckidx v, CChecksum sb sr n (v_ck v)) h.

Definition sinv (h : list (N * cmd)) (past : list dstate) (s : state) : Prop :=
  cinv (fst s) /\ parts_ok (fst s) /\ parts_wf (fst s) /\ Forall (fun d0 => pastrel d0 (fst s)) past /\ hvol_ok h (snd s)
  /\ inv_c (fst s) /\ inv_h (fst s) /\ inv_g (fst s).

Lemma sreach_sinv : forall h past s, sreach h past s -> sinv h past s.
Proof.
  induction 1 as [|h past s i c s' r Hr IH Hsub Happ|h past s Hr IH].
  - unfold sinv. cbn [fst snd s_init].
    split; [exact cinv_init|]. split; [exact parts_ok_init|]. split; [constructor|].
    split; [constructor; [apply pastrel_refl; exact inv_a_init|constructor]|].
    split; [now left|]. split; [exact inv_c_init|]. split; [exact inv_h_init|exact inv_g_init].
  - destruct IH as (C & Po & Pw & Hp & Hv & Ic & Ih & Ig). destruct s as [d v]. destruct s' as [d' v']. cbn [fst snd] in *.
    pose proof (apply_dapply _ _ _ _ _ _ Happ) as D. cbn [fst] in D.
    pose proof (dapply_cinv _ _ _ _ _ D C) as C'. destruct Hsub as (Hs1 & Hs2 & Hs3 & _).
    split; [exact C'|]. split; [eapply step_shape_parts_ok; [eapply dapply_shape; eauto|exact Po]|].
    split; [eapply dapply_wf; eauto|]. split; [|split; [|split; [|split]]].
    + constructor; [apply pastrel_refl; apply C'|].
      eapply Forall_impl; [|exact Hp]. intros d0 Hd0. eapply pastrel_step; eauto.
    + unfold apply in Happ. destruct (i <=? d_index d).
      { inv Happ. destruct Hv as [->|(sb & sr & n & Hin)]; [now left|right; do 3 eexists; apply in_or_app; left; exact Hin]. }
      assert (Hkeep : hvol_ok (h ++ [(i, c)]) v).
      { destruct Hv as [->|(sb & sr & n & Hin)]; [now left|right; do 3 eexists; apply in_or_app; left; exact Hin]. }
      destruct c;
        try (destruct (d_ro (set_index d i)); [inv Happ; exact Hkeep|];
             match type of Happ with context [apply_mut ?a ?b] => destruct (apply_mut a b) as [[d2 r2]|] end;
             [inv Happ; exact Hkeep|discriminate]);
        try (inv Happ; exact Hkeep).
      * inv Happ. right. do 3 eexists. apply in_or_app. right. left. cbn. reflexivity.
      * destruct ((v_ckidx v =? idx) && negb (v_ck v =? ck)); [discriminate|inv Happ; exact Hkeep].
    + eapply inv_c_step; eauto.
    + eapply inv_h_step; eauto.
    + eapply inv_g_step; eauto.
  - destruct IH as (C & Po & Pw & Hp & Hv & Rest). unfold sinv, restart. cbn [fst snd].
    split; [exact C|]. split; [exact Po|]. split; [exact Pw|]. split; [exact Hp|]. split; [now left|exact Rest].
Qed.

(* from the history-relative predicate to the state-relative one *)
Lemma submittable_now_of : forall h past s c, sinv h past s -> submittable h past c -> submittable_now s c.
Proof.
  intros h past [d v] c (C & Po & Pw & Hp & Hv & _) (_ & _ & _ & Hc). cbn [fst snd] in *.
  destruct c; cbn [submittable_now fst snd]; auto.
  - destruct Hc as (d0 & b0 & Hin & L0 & Hidx). intros b Lb.
    rewrite Forall_forall in Hp. destruct (Hp d0 Hin bid b0 (has_live _ _ _ L0)) as [_ Hl].
    specialize (Hl b (has_live _ _ _ Lb)). lia.
  - unfold known_class. rewrite Hc. apply orb_true_r.
  - destruct Hc as [Hn Hc]. intros Hx. destruct Hv as [->|(sb & sr & n & Hin)].
    + exfalso. apply Hn. symmetry. exact Hx.
    + eapply Hc; eauto.
Qed.

Lemma no_crash_full_lemma : forall h past s i c, sreach h past s -> submittable h past c -> apply s i c <> None.
Proof.
  intros h past s i c Hr Hs. pose proof (sreach_sinv _ _ _ Hr) as I.
  apply no_crash_lemma; [apply I|apply I|eapply submittable_now_of; eauto].
Qed.

(* ---------- non-vacuity helpers ---------- *)

Lemma sreach_cur_in_past : forall h past s, sreach h past s -> In (fst s) past.
Proof. induction 1; cbn; auto. Qed.

(* commands whose submittability does not depend on the history *)
Definition simple_sub (c : cmd) : Prop :=
  hosts_sub c /\ layout_sub c /\ alloc_sane c /\
  match c with
  | CChangeTract _ _ _ _ | CVerify _ _ => False
  | CCommitRS _ cls _ _ => is_rs_class cls = true
  | CUpdateSC _ cls => known_class cls = true
  | _ => True
  end.

Lemma simple_submittable : forall h past c, simple_sub c -> submittable h past c.
Proof. intros h past c (A & B & C & D). repeat split; auto. destruct c; auto; contradiction. Qed.

Lemma sreach_run : forall cs h past s s' r, sreach h past s -> Forall (fun e => simple_sub (snd e)) cs ->
  apply_all s cs = Some (s', r) -> exists past', sreach (h ++ cs) past' s'.
Proof.
  induction cs as [|[i c] cs IH]; intros h past s s' r Hr Hs Ha; cbn [apply_all] in Ha.
  - inv Ha. rewrite app_nil_r. eauto.
  - destruct (apply s i c) as [[s1 res]|] eqn:E; [|discriminate].
    destruct (apply_all s1 cs) as [[s2 rs]|] eqn:E2; [|discriminate]. inv Ha. inversion Hs; subst.
    assert (R1 : sreach (h ++ [(i, c)]) (fst s1 :: past) s1) by (eapply sr_step; eauto; apply simple_submittable; auto).
    destruct (IH _ _ _ _ _ R1 H2 E2) as [past' R2]. rewrite <- app_assoc in R2. eauto.
Qed.
