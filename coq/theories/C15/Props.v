(* C15/Props.v — property-level theorems only (statements + `exact`), each followed by Print Assumptions.
   Tags [FULL]/[PARTIAL]/[REFUTED] are read by bin/check.
   as_found = the client code before any repair; head_tree = with F16 and F17 (committed in /repo);
   repaired = additionally with F17b (a failed ReadaheadBlob.Seek keeps the buffer).
   res_ok v c s: client result c equals the sparse file's result s (count/offset, cursor, error class, bytes);
   for v = as_found the error class of a read in the F16 input class (s_full_tail) is nil instead of EOF. *)
From Coq Require Import List NArith ZArith Bool.
From BLB Require Import Gen.Consts C15.Core C15.Model C15.ProofsBytes C15.ProofsClient C15.ProofsStep C15.ProofsRA C15.ProofsCanon C15.ProofsFault.
Import ListNotations.
Open Scope N_scope.

(* [REFUTED] the code as found does not refine the sparse file exactly, at the real tract length. Witness =
   write one full tract, then ReadAt(len 20, off TractLength-10), which returns (10, nil) instead of (10, EOF).
   This is finding F16 *)
Theorem client_refines_sparse_refuted :
  exists ops, forallb direct_op ops = true /\
    ~ Forall2 (res_ok repaired) (run as_found c15_TractLength (init_state false) ops)
                                (srun c15_TractLength sf_empty ops).
Proof.
  exists [OWriteAt 0%Z [(c15_TractLength, 7)]; OReadAt (Z.of_N c15_TractLength - 10)%Z 20].
  split; [reflexivity|]. intro H. apply res_ok_repaired_err in H.
  vm_compute in H. discriminate.
Qed.
Print Assumptions client_refines_sparse_refuted.

(* [FULL] for every tract length, initial cache flag and every sequence of WriteAt, ReadAt, Write, Read, Seek,
   ByteLength, EnableCache, Reopen and NewReadahead operations, every result of the client code as found equals
   the sparse file's result, byte for byte, count, cursor and error class, except that a read starting inside a
   blob whose length is a positive multiple of the tract length and running past its end reports no error
   instead of EOF, its count and bytes still being right *)
Theorem client_refines_sparse_except_full_tail :
  forall tl c ops, 0 < tl -> forallb direct_op ops = true ->
    Forall2 (res_ok as_found) (run as_found tl (init_state c) ops) (srun tl sf_empty ops).
Proof. intros. apply run_refines; auto. apply R_init. Qed.
Print Assumptions client_refines_sparse_except_full_tail.

(* [FULL] with fixes F16 applied the client refines the sparse file with no exception, for every tract length,
   cache flag and operation sequence, res_ok repaired being exact agreement *)
Theorem client_refines_sparse_repaired :
  forall tl c ops, 0 < tl -> forallb direct_op ops = true ->
    Forall2 (res_ok repaired) (run repaired tl (init_state c) ops) (srun tl sf_empty ops).
Proof. intros. apply run_refines; auto. apply R_init. Qed.
Print Assumptions client_refines_sparse_repaired.

(* [FULL] in every state related to a sparse file, ByteLength is the file length, which by sf_write is the
   furthest byte ever written, and Seek from the end lands at that length plus the offset *)
Theorem bytelength_is_max_end :
  forall tl st f, R tl st f ->
    fst (byte_length tl st) = slen f /\
    forall d off, slen (sf_write f off d) = (if rlen d =? 0 then slen f else N.max (slen f) (off + rlen d)).
Proof.
  intros tl st f HR. split.
  - destruct (byte_length tl st) as [l st1] eqn:Hb. destruct (byte_length_R tl st f l st1 HR Hb) as (-> & _). reflexivity.
  - intros d off. unfold sf_write. destruct (rlen d =? 0); reflexivity.
Qed.
Print Assumptions bytelength_is_max_end.

(* [FULL] results do not depend on the location cache, for two runs of the same operations that differ in the
   initial cache flag and in the arguments of the EnableCache operations only *)
Theorem cache_transparent :
  forall v tl c1 c2 ops1 ops2, 0 < tl ->
    Forall2 same_but_cache ops1 ops2 -> forallb direct_op ops1 = true ->
    Forall2 res_same (run v tl (init_state c1) ops1) (run v tl (init_state c2) ops2).
Proof. exact cache_transparent_lemma. Qed.
Print Assumptions cache_transparent.

(* [REFUTED] the read-ahead wrapper's Seek relative to the current position is not relative to the position its
   reader has reached. Witness = 1000-byte blob, read 10 bytes through the wrapper, Seek(5, SEEK_CUR) returns
   1005 instead of 15. This is finding F17 *)
Theorem readahead_seek_cur_refuted :
  exists ops off,
    let st := exec as_found c15_TractLength (init_state false) ops in
    (0 <= lpos st + off)%Z /\ fst (fst (ra_seek as_found c15_TractLength st off 1)) <> (lpos st + off)%Z.
Proof.
  exists [OWriteAt 0%Z [(1000, 7)]; ORaRead 10], 5%Z. vm_compute. split; discriminate.
Qed.
Print Assumptions readahead_seek_cur_refuted.

(* [FULL] the buffered read-ahead wrapper returns the same bytes as direct reads. For every tract length, every
   state satisfying the wrapper invariant RAinv (tracts hold the file f, the buffer holds f from the logical
   position lpos = Blob.offset - Buffered up to Blob.offset, a sticky EOF only at or past the end) and every sequence
   of wrapper Read, Seek with SEEK_SET, SEEK_CUR, SEEK_END or an invalid whence, and ByteLength, the results are those
   of a plain Blob on f whose cursor starts at lpos, up to chunking (stream_ok with strict = true). Each Read of k
   bytes delivers a prefix, non-empty whenever the plain Read is, of the bytes the plain Read at the current cursor
   returns, and advances the cursor by its count, EOF being reported only when the delivered bytes reach the end and
   always when nothing is delivered for k > 0, which covers the large-read bypass and the sticky error. Each Seek
   returns exactly the offset and error of the plain Seek and moves the cursor where the plain Seek moves it,
   discarding the buffer on success and keeping everything on failure. Code = repaired, with F16 F17 F17b *)
Theorem readahead_stream_equal :
  forall tl st f ops, 0 < tl -> RAinv tl st f -> forallb ra_op ops = true ->
    stream_ok tl true f (lpos st) ops (run repaired tl st ops).
Proof. intros. apply (readahead_stream_lemma repaired); auto. Qed.
Print Assumptions readahead_stream_equal.

(* [FULL] the same for the tree as committed, F16 and F17 only, with one exception, strict = false. A Seek that
   FAILS, negative target or invalid whence, has already discarded the buffer, so the cursor may move forward by
   the buffered amount. Reads, successful Seeks and ByteLength agree with the plain Blob exactly as above *)
Theorem readahead_stream_equal_except_failed_seek :
  forall tl st f ops, 0 < tl -> RAinv tl st f -> forallb ra_op ops = true ->
    stream_ok tl false f (lpos st) ops (run head_tree tl st ops).
Proof. intros. apply (readahead_stream_lemma head_tree); auto. Qed.
Print Assumptions readahead_stream_equal_except_failed_seek.

(* [REFUTED] on the committed tree a failed wrapper Seek is not a no-op for the stream. Witness = 1000-byte blob,
   read 5 bytes through the wrapper, Seek(-1, SEEK_SET) fails, and the logical position has jumped from 5 to 1000,
   the buffered 995 bytes are skipped. This is finding F17b *)
Theorem readahead_failed_seek_refuted :
  exists ops off w,
    let st := exec head_tree c15_TractLength (init_state false) ops in
    let r := ra_seek head_tree c15_TractLength st off w in
    snd (fst r) <> E_OK /\ lpos (snd r) <> lpos st.
Proof.
  exists [OWriteAt 0%Z [(10, 1); (990, 2)]; ORaRead 5], (-1)%Z, 0%Z. vm_compute. split; discriminate.
Qed.
Print Assumptions readahead_failed_seek_refuted.

(* [FULL] between seeks the concatenation of what consecutive wrapper Reads deliver is exactly the file content
   from the logical position on, the bytes direct reads deliver, never beyond the end, for every variant with F17 *)
Theorem readahead_reads_concat :
  forall v tl st f ks, fix17 v = true -> 0 < tl -> RAinv tl st f ->
    let rs := run v tl st (map ORaRead ks) in
    rlen (delivered rs) = delivered_len rs /\
    (forall y, y < delivered_len rs -> rget (delivered rs) y = sget f (Z.to_N (lpos st) + y)) /\
    Z.to_N (lpos st) + delivered_len rs <= N.max (Z.to_N (lpos st)) (slen f).
Proof. exact readahead_reads_lemma. Qed.
Print Assumptions readahead_reads_concat.

(* [FULL] the wrapper invariant holds wherever a wrapper is created. After any sequence of direct operations from
   the empty blob followed by NewReadaheadBlob, RAinv relates the state to the sparse file those operations built *)
Theorem readahead_invariant_reachable :
  forall v tl c ops, 0 < tl -> forallb direct_op ops = true ->
    RAinv tl (exec v tl (init_state c) (ops ++ [ORaNew])) (sexec tl sf_empty ops).
Proof. exact RAinv_reachable_lemma. Qed.
Print Assumptions readahead_invariant_reachable.

(* [FULL] pointwise-equal byte strings have the same canonical run-length encoding, the form compared on the wire,
   so agreement of delivered bytes in res_ok and res_same is agreement of the encoded observations *)
Theorem canonical_rle_determined :
  forall a b, rlen a = rlen b -> (forall i, rget a i = rget b i) -> canon a = canon b /\ enc_runs a = enc_runs b.
Proof. intros a b Hl Hg. split; [apply canon_ext | apply enc_runs_ext]; auto. Qed.
Print Assumptions canonical_rle_determined.

(* [FULL] readAt's scan over the per-tract results, the first real error wins. For every list of results in which
   a result with an error other than end-of-file is preceded only by successful or short reads, whatever follows it,
   the scan returns that error and counts exactly the results before it, a short one in full since it is not the
   last. This is the loop a refactoring into a switch broke *)
Theorem read_scan_first_error_wins :
  forall padAll pre w r e rest acc,
    Forall benign pre -> e <> E_OK -> e <> E_EOF ->
    fold_results padAll (pre ++ (w, r, e) :: rest) acc E_OK =
    (fold_right (fun h a => counted h + a) 0 pre + acc, e).
Proof. exact fold_first_error_wins_lemma. Qed.
Print Assumptions read_scan_first_error_wins.

(* [FULL] a tract that no replica could deliver is never masked. For every variant, tract length, state related to a
   sparse file f, every set of armed tractserver read faults, persistent or first-attempt-only, including the retry
   through cache invalidation, a ReadAt of k > 0 bytes returns either the injected error with a count of at most the
   bytes the file holds in the range, those bytes being the file's, no claim beyond them, or exactly the fault-free
   answer, the file's count and bytes with end-of-file precisely when the range runs past the true end. It never
   reports end-of-file or success for a range it could not read. The state stays related to f and the cursor put *)
Theorem read_fault_never_masked :
  forall v tl fl st f off k r st', 0 < tl -> R tl st f -> (0 <= off)%Z -> 0 < k ->
    read_at_f v tl fl st off k = (r, st') ->
    fault_ok v tl f (Z.to_N off) k r /\ R tl st' f /\ pos st' = pos st.
Proof. exact read_at_f_fault_ok. Qed.
Print Assumptions read_fault_never_masked.

(* [FULL] the scan over the per-replica write results acknowledges a write only if EVERY slot of the array,
   one per tract and replica, is OK, and returns the first failing slot otherwise *)
Theorem write_scan_covers_every_slot :
  forall rs, scan_slots rs = E_OK <-> Forall (fun e => e = E_OK) rs.
Proof. exact scan_slots_ok. Qed.
Print Assumptions write_scan_covers_every_slot.

(* [FULL] an acknowledged write is in place. For every tract length, replica count, set of armed per-replica write
   faults, persistent or first-execution-only, and set of armed curator faults on the master lookup, StatBlob,
   GetTracts, ExtendBlob and AckExtendBlob calls, state related to a sparse file f, offset and data, if WriteAt returns
   no error then it wrote everything and the state is related to f with the data written at the offset, exactly as
   the fault-free write, including the path through cache invalidation and re-execution *)
Theorem write_ack_means_written :
  forall tl repl fl cf st f off b n st', 0 < tl -> R tl st f -> (0 <= off)%Z ->
    write_at_f tl repl fl cf st off b = ((n, E_OK), st') ->
    n = rlen b /\ R tl st' (sf_write f (Z.to_N off) b).
Proof. exact write_at_f_ack. Qed.
Print Assumptions write_ack_means_written.

(* non-vacuity: a concrete run exercising holes over part of a tract, a whole tract and several tracts *)
Example sparse_example :
  map (fun x => (r_n x, r_err x)) (run repaired 16 (init_state true)
     [OWriteAt 5%Z [(3, 9)]; OWriteAt 70%Z [(4, 8)]; OReadAt 0%Z 100; OLen; OSeek (-2)%Z 2%Z; ORead 10])
  = [(3%Z, 0); (4%Z, 0); (74%Z, 1); (74%Z, 0); (72%Z, 0); (2%Z, 1)].
Proof. vm_compute. reflexivity. Qed.
