(* C15/Props.v — property-level theorems only. *)
From Coq Require Import List NArith ZArith.
From BLB Require Import C15.Model.
