(* C15/Props.v — property-level theorems only (statements + `exact`), each followed by Print Assumptions.
   Tags [FULL]/[PARTIAL]/[REFUTED] are read by bin/check.
   as_found = the client code as it is in the repository; repaired = with fixes/F16 and fixes/F17 applied.
   res_ok v c s: client result c equals the sparse file's result s (count/offset, cursor, error class, bytes);
   for v = as_found the error class of a read in the F16 input class (s_full_tail) is nil instead of EOF. *)
From Coq Require Import List NArith ZArith Bool.
From BLB Require Import Gen.Consts C15.Core C15.Model C15.ProofsBytes C15.ProofsClient C15.ProofsStep.
Import ListNotations.
Open Scope N_scope.

(* [REFUTED] the code as found does not refine the sparse file exactly, at the real tract length. Witness =
   write one full tract, then ReadAt(len 20, off TractLength-10), which returns (10, nil) instead of (10, EOF).
   This is finding F16 *)
Theorem client_refines_sparse_refuted :
  exists ops, forallb direct_op ops = true /\
    ~ Forall2 (res_ok repaired) (run as_found c15_TractLength (init_state false) ops)
                                (srun c15_TractLength sf_empty ops).
Proof.
  exists [OWriteAt 0%Z [(c15_TractLength, 7)]; OReadAt (Z.of_N c15_TractLength - 10)%Z 20].
  split; [reflexivity|]. intro H. apply res_ok_repaired_err in H.
  vm_compute in H. discriminate.
Qed.
Print Assumptions client_refines_sparse_refuted.

(* [FULL] for every tract length, initial cache flag and every sequence of WriteAt, ReadAt, Write, Read, Seek,
   ByteLength, EnableCache, Reopen and NewReadahead operations, every result of the client code as found equals
   the sparse file's result, byte for byte, count, cursor and error class, except that a read starting inside a
   blob whose length is a positive multiple of the tract length and running past its end reports no error
   instead of EOF, its count and bytes still being right *)
Theorem client_refines_sparse_except_full_tail :
  forall tl c ops, 0 < tl -> forallb direct_op ops = true ->
    Forall2 (res_ok as_found) (run as_found tl (init_state c) ops) (srun tl sf_empty ops).
Proof. intros. apply run_refines; auto. apply R_init. Qed.
Print Assumptions client_refines_sparse_except_full_tail.

(* [FULL] with fixes F16 applied the client refines the sparse file with no exception, for every tract length,
   cache flag and operation sequence, res_ok repaired being exact agreement *)
Theorem client_refines_sparse_repaired :
  forall tl c ops, 0 < tl -> forallb direct_op ops = true ->
    Forall2 (res_ok repaired) (run repaired tl (init_state c) ops) (srun tl sf_empty ops).
Proof. intros. apply run_refines; auto. apply R_init. Qed.
Print Assumptions client_refines_sparse_repaired.

(* [FULL] in every state related to a sparse file, ByteLength is the file length, which by sf_write is the
   furthest byte ever written, and Seek from the end lands at that length plus the offset *)
Theorem bytelength_is_max_end :
  forall tl st f, R tl st f ->
    fst (byte_length tl st) = slen f /\
    forall d off, slen (sf_write f off d) = (if rlen d =? 0 then slen f else N.max (slen f) (off + rlen d)).
Proof.
  intros tl st f HR. split.
  - destruct (byte_length tl st) as [l st1] eqn:Hb. destruct (byte_length_R tl st f l st1 HR Hb) as (-> & _). reflexivity.
  - intros d off. unfold sf_write. destruct (rlen d =? 0); reflexivity.
Qed.
Print Assumptions bytelength_is_max_end.

(* [FULL] results do not depend on the location cache, for two runs of the same operations that differ in the
   initial cache flag and in the arguments of the EnableCache operations only *)
Theorem cache_transparent :
  forall v tl c1 c2 ops1 ops2, 0 < tl ->
    Forall2 same_but_cache ops1 ops2 -> forallb direct_op ops1 = true ->
    Forall2 res_same (run v tl (init_state c1) ops1) (run v tl (init_state c2) ops2).
Proof. exact cache_transparent_lemma. Qed.
Print Assumptions cache_transparent.

(* [REFUTED] the read-ahead wrapper's Seek relative to the current position is not relative to the position its
   reader has reached. Witness = 1000-byte blob, read 10 bytes through the wrapper, Seek(5, SEEK_CUR) returns
   1005 instead of 15. This is finding F17 *)
Theorem readahead_seek_cur_refuted :
  exists ops off,
    let st := exec as_found c15_TractLength (init_state false) ops in
    (0 <= lpos st + off)%Z /\ fst (fst (ra_seek as_found c15_TractLength st off 1)) <> (lpos st + off)%Z.
Proof.
  exists [OWriteAt 0%Z [(1000, 7)]; ORaRead 10], 5%Z. vm_compute. split; discriminate.
Qed.
Print Assumptions readahead_seek_cur_refuted.

(* [FULL] the wrapper's Seek from the start and from the end returns and reaches the same offset as a plain
   Blob Seek on the sparse file, discarding the buffer, in every state and for every variant, and with fix F17
   Seek relative to the current position is relative to the wrapper's logical position *)
Theorem readahead_seek_agrees :
  forall v tl st f off, R tl st f ->
    ((0 <= off)%Z ->
       fst (fst (ra_seek v tl st off 0)) = off /\ pos (snd (ra_seek v tl st off 0)) = off /\
       rbuf (snd (ra_seek v tl st off 0)) = []) /\
    ((0 <= Z.of_N (slen f) + off)%Z ->
       fst (fst (ra_seek v tl st off 2)) = (Z.of_N (slen f) + off)%Z /\
       pos (snd (ra_seek v tl st off 2)) = (Z.of_N (slen f) + off)%Z /\ rbuf (snd (ra_seek v tl st off 2)) = []) /\
    (fix17 v = true -> (0 <= lpos st + off)%Z ->
       fst (fst (ra_seek v tl st off 1)) = (lpos st + off)%Z /\
       pos (snd (ra_seek v tl st off 1)) = (lpos st + off)%Z /\ rbuf (snd (ra_seek v tl st off 1)) = []).
Proof.
  intros v tl st f off HR. split; [|split].
  - apply ra_seek_set_lemma.
  - apply ra_seek_end_lemma; auto.
  - apply ra_seek_cur_repaired_lemma.
Qed.
Print Assumptions readahead_seek_agrees.

(* non-vacuity: a concrete run exercising holes over part of a tract, a whole tract and several tracts *)
Example sparse_example :
  map (fun x => (r_n x, r_err x)) (run repaired 16 (init_state true)
     [OWriteAt 5%Z [(3, 9)]; OWriteAt 70%Z [(4, 8)]; OReadAt 0%Z 100; OLen; OSeek (-2)%Z 2%Z; ORead 10])
  = [(3%Z, 0); (4%Z, 0); (74%Z, 1); (74%Z, 0); (72%Z, 0); (2%Z, 1)].
Proof. vm_compute. reflexivity. Qed.
