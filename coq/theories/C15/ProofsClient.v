(* C15/ProofsClient.v — the client model (writeAt / readAt / byteLength / Seek over fixed-size tracts)
   refines a sparse file. *)
From Coq Require Import List NArith ZArith Bool Lia ZifyN ZifyNat ZifyBool.
From BLB Require Import C15.Core C15.ProofsBytes.
Import ListNotations.
Open Scope N_scope.

(* byte x of the blob as stored: tract x / tl, offset x mod tl, zero where the tract is short or absent *)
Definition tget (tl : N) (T : N -> runs) (x : N) : N := rget (T (x / tl)) (x mod tl).

Lemma upd_same : forall T j t, upd T j t j = t.
Proof. intros. unfold upd. rewrite N.eqb_refl. reflexivity. Qed.
Lemma upd_other : forall T j t q, q <> j -> upd T j t q = T q.
Proof. intros. unfold upd. destruct (N.eqb_spec q j); congruence. Qed.

Lemma next_range_spec : forall tl blen o p j, 0 < tl -> p < blen -> j * tl <= o + p -> o + p < (j + 1) * tl ->
  let '(toff, tlen) := next_range tl blen o p in
  toff = o + p - j * tl /\ 0 < tlen /\ o + p + tlen = N.min (o + blen) ((j + 1) * tl).
Proof.
  intros. unfold next_range. destruct (div_mod_tract tl (o + p) j) as [_ Hm]; auto. rewrite Hm.
  destruct (N.ltb_spec (blen - p) (tl - (o + p - j * tl))); lia.
Qed.

Lemma write_tracts_spec : forall tl o b, 0 < tl ->
  forall cnt j T p T' p',
  write_tracts tl cnt j T b o p = (T', p') ->
  (cnt > 0)%nat ->
  p < rlen b -> j * tl <= o + p -> o + p < (j + 1) * tl ->
  (j + N.of_nat cnt - 1) * tl < o + rlen b ->
  o + p' = N.min (o + rlen b) ((j + N.of_nat cnt) * tl) /\
  forall q,
    (q < j \/ j + N.of_nat cnt <= q -> T' q = T q) /\
    (j <= q < j + N.of_nat cnt ->
       rlen (T' q) = N.max (rlen (T q)) (N.min tl (o + rlen b - q * tl)) /\
       forall i, rget (T' q) i =
                 if (i <? tl) && (o + p <=? q * tl + i) && (q * tl + i <? o + rlen b)
                 then rget b (q * tl + i - o) else rget (T q) i).
Proof.
  intros tl o b Htl. induction cnt as [|c IH]; intros j T p T' p' Hw Hc Hp Hj1 Hj2 He; [lia|].
  cbn [write_tracts] in Hw.
  pose proof (next_range_spec tl (rlen b) o p j Htl Hp Hj1 Hj2) as Hn.
  destruct (next_range tl (rlen b) o p) as [toff tlen]. destruct Hn as (Htoff & Htlen & Hsum).
  set (thisB := rtake tlen (rdrop p b)) in *.
  assert (HlB : rlen thisB = tlen) by (unfold thisB; rewrite rlen_rtake, rlen_rdrop; lia).
  assert (HgB : forall i, i < tlen -> rget thisB i = rget b (p + i)).
  { intros i Hi. unfold thisB. rewrite rget_rtake, rget_rdrop. destruct (N.ltb_spec i tlen); [auto | lia]. }
  set (T1 := upd T j (ts_write (T j) toff thisB)) in *.
  assert (Hj : rlen (T1 j) = N.max (rlen (T j)) (N.min tl (o + rlen b - j * tl)) /\
               forall i, rget (T1 j) i =
                 if (i <? tl) && (o + p <=? j * tl + i) && (j * tl + i <? o + rlen b)
                 then rget b (j * tl + i - o) else rget (T j) i).
  { unfold T1. rewrite upd_same. split.
    - rewrite rlen_ts_write, HlB. lia.
    - intro i. rewrite rget_ts_write, HlB.
      destruct (N.leb_spec toff i), (N.ltb_spec i (toff + tlen)), (N.ltb_spec i tl),
               (N.leb_spec (o + p) (j * tl + i)), (N.ltb_spec (j * tl + i) (o + rlen b)); cbn [andb]; try lia; auto.
      rewrite HgB by lia. f_equal. lia. }
  destruct c as [|c'].
  - cbn [write_tracts] in Hw. inversion Hw; subst T' p'. clear Hw IH.
    split; [lia|]. intro q. split.
    + intros Hq. unfold T1. apply upd_other. lia.
    + intros Hq. assert (q = j) by lia. subst q. exact Hj.
  - assert (Hmore : (j + 1) * tl < o + rlen b) by nia.
    assert (Hs : o + (p + tlen) = (j + 1) * tl) by lia.
    specialize (IH (j + 1) T1 (p + tlen) T' p' Hw).
    destruct IH as [IHp IHq]; try lia; try nia.
    split; [rewrite IHp; f_equal; lia|].
    intro q. destruct (IHq q) as [IH1 IH2]. split.
    + intros Hq. rewrite IH1 by lia. unfold T1. apply upd_other. lia.
    + intros Hq. destruct (N.eq_dec q j) as [->|Hne].
      * rewrite IH1 by lia. exact Hj.
      * assert (Hq' : j + 1 <= q < j + 1 + N.of_nat (S c')) by lia.
        destruct (IH2 Hq') as [IHl IHg].
        assert (HT : T1 q = T q) by (unfold T1; apply upd_other; lia).
        rewrite HT in *. split; [exact IHl|].
        intro i. rewrite IHg.
        assert ((j + 1) * tl <= q * tl) by nia.
        destruct (N.leb_spec (o + (p + tlen)) (q * tl + i)), (N.leb_spec (o + p) (q * tl + i)); try lia; auto.
Qed.

Lemma create_empty_spec : forall cnt j T q,
  rlen (create_empty cnt j T q) = rlen (T q) /\ forall i, rget (create_empty cnt j T q) i = rget (T q) i.
Proof.
  induction cnt as [|c IH]; intros; cbn [create_empty]; [auto|].
  destruct (IH (j + 1) (upd T j (ts_write (T j) 0 [])) q) as [H1 H2].
  rewrite H1. split.
  - unfold upd. destruct (N.eqb_spec q j); auto. subst. rewrite rlen_ts_write. cbn [rlen]. lia.
  - intro i. rewrite H2. unfold upd. destruct (N.eqb_spec q j); auto. subst. rewrite rget_ts_write. cbn [rlen].
    destruct (N.leb_spec 0 i), (N.ltb_spec i (0 + 0)); cbn [andb]; try lia; auto.
Qed.

(* ---------- well-formed tract stores, the abstraction to a flat file ---------- *)
Definition wf (tl : N) (T : N -> runs) (n : N) : Prop :=
  (forall q, rlen (T q) <= tl) /\ (forall q, n <= q -> rlen (T q) = 0) /\ (0 < n -> 0 < rlen (T (n - 1))).

Definition blen (tl : N) (T : N -> runs) (n : N) : N :=
  if n =? 0 then 0 else (n - 1) * tl + rlen (T (n - 1)).

Definition cache_ok (st : cstate) : Prop := forall i, In i (cache st) -> i < ntr st.

Lemma in_range : forall a c i, In i (range a c) <-> a <= i < a + c.
Proof.
  intros. unfold range. rewrite in_map_iff. split.
  - intros [x [Hx Hin]]. apply in_seq in Hin. lia.
  - intros H. exists (N.to_nat (i - a)). split; [lia|]. apply in_seq. lia.
Qed.

Lemma memN_in : forall x l, memN x l = true <-> In x l.
Proof.
  intros. unfold memN. rewrite existsb_exists. split.
  - intros [y [Hy He]]. apply N.eqb_eq in He. subst. auto.
  - intros H. exists x. split; auto. apply N.eqb_refl.
Qed.

(* getTracts: the cache never changes which tracts are returned *)
Lemma get_tracts_spec : forall st a b f c st',
  cache_ok st -> a < b -> get_tracts st a b = ((f, c), st') ->
  f = N.min a (ntr st) /\ c = N.min b (ntr st) - N.min a (ntr st) /\
  tracts st' = tracts st /\ ntr st' = ntr st /\ pos st' = pos st /\ rbuf st' = rbuf st /\ rerr st' = rerr st /\
  cache_on st' = cache_on st /\ cache_ok st'.
Proof.
  intros st a b f c st' Hc Hab H. unfold get_tracts in H.
  destruct (cache_on st && forallb (fun i => memN i (cache st)) (range a (b - a))) eqn:E.
  - inversion H. subst f c st'. clear H. apply andb_true_iff in E. destruct E as [_ E].
    rewrite forallb_forall in E.
    assert (b - 1 < ntr st).
    { apply Hc. apply memN_in. apply E. apply in_range. lia. }
    repeat split; auto; lia.
  - inversion H. subst f c st'. clear H. cbn. repeat split; auto.
    intros i Hi. cbn [cache] in Hi. cbn [ntr]. destruct (cache_on st); auto.
    apply in_app_or in Hi. destruct Hi as [Hi|Hi]; auto. apply in_range in Hi. cbn [ntr]. lia.
Qed.

(* what a complete write does to each tract *)
Definition tract_written (tl o : N) (b : runs) (T T' : N -> runs) : Prop :=
  let start := o / tl in let e := (o + rlen b + tl - 1) / tl in
  forall q,
    rlen (T' q) = (if (start <=? q) && (q <? e) then N.max (rlen (T q)) (N.min tl (o + rlen b - q * tl)) else rlen (T q)) /\
    forall i, rget (T' q) i =
              if (i <? tl) && (o <=? q * tl + i) && (q * tl + i <? o + rlen b) then rget b (q * tl + i - o) else rget (T q) i.

Lemma tract_written_file : forall tl o b T n T', 0 < tl -> 0 < rlen b -> wf tl T n ->
  tract_written tl o b T T' ->
  let n' := N.max n ((o + rlen b + tl - 1) / tl) in
  wf tl T' n' /\ blen tl T' n' = N.max (blen tl T n) (o + rlen b) /\
  forall x, tget tl T' x = if (o <=? x) && (x <? o + rlen b) then rget b (x - o) else tget tl T x.
Proof.
  intros tl o b T n T' Htl Hb (W1 & W2 & W3) HT n'. unfold tract_written in HT.
  set (start := o / tl) in *. set (e := (o + rlen b + tl - 1) / tl) in *.
  destruct (tract_of tl o Htl) as (S1 & S2 & _). fold start in S1, S2.
  destruct (ceil_tract tl (o + rlen b) Htl ltac:(lia)) as (E1 & E2 & E3).
  replace ((o + rlen b + tl - 1) / tl) with e in * by (unfold e; f_equal; lia).
  assert (Hse : start < e) by nia.
  split; [|split].
  - (* wf *)
    split; [|split].
    + intro q. destruct (HT q) as [Hl _]. rewrite Hl. specialize (W1 q).
      destruct ((start <=? q) && (q <? e)); lia.
    + intros q Hq. destruct (HT q) as [Hl _]. rewrite Hl.
      destruct (N.leb_spec start q), (N.ltb_spec q e); cbn [andb]; try lia; apply W2; lia.
    + intros Hn. destruct (HT (n' - 1)) as [Hl _]. rewrite Hl.
      destruct (N.leb_spec start (n' - 1)), (N.ltb_spec (n' - 1) e); cbn [andb].
      * assert ((n' - 1) * tl < o + rlen b) by nia. lia.
      * assert (n' = n) by lia. rewrite H1. apply W3. lia.
      * lia.
      * assert (n' = n) by lia. rewrite H1. apply W3. lia.
  - (* length *)
    unfold blen. destruct (N.eqb_spec n' 0); [lia|].
    destruct (HT (n' - 1)) as [Hl _]. rewrite Hl.
    destruct (N.leb_spec start (n' - 1)), (N.ltb_spec (n' - 1) e); cbn [andb].
    + assert (n' = e) by lia.
      destruct (N.eqb_spec n 0).
      * rewrite W2 by lia. nia.
      * destruct (N.eq_dec n e).
        -- subst n. rewrite H1. nia.
        -- assert (n < e) by lia. rewrite (W2 (n' - 1)) by lia.
           assert (rlen (T (n - 1)) <= tl) by apply W1.
           assert ((n - 1) * tl + tl <= (e - 1) * tl) by nia. nia.
    + assert (n' = n) by lia. rewrite H1 in *. destruct (N.eqb_spec n 0); [lia|].
      assert (0 < rlen (T (n - 1))) by (apply W3; lia).
      assert (e * tl <= (n - 1) * tl) by nia. lia.
    + lia.
    + assert (n' = n) by lia. rewrite H1 in *. destruct (N.eqb_spec n 0); [lia|].
      assert (0 < rlen (T (n - 1))) by (apply W3; lia).
      assert (e * tl <= (n - 1) * tl) by nia. lia.
  - intro x. unfold tget. destruct (tract_of tl x Htl) as (X1 & X2 & X3 & X4).
    destruct (HT (x / tl)) as [_ Hg]. rewrite Hg.
    rewrite <- X4. destruct (N.ltb_spec (x mod tl) tl); [|lia]. cbn [andb]. reflexivity.
Qed.

Definition same_handle (st st' : cstate) : Prop :=
  pos st' = pos st /\ rbuf st' = rbuf st /\ rerr st' = rerr st /\ cache_on st' = cache_on st.

Lemma write_tracts_specN : forall tl o b, 0 < tl ->
  forall c j T p T' p',
  write_tracts tl (N.to_nat c) j T b o p = (T', p') ->
  0 < c -> p < rlen b -> j * tl <= o + p -> o + p < (j + 1) * tl ->
  (j + c - 1) * tl < o + rlen b ->
  o + p' = N.min (o + rlen b) ((j + c) * tl) /\
  forall q,
    (q < j \/ j + c <= q -> T' q = T q) /\
    (j <= q < j + c ->
       rlen (T' q) = N.max (rlen (T q)) (N.min tl (o + rlen b - q * tl)) /\
       forall i, rget (T' q) i =
                 if (i <? tl) && (o + p <=? q * tl + i) && (q * tl + i <? o + rlen b)
                 then rget b (q * tl + i - o) else rget (T q) i).
Proof.
  intros tl o b Htl c j T p T' p' Hw Hc Hp H1 H2 H3.
  pose proof (write_tracts_spec tl o b Htl (N.to_nat c) j T p T' p' Hw) as S.
  rewrite N2Nat.id in S. apply S; auto. lia.
Qed.

Lemma write_at_spec : forall tl st off b r st',
  0 < tl -> wf tl (tracts st) (ntr st) -> cache_ok st -> (0 <= off)%Z -> 0 < rlen b ->
  write_at tl st off b = (r, st') ->
  r = (rlen b, E_OK) /\ tract_written tl (Z.to_N off) b (tracts st) (tracts st') /\
  ntr st' = N.max (ntr st) ((Z.to_N off + rlen b + tl - 1) / tl) /\
  same_handle st st' /\ cache_ok st'.
Proof.
  intros tl st off b r st' Htl Hwf Hc Hoff Hb H. unfold write_at in H.
  destruct (Z.ltb_spec off 0) as [Ho0|Ho0]; [lia|].
  destruct (N.eqb_spec (rlen b) 0) as [Hb0|Hb0]; [lia|].
  set (o := Z.to_N off) in *. set (start := o / tl) in *. set (e := (o + rlen b + tl - 1) / tl) in *.
  set (n := ntr st) in *.
  destruct (tract_of tl o Htl) as (S1 & S2 & _). fold start in S1, S2.
  destruct (ceil_tract tl (o + rlen b) Htl ltac:(lia)) as (E1 & E2 & E3).
  replace ((o + rlen b + tl - 1) / tl) with e in * by (unfold e; f_equal; lia).
  assert (Hse : start < e).
  { destruct (N.lt_ge_cases start e) as [|Hge]; auto.
    assert (e * tl <= start * tl) by (apply N.mul_le_mono_r; lia). lia. }
  assert (Hout : forall q i, q < start \/ e <= q ->
            (i <? tl) && (o <=? q * tl + i) && (q * tl + i <? o + rlen b) = false).
  { intros q i Hq. destruct (N.ltb_spec i tl), (N.leb_spec o (q * tl + i)), (N.ltb_spec (q * tl + i) (o + rlen b));
      cbn [andb]; auto. exfalso. destruct Hq as [Hq|Hq].
    - pose proof (mul_lt_tract tl q start Htl Hq). lia.
    - assert (e * tl <= q * tl) by (apply N.mul_le_mono_r; lia). lia. }
  assert (Hst : o / tl = start) by reflexivity. assert (Hen : (o + rlen b + tl - 1) / tl = e) by reflexivity.
  clearbody start e o.
  destruct (N.ltb_spec start n) as [Hsn|Hsn].
  - (* some tracts exist already *)
    destruct (get_tracts st start (N.min e n)) as [[f c] st0] eqn:Hg.
    destruct (get_tracts_spec st start (N.min e n) f c st0 Hc ltac:(lia) Hg) as (_ & _ & G1 & G2 & G3 & G4 & G5 & G6 & G7).
    destruct (write_tracts tl (N.to_nat (N.min e n - start)) start (tracts st0) b o 0) as [T1 wp] eqn:Hw1.
    rewrite G1 in Hw1.
    assert (Hm1 : (start + (N.min e n - start) - 1) * tl < o + rlen b).
    { assert ((start + (N.min e n - start) - 1) * tl <= (e - 1) * tl) by (apply N.mul_le_mono_r; lia). lia. }
    destruct (write_tracts_specN tl o b Htl _ _ _ _ _ _ Hw1) as [Hp1 Hq1]; try lia.
    replace (start + (N.min e n - start)) with (N.min e n) in * by lia.
    destruct (N.ltb_spec n e) as [Hne|Hne].
    + (* ... and more are created *)
      replace (N.min e n) with n in * by lia.
      replace (N.to_nat (n - n)) with 0%nat in H by lia. cbn [create_empty] in H.
      cbn [tracts set_tracts] in H.
      assert (Hn1 : n * tl <= (e - 1) * tl) by (apply N.mul_le_mono_r; lia).
      assert (Hwp : o + wp = n * tl) by lia.
      destruct (write_tracts tl (N.to_nat (e - n)) n T1 (rdrop wp b) (o + wp) 0) as [T2 cp] eqn:Hw2.
      assert (Hb1 : rlen (rdrop wp b) = rlen b - wp) by apply rlen_rdrop.
      assert (Hm2 : (n + (e - n) - 1) * tl < o + wp + rlen (rdrop wp b)).
      { replace (n + (e - n) - 1) with (e - 1) by lia. lia. }
      destruct (write_tracts_specN tl (o + wp) (rdrop wp b) Htl _ _ _ _ _ _ Hw2) as [Hp2 Hq2]; try lia.
      replace (n + (e - n)) with e in * by lia.
      inversion H; subst r st'. clear H. cbn [tracts ntr set_tracts].
      split; [f_equal; lia|]. split; [|split; [lia|split]].
      * assert (Hwb : o + wp + (rlen b - wp) = o + rlen b) by lia.
        unfold tract_written. rewrite Hst, Hen.
        clear Hp1 Hp2 Hm1 Hm2 S1 S2 E1 E2 E3 Hn1 Hw1 Hw2 Hg G1 G2 G3 G4 G5 G6 G7 Hb Hb0 Ho0 Hoff Hc Hwf Hst Hen.
        intro q.
        destruct (Hq1 q) as [A1 A2]. destruct (Hq2 q) as [B1 B2]. clear Hq1 Hq2.
        destruct (N.ltb_spec q start).
        { rewrite B1, A1 by lia. split.
          - destruct (N.leb_spec start q), (N.ltb_spec q e); cbn [andb]; try lia; auto.
          - intro i. rewrite Hout by lia. reflexivity. }
        destruct (N.ltb_spec q n).
        { rewrite B1 by lia. destruct A2 as [A2l A2g]; [lia|]. split.
          - rewrite A2l. destruct (N.leb_spec start q), (N.ltb_spec q e); cbn [andb]; try lia; auto.
          - intro i. rewrite A2g. rewrite N.add_0_r. reflexivity. }
        destruct (N.ltb_spec q e).
        { destruct B2 as [B2l B2g]; [lia|]. rewrite A1 in B2l, B2g by lia. split.
          - rewrite B2l, Hb1, Hwb. destruct (N.leb_spec start q), (N.ltb_spec q e); cbn [andb]; try lia; auto.
          - intro i. rewrite B2g, Hb1, Hwb, rget_rdrop, N.add_0_r.
            assert (n * tl <= q * tl) by (apply N.mul_le_mono_r; lia).
            destruct (N.ltb_spec i tl), (N.leb_spec (o + wp) (q * tl + i)), (N.leb_spec o (q * tl + i)),
                     (N.ltb_spec (q * tl + i) (o + rlen b));
              cbn [andb]; try lia; auto.
            f_equal. lia. }
        { rewrite B1, A1 by lia. split.
          - destruct (N.leb_spec start q), (N.ltb_spec q e); cbn [andb]; try lia; auto.
          - intro i. rewrite Hout by lia. reflexivity. }
      * unfold same_handle. cbn. tauto.
      * intros i Hi. cbn [cache ntr set_tracts] in *. specialize (G7 i Hi). lia.
    + (* all written tracts exist *)
      replace (N.min e n) with e in * by lia.
      inversion H; subst r st'. clear H. cbn [tracts ntr set_tracts].
      split; [f_equal; lia|]. split; [|split; [lia|split]].
      * unfold tract_written. rewrite Hst, Hen. intro q. destruct (Hq1 q) as [A1 A2].
        destruct (N.leb_spec start q), (N.ltb_spec q e); cbn [andb].
        { destruct A2 as [A2l A2g]; [lia|]. split; auto. intro i. rewrite A2g, N.add_0_r. reflexivity. }
        { rewrite A1 by lia. split; auto. intro i. rewrite Hout by lia. reflexivity. }
        { rewrite A1 by lia. split; auto. intro i. rewrite Hout by lia. reflexivity. }
        { rewrite A1 by lia. split; auto. intro i. rewrite Hout by lia. reflexivity. }
      * unfold same_handle. cbn. tauto.
      * intros i Hi. cbn [cache ntr set_tracts] in *. specialize (G7 i Hi). lia.
  - (* the write starts at or beyond the current last tract *)
    destruct (N.ltb_spec n e) as [Hne|Hne]; [|lia].
    set (Th := create_empty (N.to_nat (start - n)) n (tracts st)) in *.
    destruct (write_tracts tl (N.to_nat (e - start)) start Th b o 0) as [T2 cp] eqn:Hw2.
    assert (Hm2 : (start + (e - start) - 1) * tl < o + rlen b).
    { replace (start + (e - start) - 1) with (e - 1) by lia. lia. }
    destruct (write_tracts_specN tl o b Htl _ _ _ _ _ _ Hw2) as [Hp2 Hq2]; try lia.
    replace (start + (e - start)) with e in * by lia.
    inversion H; subst r st'. clear H. cbn [tracts ntr set_tracts].
    split; [f_equal; lia|]. split; [|split; [lia|split]].
    + unfold tract_written. rewrite Hst, Hen. intro q. destruct (Hq2 q) as [B1 B2].
      destruct (create_empty_spec (N.to_nat (start - n)) n (tracts st) q) as [C1 C2]. fold Th in C1, C2.
      destruct (N.leb_spec start q), (N.ltb_spec q e); cbn [andb].
      { destruct B2 as [B2l B2g]; [lia|]. rewrite B2l, C1. split; auto.
        intro i. rewrite B2g, N.add_0_r, C2. reflexivity. }
      { rewrite B1 by lia. split; auto. intro i. rewrite Hout by lia. auto. }
      { rewrite B1 by lia. split; auto. intro i. rewrite Hout by lia. auto. }
      { rewrite B1 by lia. split; auto. intro i. rewrite Hout by lia. auto. }
    + unfold same_handle. cbn. tauto.
    + intros i Hi. cbn [cache ntr set_tracts] in *. specialize (Hc i Hi). fold n in Hc. lia.
Qed.

(* ---------- readAt ---------- *)
Lemma read_tracts_spec : forall tl T k o padAll, 0 < tl ->
  forall cnt j p acc,
  (cnt > 0)%nat -> p < k -> j * tl <= o + p -> o + p < (j + 1) * tl ->
  (j + N.of_nat cnt - 1) * tl < o + k ->
  let rs := read_tracts tl cnt j T no_fault k o p in
  let D := concat (map snd rs) in
  let L := j + N.of_nat cnt - 1 in
  let gL := N.max (o + p) (L * tl) in
  let gend := N.min (o + k) ((L + 1) * tl) in
  let stored := L * tl + rlen (T L) in
  o + p + rlen D = gend /\
  (forall y, y < rlen D -> rget D y = tget tl T (o + p + y)) /\
  fold_results padAll (map fst rs) acc E_OK =
    (if padAll || (gend <=? stored) then (acc + (gend - (o + p)), E_OK)
     else (acc + (N.max gL stored - (o + p)), E_EOF)).
Proof.
  intros tl T k o padAll Htl. induction cnt as [|c IH]; intros j p acc Hc Hp Hj1 Hj2 He; [lia|].
  cbn [read_tracts]. change (no_fault j) with false. cbv iota.
  pose proof (next_range_spec tl k o p j Htl Hp Hj1 Hj2) as Hn.
  destruct (next_range tl k o p) as [toff tlen]. destruct Hn as (Htoff & Htlen & Hsum).
  pose proof (read_one_spec (T j) toff tlen) as Hr.
  destruct (read_one (T j) toff tlen) as [[[w r] e] piece]. destruct Hr as (Hw & Hrr & Hee & Hpl & Hpg).
  assert (Hpiece : forall y, y < tlen -> rget piece y = tget tl T (o + p + y)).
  { intros y Hy. rewrite Hpg by auto. unfold tget.
    destruct (div_mod_tract tl (o + p + y) j Htl) as [Hd Hm]; try lia.
    rewrite Hd, Hm. f_equal. lia. }
  destruct c as [|c'].
  - (* the last returned tract *)
    cbn [read_tracts map concat fst snd fold_results]. rewrite app_nil_r.
    replace (j + N.of_nat 1 - 1) with j by lia.
    replace ((j + 1) * tl) with (j * tl + tl) in * by lia.
    split; [lia|]. split; [intros y Hy; apply Hpiece; lia|].
    subst w r e.
    destruct (N.ltb_spec (rlen (T j)) (toff + tlen)).
    + change (E_EOF =? E_OK) with false. change (E_EOF =? E_EOF) with true. cbn match.
      destruct padAll; cbn [orb].
      * cbn [fold_results]. f_equal. lia.
      * destruct (N.leb_spec (N.min (o + k) (j * tl + tl)) (j * tl + rlen (T j))); [lia|]. f_equal. lia.
    + change (E_OK =? E_OK) with true. cbn match. cbn [fold_results].
      destruct (N.leb_spec (N.min (o + k) (j * tl + tl)) (j * tl + rlen (T j))); [|lia].
      rewrite orb_true_r. f_equal. lia.
  - (* an earlier tract: always counted in full *)
    assert (Hmore : (j + 1) * tl < o + k) by nia.
    assert (Hs : o + (p + tlen) = (j + 1) * tl) by lia.
    specialize (IH (j + 1) (p + tlen) (acc + tlen)).
    destruct IH as (IH1 & IH2 & IH3); try lia; try nia.
    replace (j + 1 + N.of_nat (S c') - 1) with (j + N.of_nat (S (S c')) - 1) in * by lia.
    set (L := j + N.of_nat (S (S c')) - 1) in *.
    assert (HL : (j + 1) * tl <= L * tl) by (apply N.mul_le_mono_r; lia).
    set (rest := read_tracts tl (S c') (j + 1) T no_fault k o (p + tlen)) in *.
    cbn [map concat fst snd]. rewrite rlen_app, Hpl.
    split; [lia|]. split.
    + intros y Hy. rewrite rget_app, Hpl. destruct (N.ltb_spec y tlen).
      * apply Hpiece; auto.
      * rewrite IH2 by lia. f_equal. lia.
    + assert (Hfold : fold_results padAll ((w, r, e) :: map fst rest) acc E_OK =
                      fold_results padAll (map fst rest) (acc + tlen) E_OK).
      { cbn [fold_results]. subst w r e.
        destruct (N.ltb_spec (rlen (T j)) (toff + tlen)).
        - change (E_EOF =? E_OK) with false. change (E_EOF =? E_EOF) with true. cbn match.
          unfold rest. cbn [read_tracts]. destruct (next_range tl k o (p + tlen)). cbn [map]. reflexivity.
        - change (E_OK =? E_OK) with true. cbn match. f_equal. lia. }
      rewrite Hfold, IH3.
      replace (N.max (o + (p + tlen)) (L * tl)) with (N.max (o + p) (L * tl)) by lia.
      destruct (padAll || (N.min (o + k) ((L + 1) * tl) <=? L * tl + rlen (T L))); f_equal; lia.
Qed.

Lemma read_tracts_specN : forall tl T k o padAll, 0 < tl ->
  forall c j L,
  0 < c -> L + 1 = j + c -> 0 < k -> j * tl <= o -> o < (j + 1) * tl -> L * tl < o + k ->
  let rs := read_tracts tl (N.to_nat c) j T no_fault k o 0 in
  let D := concat (map snd rs) in
  let gend := N.min (o + k) ((L + 1) * tl) in
  let stored := L * tl + rlen (T L) in
  o + rlen D = gend /\
  (forall y, y < rlen D -> rget D y = tget tl T (o + y)) /\
  fold_results padAll (map fst rs) 0 E_OK =
    (if padAll || (gend <=? stored) then (gend - o, E_OK)
     else (N.max (N.max o (L * tl)) stored - o, E_EOF)).
Proof.
  intros tl T k o padAll Htl c j L Hc HL Hk H1 H2 H3.
  pose proof (read_tracts_spec tl T k o padAll Htl (N.to_nat c) j 0 0) as R.
  cbv zeta in R. rewrite N2Nat.id, !N.add_0_r, !N.add_0_l in R.
  replace (j + c - 1) with L in R by lia.
  cbv zeta. apply R; auto; lia.
Qed.

Lemma blen_bounds : forall tl T n, 0 < tl -> wf tl T n ->
  blen tl T n <= n * tl /\ (0 < n -> (n - 1) * tl < blen tl T n) /\ (n = 0 -> blen tl T n = 0).
Proof.
  intros tl T n Htl (W1 & W2 & W3). unfold blen. destruct (N.eqb_spec n 0).
  - subst. lia.
  - specialize (W1 (n - 1)). specialize (W3 ltac:(lia)). nia.
Qed.

Lemma blen_mod : forall tl T n, 0 < tl -> wf tl T n -> 0 < n ->
  (blen tl T n mod tl =? 0) = (rlen (T (n - 1)) =? tl).
Proof.
  intros tl T n Htl (W1 & W2 & W3) Hn. unfold blen. destruct (N.eqb_spec n 0); [lia|].
  specialize (W1 (n - 1)). specialize (W3 Hn).
  destruct (N.eqb_spec (rlen (T (n - 1))) tl) as [E|E].
  - rewrite E. replace ((n - 1) * tl + tl) with (n * tl) by nia. rewrite N.mod_mul by lia. reflexivity.
  - destruct (div_mod_tract tl ((n - 1) * tl + rlen (T (n - 1))) (n - 1) Htl) as [_ Hm]; [lia | lia |].
    rewrite Hm. apply N.eqb_neq. lia.
Qed.

(* the F16 input class, on the stored blob: last tract exactly full, the read starts inside and runs past the end *)
Definition full_tail_in (tl len o k : N) : bool :=
  (0 <? len) && (len mod tl =? 0) && (o <? len) && (len <? o + k).

Lemma read_at_spec : forall v tl st off k r st',
  0 < tl -> wf tl (tracts st) (ntr st) -> cache_ok st -> (0 <= off)%Z -> 0 < k ->
  read_at v tl st off k = (r, st') ->
  let o := Z.to_N off in let len := blen tl (tracts st) (ntr st) in
  fst (fst r) = N.min k (len - o) /\
  rlen (snd r) = fst (fst r) /\
  (forall y, y < fst (fst r) -> rget (snd r) y = tget tl (tracts st) (o + y)) /\
  snd (fst r) = (if len <? o + k then (if negb (fix16 v) && full_tail_in tl len o k then E_OK else E_EOF) else E_OK) /\
  tracts st' = tracts st /\ ntr st' = ntr st /\ same_handle st st' /\ cache_ok st'.
Proof.
  intros v tl st off k r st' Htl Hwf Hc Hoff Hk H o len. unfold read_at, read_at_try in H.
  destruct (Z.ltb_spec off 0) as [Ho0|Ho0]; [lia|].
  destruct (N.eqb_spec k 0) as [Hk0|Hk0]; [lia|].
  fold o in H. set (start := o / tl) in *. set (e := (o + k + tl - 1) / tl) in *.
  set (n := ntr st) in *.
  destruct (tract_of tl o Htl) as (S1 & S2 & _). fold start in S1, S2.
  destruct (ceil_tract tl (o + k) Htl ltac:(lia)) as (E1 & E2 & E3).
  replace ((o + k + tl - 1) / tl) with e in * by (unfold e; f_equal; lia).
  assert (Hse : start < e) by nia.
  destruct (blen_bounds tl (tracts st) n Htl Hwf) as (B1 & B2 & B3). fold len in B1, B2, B3.
  destruct (get_tracts st start (e + 1)) as [[f c] st0] eqn:Hg.
  destruct (get_tracts_spec st start (e + 1) f c st0 Hc ltac:(lia) Hg) as (Gf & Gc & G1 & G2 & G3 & G4 & G5 & G6 & G7).
  fold n in Gf, Gc, G2.
  assert (Hsame : same_handle st st0) by (unfold same_handle; tauto).
  assert (HlenE : 0 < n -> len = (n - 1) * tl + rlen (tracts st (n - 1))).
  { intro. unfold len, blen. fold n. destruct (N.eqb_spec n 0); [lia|reflexivity]. }
  assert (HmodE : 0 < n -> (len mod tl =? 0) = (rlen (tracts st (n - 1)) =? tl)).
  { intro. apply blen_mod; auto. }
  destruct Hwf as (W1 & W2 & W3). specialize (W1 (n - 1)). clear W2 W3 Hg Hc.
  clearbody start e n len o.
  destruct (N.eqb_spec c 0) as [Hc0|Hc0].
  - (* nothing returned: the read starts beyond the last tract *)
    inversion H; subst r st'. clear H. cbn [fst snd rlen].
    assert (n <= start) by lia.
    assert (n * tl <= start * tl) by (apply N.mul_le_mono_r; lia).
    unfold full_tail_in. destruct (N.ltb_spec len (o + k)); [|lia].
    destruct (N.ltb_spec o len); [lia|].
    destruct (negb (fix16 v)), (0 <? len), (len mod tl =? 0); cbn [andb];
      (repeat split; auto; try lia; intros; lia).
  - assert (Hsn : start < n) by lia. assert (Hn0 : 0 < n) by lia. specialize (B2 Hn0).
    assert (Hf : f = start) by lia. rewrite Hf, G1 in H. clear Hf Gf.
    pose proof (HlenE Hn0) as Hlen. pose proof (HmodE Hn0) as Hmod. clear HlenE HmodE.
    revert H. destruct (N.eqb_spec c (e + 1 - start)) as [Hpad|Hpad]; intro H.
    + (* the look-ahead tract exists: every tract of the range is padded *)
      assert (He : e + 1 <= n) by lia.
      assert (Hel : (e - 1) * tl < o + k) by lia.
      destruct (read_tracts_specN tl (tracts st) k o true Htl (c - 1) start (e - 1)) as (R1 & R2 & R3); try lia.
      cbv zeta in R1, R2, R3.
      replace ((e - 1 + 1) * tl) with (e * tl) in R1, R3 by (f_equal; lia).
      rewrite R3 in H. cbn [orb] in H.
      assert (e * tl <= (n - 1) * tl) by (apply N.mul_le_mono_r; lia).
      replace (N.min (o + k) (e * tl)) with (o + k) in * by lia.
      replace (o + k - o) with k in H by lia.
      rewrite N.ltb_irrefl, andb_false_r in H.
      inversion H; subst r st'. clear H. cbn [fst snd].
      destruct (N.ltb_spec len (o + k)); [lia|].
      split; [lia|]. split; [rewrite rlen_rtake; lia|]. split.
      * intros y Hy. rewrite rget_rtake. destruct (N.ltb_spec y k); [|lia]. rewrite R2 by lia. reflexivity.
      * repeat split; auto.
    + (* the range includes the blob's last tract *)
      assert (He : n <= e) by lia. assert (Hcc : c = n - start) by lia. rewrite Hcc in H. clear Hcc Gc Hpad Hc0.
      assert (Hnl : (n - 1) * tl < o + k).
      { assert ((n - 1) * tl <= (e - 1) * tl) by (apply N.mul_le_mono_r; lia). lia. }
      destruct (read_tracts_specN tl (tracts st) k o false Htl (n - start) start (n - 1)) as (R1 & R2 & R3); try lia.
      cbv zeta in R1, R2, R3.
      replace ((n - 1 + 1) * tl) with (n * tl) in R1, R3 by (f_equal; lia).
      rewrite R3 in H. cbn [orb] in H. rewrite <- Hlen in *.
      assert (Hsn' : (start + 1) * tl <= n * tl) by (apply N.mul_le_mono_r; lia).
      unfold full_tail_in. rewrite Hmod.
      destruct (N.leb_spec (N.min (o + k) (n * tl)) len) as [Hge|Hlt].
      * (* no short tractserver read *)
        change (E_OK =? E_OK) with true in H. rewrite andb_true_r in H.
        inversion H; subst r st'. clear H. cbn [fst snd].
        split; [lia|]. split; [rewrite rlen_rtake; lia|]. split.
        { intros y Hy. rewrite rget_rtake.
          destruct (N.ltb_spec y (N.min (o + k) (n * tl) - o)); [|lia]. rewrite R2 by lia. reflexivity. }
        split; [|repeat split; auto].
        destruct (N.ltb_spec len (o + k)).
        { (* F16: the last tract is full and the range runs past it *)
          assert (rlen (tracts st (n - 1)) = tl) by lia.
          destruct (N.ltb_spec 0 len), (N.eqb_spec (rlen (tracts st (n - 1))) tl), (N.ltb_spec o len); try lia.
          cbn [andb]. rewrite andb_true_r.
          destruct (N.ltb_spec (N.min (o + k) (n * tl) - o) k); [|lia].
          destruct (fix16 v); reflexivity. }
        { destruct (N.ltb_spec (N.min (o + k) (n * tl) - o) k); [lia|]. rewrite andb_false_r. reflexivity. }
      * (* the last tract is short inside the range: EOF from the tractserver *)
        change (E_EOF =? E_OK) with false in H. rewrite andb_false_r, andb_false_l in H.
        inversion H; subst r st'. clear H. cbn [fst snd].
        split; [lia|]. split; [rewrite rlen_rtake; lia|]. split.
        { intros y Hy. rewrite rget_rtake.
          destruct (N.ltb_spec y (N.max (N.max o ((n - 1) * tl)) len - o)); [|lia]. rewrite R2 by lia. reflexivity. }
        split; [|repeat split; auto].
        destruct (N.ltb_spec len (o + k)); [|lia].
        assert (Hntl : (n - 1) * tl + tl = n * tl).
        { replace (n * tl) with ((n - 1 + 1) * tl) by (f_equal; lia). lia. }
        destruct (N.eqb_spec (rlen (tracts st (n - 1))) tl); [lia|].
        rewrite andb_false_r, andb_false_l, andb_false_r. reflexivity.
Qed.

