(* C15/ProofsRA.v — the read-ahead wrapper (bufio.Reader over a Blob) delivers the stream a plain Blob delivers. *)
From Coq Require Import List NArith ZArith Bool Lia ZifyN ZifyNat ZifyBool.
From BLB Require Import C15.Core C15.ProofsBytes C15.ProofsClient C15.ProofsStep.
Import ListNotations.
Open Scope N_scope.

(* the file part of the refinement relation (no statement about the cursor) *)
Definition Rf (tl : N) (st : cstate) (f : sfile) : Prop :=
  wf tl (tracts st) (ntr st) /\ cache_ok st /\ blen tl (tracts st) (ntr st) = slen f /\
  (forall x, tget tl (tracts st) x = sget f x) /\ (0 <= pos st)%Z.

Lemma Rf_R : forall tl st f, Rf tl st f -> R tl st (sf_set_pos f (pos st)).
Proof. intros tl st f (A & B & C & D & E). unfold R, sf_set_pos. cbn. tauto. Qed.

Lemma R_Rf : forall tl st f g, R tl st g -> slen g = slen f -> (forall x, sget g x = sget f x) -> Rf tl st f.
Proof.
  intros tl st f g (A & B & C & D & E & F) Hl Hg. unfold Rf.
  split; [exact A|]. split; [exact B|]. split; [congruence|]. split; [intro x; rewrite D; apply Hg | exact F].
Qed.

(* none of the client calls touches the bufio state *)
Lemma get_tracts_handle : forall st a b,
  rbuf (snd (get_tracts st a b)) = rbuf st /\ rerr (snd (get_tracts st a b)) = rerr st.
Proof. intros. unfold get_tracts. destruct (cache_on st && _); cbn; auto. Qed.

Lemma read_at_handle : forall v tl st off k,
  rbuf (snd (read_at v tl st off k)) = rbuf st /\ rerr (snd (read_at v tl st off k)) = rerr st.
Proof.
  intros. unfold read_at, read_at_try. destruct (off <? 0)%Z; [cbn; auto|]. destruct (k =? 0); [cbn; auto|].
  pose proof (get_tracts_handle st (Z.to_N off / tl) ((Z.to_N off + k + tl - 1) / tl + 1)) as H.
  destruct (get_tracts st (Z.to_N off / tl) ((Z.to_N off + k + tl - 1) / tl + 1)) as [[f c] st1]. cbn [snd] in H.
  destruct (c =? 0); [cbn; auto|].
  destruct (fold_results _ _ 0 E_OK) as [n e]. cbn. auto.
Qed.

(* Blob.Read on a state whose tracts hold the file f *)
Lemma blob_read_spec : forall v tl st f k n e d st', 0 < tl -> Rf tl st f ->
  blob_read v tl st k = ((n, e, d), st') ->
  let p := Z.to_N (pos st) in
  n = N.min k (slen f - p) /\ rlen d = n /\ (forall y, y < n -> rget d y = sget f (p + y)) /\
  pos st' = (pos st + Z.of_N n)%Z /\ Rf tl st' f /\ rbuf st' = rbuf st /\ rerr st' = rerr st /\
  (e = E_OK \/ e = E_EOF) /\ (e = E_EOF -> slen f <= p + n) /\ (n = 0 -> 0 < k -> e = E_EOF).
Proof.
  intros v tl st f k n e d st' Htl HR H p. unfold blob_read in H.
  pose proof (read_at_handle v tl st (pos st) k) as Hh.
  destruct (read_at v tl st (pos st) k) as [[[n0 e0] d0] st1] eqn:Hr. cbn [snd] in Hh. destruct Hh as [Hb He].
  assert (Hp0 : (0 <= pos st)%Z) by (destruct HR as (_ & _ & _ & _ & Q); exact Q).
  destruct (read_at_R v tl st (sf_set_pos f (pos st)) (pos st) k n0 e0 d0 st1 Htl (Rf_R tl st f HR) Hp0 Hr)
    as (Hn & Hee & Hdl & Hdg & Hpos & HR1).
  fold p in Hn, Hee, Hdg. unfold sf_read_n in Hn. unfold sf_read_err, full_tail in Hee.
  cbn [slen sget sf_set_pos] in Hn, Hee, Hdg.
  assert (Hcls : (e0 = E_OK \/ e0 = E_EOF) /\ (e0 = E_EOF -> slen f <= p + n0) /\ (n0 = 0 -> 0 < k -> e0 = E_EOF)).
  { rewrite Hee. clear Hee Hr H Hdg HR1 HR.
    destruct (N.eqb_spec k 0) as [K|K].
    - destruct (negb (fix16 v) && _); (split; [auto|]); (split; [intro Q; discriminate Q | intros; lia]).
    - destruct (N.ltb_spec (slen f) (p + k)) as [L|L].
      + destruct (N.ltb_spec p (slen f)) as [M|M].
        * destruct (negb (fix16 v) && _); (split; [auto|]); (split; [intros; lia | intros; lia]).
        * rewrite andb_false_r, andb_false_l, andb_false_r. split; [auto|]. split; [intros; lia | auto].
      + rewrite !andb_false_r. split; [auto|]. split; [intro Q; discriminate Q | intros; lia]. }
  destruct Hcls as (C1 & C2 & C3).
  assert (Hadv : (e0 =? E_OK) || (e0 =? E_EOF) = true) by (destruct C1 as [-> | ->]; reflexivity).
  rewrite Hadv in H. injection H as <- <- <- <-.
  assert (HR2 : Rf tl (set_pos st1 (pos st1 + Z.of_N n0)) f).
  { destruct HR1 as (A & B & C & D & _ & F). unfold Rf, set_pos, cache_ok in *. cbn in *. repeat split; auto; try apply A. lia. }
  split; [exact Hn|]. split; [exact Hdl|]. split; [exact Hdg|].
  split; [cbn [pos set_pos]; rewrite Hpos; reflexivity|]. split; [exact HR2|].
  split; [exact Hb|]. split; [exact He|]. split; [exact C1|]. split; [exact C2 | exact C3].
Qed.

(* ---------- the wrapper's invariant ---------- *)
(* the buffer holds file[lpos, pos); a sticky EOF means the Blob's cursor is at or past the end *)
Definition RAinv (tl : N) (st : cstate) (f : sfile) : Prop :=
  Rf tl st f /\
  rlen (rbuf st) <= Z.to_N (pos st) /\
  (forall y, y < rlen (rbuf st) -> rget (rbuf st) y = sget f (Z.to_N (pos st) - rlen (rbuf st) + y)) /\
  (0 < rlen (rbuf st) -> Z.to_N (pos st) <= slen f) /\
  (rerr st = E_OK \/ rerr st = E_EOF) /\ (rerr st = E_EOF -> slen f <= Z.to_N (pos st)).

Lemma lpos_N : forall tl st f, RAinv tl st f ->
  (0 <= lpos st)%Z /\ Z.to_N (lpos st) = Z.to_N (pos st) - rlen (rbuf st).
Proof. intros tl st f ((_ & _ & _ & _ & P) & B & _). unfold lpos. lia. Qed.

Lemma RAinv_fresh : forall tl st f, Rf tl st f -> rbuf st = [] -> rerr st = E_OK -> RAinv tl st f.
Proof.
  intros tl st f HR Hb He. unfold RAinv. rewrite Hb, He. cbn [rlen].
  repeat split; auto; try apply HR; try lia; try (intros; lia). intro Q; discriminate Q.
Qed.

(* what a Read(k) of the wrapper at logical position lp may return: a non-empty prefix of what a plain Blob.Read(k)
   with its cursor at lp returns (count sf_read_n, bytes sget f (lp + y)); EOF only once the delivered bytes reach the
   end, and always when nothing is delivered although bytes were requested *)
Definition ra_read_ok (f : sfile) (lp k n e : N) (d : runs) : Prop :=
  n <= sf_read_n f lp k /\ (0 < sf_read_n f lp k -> 0 < n) /\ rlen d = n /\
  (forall y, y < n -> rget d y = sget f (lp + y)) /\
  (e = E_OK \/ e = E_EOF) /\ (e = E_EOF -> slen f <= lp + n) /\ (n = 0 -> 0 < k -> e = E_EOF).

Lemma deliver_spec : forall tl st f k, 0 < k -> 0 < rlen (rbuf st) -> RAinv tl st f ->
  let n := N.min k (rlen (rbuf st)) in
  let st' := set_buf st (rdrop n (rbuf st)) (rerr st) in
  ra_read_ok f (Z.to_N (pos st) - rlen (rbuf st)) k n E_OK (rtake n (rbuf st)) /\
  RAinv tl st' f /\ lpos st' = (lpos st + Z.of_N n)%Z.
Proof.
  intros tl st f k Hk Hb (HR & I1 & I2 & I3 & I4 & I5) n st'.
  specialize (I3 Hb). unfold ra_read_ok, sf_read_n.
  set (bl := rlen (rbuf st)) in *. set (p := Z.to_N (pos st)) in *.
  assert (Hn : n <= bl /\ n <= k /\ 0 < n) by (unfold n; lia).
  split; [|split].
  - split; [lia|]. split; [lia|]. split; [rewrite rlen_rtake; fold bl; lia|]. split.
    + intros y Hy. rewrite rget_rtake. destruct (N.ltb_spec y n); [|lia]. apply I2. lia.
    + split; [auto|]. split; [intro Q; discriminate Q | intros; lia].
  - unfold RAinv, st'. cbn [rbuf rerr pos set_buf]. rewrite rlen_rdrop. fold bl p.
    split; [destruct HR as (A & B & C & D & E); unfold Rf, set_buf, cache_ok in *; cbn; tauto|].
    split; [lia|]. split.
    + intros y Hy. rewrite rget_rdrop, I2 by lia. f_equal. lia.
    + split; [intros; lia|]. split; assumption.
  - unfold lpos, st'. cbn [rbuf pos set_buf]. rewrite rlen_rdrop. fold bl. lia.
Qed.

Lemma ra_read_spec : forall v tl st f k n e d st', 0 < tl -> RAinv tl st f ->
  ra_read v tl st k = ((n, e, d), st') ->
  ra_read_ok f (Z.to_N (lpos st)) k n e d /\ RAinv tl st' f /\ lpos st' = (lpos st + Z.of_N n)%Z.
Proof.
  intros v tl st f k n e d st' Htl HI H.
  destruct (lpos_N tl st f HI) as [Hlp0 Hlp]. rewrite Hlp.
  assert (HI' := HI). destruct HI' as (HR & I1 & I2 & I3 & I4 & I5).
  assert (Hp0 : (0 <= pos st)%Z) by (destruct HR as (_ & _ & _ & _ & Q); exact Q).
  unfold ra_read in H.
  destruct (N.eqb_spec k 0) as [K|K].
  - (* empty read *)
    subst k. destruct (N.ltb_spec 0 (rlen (rbuf st))) as [B|B].
    + injection H as <- <- <- <-. split; [|split; [exact HI | lia]].
      unfold ra_read_ok, sf_read_n. cbn [rlen]. repeat split; auto; try lia; try (intros; lia). intro Q; discriminate Q.
    + injection H as <- <- <- <-. split; [|split].
      * unfold ra_read_ok, sf_read_n. cbn [rlen]. repeat split; auto; try lia; try (intros; lia);
          try (intro Q; specialize (I5 Q); lia).
      * unfold RAinv, set_buf. cbn [rbuf rerr pos].
        split; [destruct HR as (A & B' & C & D & E); unfold Rf, cache_ok in *; cbn; tauto|].
        repeat split; auto. intro Q; discriminate Q.
      * unfold lpos, set_buf. cbn. lia.
  - destruct (N.eqb_spec (rlen (rbuf st)) 0) as [B|B].
    + (* empty buffer *)
      rewrite B in *. rewrite N.sub_0_r.
      destruct (N.eqb_spec (rerr st) E_OK) as [S|S]; cbn [negb] in H.
      * destruct (N.leb_spec tl k) as [Big|Small].
        -- (* large read: straight into the caller's buffer *)
           destruct (blob_read v tl st k) as [[[n0 e0] d0] st1] eqn:Hb. injection H as <- <- <- <-.
           destruct (blob_read_spec v tl st f k n0 e0 d0 st1 Htl HR Hb) as (Q1 & Q2 & Q3 & Q4 & Q5 & Q6 & Q7 & Q8 & Q9 & Q10).
           split; [|split].
           ++ unfold ra_read_ok, sf_read_n. repeat split; auto; try lia.
           ++ apply RAinv_fresh; auto.
           ++ unfold lpos, set_buf. cbn [pos rbuf rlen]. rewrite Q4, B. lia.
        -- (* fill the buffer with one Blob.Read of TractLength bytes, then deliver from it *)
           destruct (blob_read v tl st tl) as [[[n0 e0] d0] st1] eqn:Hb.
           destruct (blob_read_spec v tl st f tl n0 e0 d0 st1 Htl HR Hb) as (Q1 & Q2 & Q3 & Q4 & Q5 & Q6 & Q7 & Q8 & Q9 & Q10).
           destruct (N.eqb_spec n0 0) as [Z0|Z0].
           ++ injection H as <- <- <- <-. split; [|split].
              ** unfold ra_read_ok, sf_read_n. cbn [rlen]. repeat split; auto; try lia; try (intros; lia);
                   try (intro; rewrite Z0 in Q9; apply Q9; apply Q10; auto).
              ** apply RAinv_fresh; auto.
              ** unfold lpos, set_buf. cbn [pos rbuf rlen]. rewrite Q4, B. lia.
           ++ assert (Q1' : n0 <= slen f - Z.to_N (pos st)) by lia. clear Q1. subst n0.
              assert (HI1 : RAinv tl (set_buf st1 d0 e0) f).
              { unfold RAinv. split; [exact Q5|]. cbn [rbuf rerr pos set_buf]. rewrite Q4.
                replace (Z.to_N (pos st + Z.of_N (rlen d0))) with (Z.to_N (pos st) + rlen d0) by lia.
                split; [lia|]. split.
                - intros y Hy. rewrite (Q3 y Hy). f_equal. lia.
                - split; [intros; lia|]. split; [exact Q8|]. exact Q9. }
              pose proof (deliver_spec tl (set_buf st1 d0 e0) f k ltac:(lia) ltac:(cbn [rbuf set_buf]; lia) HI1) as D.
              cbv zeta in D. cbn [rbuf rerr pos set_buf] in D, H. injection H as <- <- <- <-.
              destruct D as (D1 & D2 & D3). rewrite Q4 in D1.
              replace (Z.to_N (pos st + Z.of_N (rlen d0)) - rlen d0) with (Z.to_N (pos st)) in D1 by lia.
              split; [exact D1|]. split; [exact D2|].
              rewrite D3. unfold lpos, set_buf. cbn [pos rbuf]. rewrite Q4, B. lia.
      * (* sticky error handed out *)
        injection H as <- <- <- <-.
        assert (SE : rerr st = E_EOF) by (destruct I4; [contradiction|assumption]).
        specialize (I5 SE). split; [|split].
        -- unfold ra_read_ok, sf_read_n. cbn [rlen]. repeat split; auto; try lia; try (intros; lia).
        -- apply RAinv_fresh; auto.
        -- unfold lpos, set_buf. cbn [pos rbuf rlen]. rewrite B. lia.
    + (* bytes still buffered *)
      pose proof (deliver_spec tl st f k ltac:(lia) ltac:(lia) HI) as D. cbv zeta in D.
      injection H as <- <- <- <-. exact D.
Qed.

(* ---------- Seek ---------- *)
Definition seek_target (w off cur : Z) (len : N) : option Z :=
  if (w =? 0)%Z then Some off
  else if (w =? 1)%Z then Some (cur + off)%Z
  else if (w =? 2)%Z then Some (Z.of_N len + off)%Z
  else None.

Definition seek_outcome (t : option Z) (cur r : Z) (e : N) (cur' : Z) : Prop :=
  match t with
  | Some t => if (t <? 0)%Z then r = 0%Z /\ e = E_OTHER /\ cur' = cur else r = t /\ e = E_OK /\ cur' = t
  | None => r = 0%Z /\ e = E_OTHER /\ cur' = cur
  end.

Lemma Rf_handle : forall tl st st' f, Rf tl st f -> tracts st' = tracts st -> ntr st' = ntr st ->
  cache st' = cache st -> (0 <= pos st')%Z -> Rf tl st' f.
Proof.
  intros tl st st' f (A & B & C & D & E) H1 H2 H3 H4. unfold Rf, cache_ok in *. rewrite H1, H2, H3. tauto.
Qed.

Lemma blob_seek_spec : forall tl st f off w r e st', Rf tl st f ->
  blob_seek tl st off w = ((r, e), st') ->
  seek_outcome (seek_target w off (pos st) (slen f)) (pos st) r e (pos st') /\
  Rf tl st' f /\ rbuf st' = rbuf st /\ rerr st' = rerr st.
Proof.
  intros tl st f off w r e st' HR H. unfold blob_seek in H. unfold seek_target, seek_outcome.
  assert (Hp0 : (0 <= pos st)%Z) by (destruct HR as (_ & _ & _ & _ & Q); exact Q).
  assert (Hfin : forall st0 t r e st', Rf tl st0 f ->
            (if (t <? 0)%Z then ((0%Z, E_OTHER), st0) else ((t, E_OK), set_pos st0 t)) = ((r, e), st') ->
            (if (t <? 0)%Z then r = 0%Z /\ e = E_OTHER /\ pos st' = pos st0 else r = t /\ e = E_OK /\ pos st' = t) /\
            Rf tl st' f /\ rbuf st' = rbuf st0 /\ rerr st' = rerr st0).
  { intros st0 t r0 e0 st0' HR0 H0. destruct (Z.ltb_spec t 0); injection H0 as <- <- <-.
    - split; [auto|]. split; [exact HR0|]. split; reflexivity.
    - split; [auto|]. split; [|split; reflexivity].
      apply (Rf_handle tl st0); auto; cbn [pos set_pos]; lia. }
  destruct (w =? 0)%Z; [apply (Hfin st); auto|].
  destruct (w =? 1)%Z; [apply (Hfin st); auto|].
  destruct (w =? 2)%Z.
  - destruct (byte_length tl st) as [l st1] eqn:Hb.
    destruct (byte_length_spec tl st l st1 ltac:(destruct HR as (_ & C & _); exact C) Hb) as (L1 & L2 & L3 & (S1 & S2 & S3 & S4) & L5).
    assert (Hl : l = slen f) by (destruct HR as (_ & _ & C & _); congruence).
    assert (HR1 : Rf tl st1 f).
    { destruct HR as (A & B & C & D & E). unfold Rf. rewrite L2, L3, S1. tauto. }
    subst l. destruct (Hfin st1 _ _ _ _ HR1 H) as (F1 & F2 & F3 & F4).
    rewrite S1 in F1. rewrite Hl in F1. split; [exact F1|]. split; [exact F2|]. split; congruence.
  - injection H as <- <- <-. split; [auto|]. split; [exact HR|]. split; reflexivity.
Qed.

Lemma sstep_seek : forall tl h off w s g, sstep tl h (OSeek off w) = (s, g) ->
  seek_outcome (seek_target w off (spos h) (slen h)) (spos h) (s_n s) (s_err s) (spos g) /\
  slen g = slen h /\ sget g = sget h.
Proof.
  intros tl h off w s g H. cbn [sstep] in H. unfold seek_target, seek_outcome.
  assert (Hsk : forall t s g,
     (if (t <? 0)%Z then (mksres 0%Z E_OTHER 0 (fun _ => 0) (spos h) false, h)
      else (mksres t E_OK 0 (fun _ => 0) (spos (sf_set_pos h t)) false, sf_set_pos h t)) = (s, g) ->
     (if (t <? 0)%Z then s_n s = 0%Z /\ s_err s = E_OTHER /\ spos g = spos h
      else s_n s = t /\ s_err s = E_OK /\ spos g = t) /\ slen g = slen h /\ sget g = sget h).
  { intros t s0 g0 H0. destruct (t <? 0)%Z; injection H0 as <- <-; cbn; auto. }
  destruct (w =? 0)%Z; [apply Hsk; exact H|].
  destruct (w =? 1)%Z; [apply Hsk; exact H|].
  destruct (w =? 2)%Z; [apply Hsk; exact H|].
  injection H as <- <-. cbn. auto.
Qed.

Lemma RAinv_handle : forall tl st st' f, RAinv tl st f -> Rf tl st' f ->
  pos st' = pos st -> rbuf st' = rbuf st -> rerr st' = rerr st -> RAinv tl st' f.
Proof.
  intros tl st st' f (HR & I) HR' H1 H2 H3. unfold RAinv. rewrite H1, H2, H3. split; assumption.
Qed.

(* the wrapper's Seek against a plain Blob whose cursor is the wrapper's logical position *)
Lemma ra_seek_spec : forall v tl st f off w r e st' s g, fix17 v = true -> RAinv tl st f ->
  ra_seek v tl st off w = ((r, e), st') ->
  sstep tl (sf_set_pos f (lpos st)) (OSeek off w) = (s, g) ->
  r = s_n s /\ e = s_err s /\ RAinv tl st' f /\
  (if fix17b v || (e =? E_OK) then lpos st' = spos g else (lpos st <= lpos st')%Z).
Proof.
  intros v tl st f off w r e st' s g Hv HI H Hs.
  destruct (sstep_seek tl _ off w s g Hs) as (So & _ & _). cbn [spos slen sf_set_pos] in So.
  assert (HI' := HI). destruct HI' as (HR & I1 & I2 & I3 & I4 & I5).
  assert (Hp0 : (0 <= pos st)%Z) by (destruct HR as (_ & _ & _ & _ & Q); exact Q).
  unfold ra_seek in H. rewrite Hv in H. cbn [andb] in H.
  set (off' := if (w =? 1)%Z then (off - Z.of_N (rlen (rbuf st)))%Z else off) in *.
  (* the wrapper aims at the same target as the plain Blob *)
  assert (Ht : forall st0, pos st0 = pos st ->
             seek_target w off' (pos st0) (slen f) = seek_target w off (lpos st) (slen f)).
  { intros st0 E0. unfold seek_target, off', lpos. rewrite E0.
    destruct (w =? 0)%Z eqn:W0; destruct (w =? 1)%Z eqn:W1; auto.
    - apply Z.eqb_eq in W0, W1. lia.
    - f_equal. lia. }
  destruct (fix17b v) eqn:Hb.
  - (* repaired: Blob.Seek first, Reset only on success *)
    destruct (blob_seek tl st off' w) as [[r0 e0] st1] eqn:Hbs. injection H as <- <- <-.
    destruct (blob_seek_spec tl st f off' w r0 e0 st1 HR Hbs) as (Bo & B1 & B2 & B3).
    rewrite (Ht st eq_refl) in Bo. cbn [orb].
    unfold seek_outcome in *. destruct (seek_target w off (lpos st) (slen f)) as [t|].
    + destruct (t <? 0)%Z.
      * destruct Bo as (-> & -> & Bp). destruct So as (-> & -> & Sp).
        change (E_OTHER =? E_OK) with false. cbv iota.
        split; [reflexivity|]. split; [reflexivity|]. split.
        -- apply (RAinv_handle tl st); auto.
        -- unfold lpos. rewrite Bp, B2. symmetry. exact Sp.
      * destruct Bo as (-> & -> & Bp). destruct So as (-> & -> & Sp).
        change (E_OK =? E_OK) with true. cbv iota.
        split; [reflexivity|]. split; [reflexivity|]. split.
        -- apply RAinv_fresh; auto.
        -- unfold lpos, set_buf. cbn [pos rbuf rlen]. lia.
    + destruct Bo as (-> & -> & Bp). destruct So as (-> & -> & Sp).
      change (E_OTHER =? E_OK) with false. cbv iota.
      split; [reflexivity|]. split; [reflexivity|]. split.
      * apply (RAinv_handle tl st); auto.
      * unfold lpos. rewrite Bp, B2. symmetry. exact Sp.
  - (* as found: Reset first *)
    assert (HRb : Rf tl (set_buf st [] E_OK) f) by exact HR.
    destruct (blob_seek_spec tl (set_buf st [] E_OK) f off' w r e st' HRb H) as (Bo & B1 & B2 & B3).
    rewrite (Ht (set_buf st [] E_OK) eq_refl) in Bo. cbn [pos rbuf rerr set_buf] in Bo, B2, B3. cbn [orb].
    assert (HI1 : RAinv tl st' f) by (apply RAinv_fresh; auto).
    unfold seek_outcome in *. destruct (seek_target w off (lpos st) (slen f)) as [t|].
    + destruct (t <? 0)%Z.
      * destruct Bo as (-> & -> & Bp). destruct So as (-> & -> & Sp).
        change (E_OTHER =? E_OK) with false. cbv iota.
        split; [reflexivity|]. split; [reflexivity|]. split; [exact HI1|].
        unfold lpos. rewrite Bp, B2. cbn [rlen]. lia.
      * destruct Bo as (-> & -> & Bp). destruct So as (-> & -> & Sp).
        change (E_OK =? E_OK) with true. cbv iota.
        split; [reflexivity|]. split; [reflexivity|]. split; [exact HI1|].
        unfold lpos. rewrite Bp, B2. cbn [rlen]. lia.
    + destruct Bo as (-> & -> & Bp). destruct So as (-> & -> & Sp).
      change (E_OTHER =? E_OK) with false. cbv iota.
      split; [reflexivity|]. split; [reflexivity|]. split; [exact HI1|].
      unfold lpos. rewrite Bp, B2. cbn [rlen]. lia.
Qed.

(* ---------- sequences of wrapper operations ---------- *)
Definition ra_op (o : op) : bool :=
  match o with ORaRead _ | ORaSeek _ _ | ORaLen => true | _ => false end.

(* [stream_ok tl strict f lp ops rs]: the results rs of the wrapper operations ops are those of a plain Blob on the
   file f whose cursor starts at lp, up to chunking: each Read delivers a non-empty prefix of the plain Read at the
   current cursor and advances the cursor by what it delivered; each Seek returns what the plain Seek returns and
   moves the cursor where the plain Seek moves it. With strict = false a FAILED Seek may move the cursor forward
   (the code before F17b discards the buffered bytes). *)
Inductive stream_ok (tl : N) (strict : bool) (f : sfile) : Z -> list op -> list res -> Prop :=
| SNil : forall lp, stream_ok tl strict f lp [] []
| SRead : forall lp k c ops rs,
    (0 <= r_n c)%Z ->
    ra_read_ok f (Z.to_N lp) k (Z.to_N (r_n c)) (r_err c) (r_data c) ->
    stream_ok tl strict f (lp + r_n c) ops rs ->
    stream_ok tl strict f lp (ORaRead k :: ops) (c :: rs)
| SSeek : forall lp lp' off w c s g ops rs,
    sstep tl (sf_set_pos f lp) (OSeek off w) = (s, g) ->
    r_n c = s_n s -> r_err c = s_err s ->
    (if strict || (r_err c =? E_OK) then lp' = spos g else (lp <= lp')%Z) ->
    stream_ok tl strict f lp' ops rs ->
    stream_ok tl strict f lp (ORaSeek off w :: ops) (c :: rs)
| SLen : forall lp c ops rs,
    r_n c = Z.of_N (slen f) -> r_err c = E_OK ->
    stream_ok tl strict f lp ops rs ->
    stream_ok tl strict f lp (ORaLen :: ops) (c :: rs).

Lemma readahead_stream_lemma : forall v tl ops st f, fix17 v = true -> 0 < tl -> RAinv tl st f ->
  forallb ra_op ops = true ->
  stream_ok tl (fix17b v) f (lpos st) ops (run v tl st ops).
Proof.
  intros v tl. induction ops as [|o r IH]; intros st f Hv Htl HI Hops; cbn [run]; [constructor|].
  cbn [forallb] in Hops. apply andb_true_iff in Hops. destruct Hops as [Ho Hr].
  destruct o; cbn [ra_op] in Ho; try discriminate; cbn [step].
  - (* Read *)
    destruct (ra_read v tl st k) as [[[n e] d] st1] eqn:H. unfold mk.
    destruct (ra_read_spec v tl st f k n e d st1 Htl HI H) as (Hok & HI1 & Hl).
    apply SRead; cbn [r_n r_err r_data].
    + lia.
    + rewrite N2Z.id. exact Hok.
    + rewrite <- Hl. apply IH; auto.
  - (* Seek *)
    destruct (ra_seek v tl st off whence) as [[r0 e] st1] eqn:H. unfold mk.
    destruct (sstep tl (sf_set_pos f (lpos st)) (OSeek off whence)) as [s g] eqn:Hs.
    destruct (ra_seek_spec v tl st f off whence r0 e st1 s g Hv HI H Hs) as (H1 & H2 & HI1 & H3).
    apply (SSeek tl (fix17b v) f (lpos st) (lpos st1) off whence _ s g); cbn [r_n r_err]; auto.
  - (* ByteLength *)
    destruct (byte_length tl st) as [l st1] eqn:H. unfold mk.
    assert (HI' := HI). destruct HI' as (HR & _).
    destruct (byte_length_spec tl st l st1 ltac:(destruct HR as (_ & C & _); exact C) H) as (L1 & L2 & L3 & (S1 & S2 & S3 & S4) & L5).
    assert (HR1 : Rf tl st1 f).
    { destruct HR as (A & B & C & D & E). unfold Rf. rewrite L2, L3, S1. tauto. }
    assert (HI1 : RAinv tl st1 f) by (apply (RAinv_handle tl st); auto).
    assert (Hlp : lpos st1 = lpos st) by (unfold lpos; rewrite S1, S2; reflexivity).
    apply SLen; cbn [r_n r_err].
    + destruct HR as (_ & _ & C & _). congruence.
    + reflexivity.
    + rewrite <- Hlp. apply IH; auto.
Qed.

(* between seeks: the concatenation of what consecutive Reads deliver is the file content from the cursor on,
   i.e. exactly the bytes direct reads deliver *)
Definition delivered (rs : list res) : runs := concat (map r_data rs).
Definition delivered_len (rs : list res) : N := fold_right (fun c a => Z.to_N (r_n c) + a) 0 rs.

Lemma stream_reads_concat : forall tl b f ks lp rs, (0 <= lp)%Z ->
  stream_ok tl b f lp (map ORaRead ks) rs ->
  rlen (delivered rs) = delivered_len rs /\
  (forall y, y < delivered_len rs -> rget (delivered rs) y = sget f (Z.to_N lp + y)) /\
  Z.to_N lp + delivered_len rs <= N.max (Z.to_N lp) (slen f).
Proof.
  intros tl b f. induction ks as [|k ks IH]; intros lp rs Hlp H; cbn [map] in H.
  - inversion H; subst. unfold delivered, delivered_len. cbn. split; [reflexivity|]. split; [intros; lia|lia].
  - inversion H as [| lp0 k0 c ops rs0 Hn Hok Hrest | |]; subst.
    destruct Hok as (O1 & O2 & O3 & O4 & O5 & O6 & O7).
    destruct (IH (lp + r_n c)%Z rs0 ltac:(lia) Hrest) as (I1 & I2 & I3).
    unfold delivered, delivered_len in *. cbn [map concat fold_right]. rewrite rlen_app, O3, I1.
    unfold sf_read_n in O1.
    split; [reflexivity|]. split.
    + intros y Hy. rewrite rget_app, O3. destruct (N.ltb_spec y (Z.to_N (r_n c))).
      * apply O4; auto.
      * rewrite I2 by lia. f_equal. lia.
    + replace (Z.to_N (lp + r_n c)) with (Z.to_N lp + Z.to_N (r_n c)) in I3 by lia. lia.
Qed.

(* ---------- the invariant holds wherever a wrapper is created or re-created ---------- *)
Fixpoint sexec (tl : N) (f : sfile) (ops : list op) : sfile :=
  match ops with [] => f | o :: r => sexec tl (snd (sstep tl f o)) r end.

Lemma exec_R : forall v tl ops st f, 0 < tl -> R tl st f -> forallb direct_op ops = true ->
  R tl (exec v tl st ops) (sexec tl f ops).
Proof.
  intros v tl. induction ops as [|o r IH]; intros st f Htl HR Hd; cbn [exec sexec]; auto.
  cbn [forallb] in Hd. apply andb_true_iff in Hd. destruct Hd as [H1 H2].
  destruct (step v tl st o) as [c st1] eqn:Hc. destruct (sstep tl f o) as [s f1] eqn:Hs. cbn [snd].
  destruct (step_refines v tl st f o c st1 s f1 Htl HR H1 Hc Hs) as [_ HR1]. apply IH; auto.
Qed.

Lemma RAinv_after_new : forall v tl st f, R tl st f -> RAinv tl (snd (step v tl st ORaNew)) f.
Proof.
  intros v tl st f HR. cbn [step]. unfold mk. cbn [snd]. apply RAinv_fresh; try reflexivity.
  apply (R_Rf tl (set_buf st [] E_OK) f f); auto; try (apply R_set_buf; exact HR).
Qed.

Lemma exec_app : forall v tl a b st, exec v tl st (a ++ b) = exec v tl (exec v tl st a) b.
Proof. intros v tl. induction a as [|o a IH]; intros; cbn [exec app]; auto. Qed.

Lemma RAinv_reachable_lemma : forall v tl c ops, 0 < tl -> forallb direct_op ops = true ->
  RAinv tl (exec v tl (init_state c) (ops ++ [ORaNew])) (sexec tl sf_empty ops).
Proof.
  intros v tl c ops Htl Hd. rewrite exec_app. cbn [exec]. apply RAinv_after_new.
  apply exec_R; auto. apply R_init.
Qed.

Lemma readahead_reads_lemma : forall v tl st f ks, fix17 v = true -> 0 < tl -> RAinv tl st f ->
  let rs := run v tl st (map ORaRead ks) in
  rlen (delivered rs) = delivered_len rs /\
  (forall y, y < delivered_len rs -> rget (delivered rs) y = sget f (Z.to_N (lpos st) + y)) /\
  Z.to_N (lpos st) + delivered_len rs <= N.max (Z.to_N (lpos st)) (slen f).
Proof.
  intros v tl st f ks Hv Htl HI rs.
  apply (stream_reads_concat tl (fix17b v) f ks (lpos st) rs).
  - apply (lpos_N tl st f HI).
  - apply readahead_stream_lemma; auto. clear. induction ks; cbn; auto.
Qed.
