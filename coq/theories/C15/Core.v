(* C15/Core.v — executable model of the BLB client's blob I/O (definitions only).
   Transcribes, branch by branch and without faults,
     client/blb/client.go   getNextRange, writeAt, writeExistingTracts, createEmptyTracts, createWriteTracts,
                            readAt (the look-ahead tract, padAll, the result fold), readOneTractReplicated's
                            zero padding, byteLength, getTracts (with the tract cache)
     client/blb/blob.go     Blob.Read/ReadAt/Write/WriteAt/Seek/ByteLength, ReadaheadBlob (bufio.Reader of
                            TractLength bytes: Read, Reset on Seek)
     client/blb/tract_cache.go  put/get as a set of cached tract indices
     client/blb/mem_tractserver_talker.go  Write (grow with zeros, overwrite), Read (short read => EOF), StatTract
     client/blb/mem_curator_talker.go      GetTracts (clipping), ExtendBlob/AckExtendBlob (append tracts)
   All byte strings are run-length encoded (tracts are 8 MiB): a [runs] is a list of (length, value).
   [tl] is the tract length (instantiated with the regenerated constant in [run_case]); theorems hold for every tl > 0.
   A [variant] selects the code as found (all flags false) or with the repairs F16 / F17 (committed) and
   F17b (a failed ReadaheadBlob.Seek must not discard the buffer; proposed). *)
From Coq Require Import List NArith ZArith Bool.
Import ListNotations.
Open Scope N_scope.

(* ---------- run-length encoded byte strings ---------- *)
Definition runs := list (N * N).

Fixpoint rlen (r : runs) : N :=
  match r with [] => 0 | (n, _) :: t => n + rlen t end.

(* byte i of r; 0 beyond the end *)
Fixpoint rget (r : runs) (i : N) : N :=
  match r with
  | [] => 0
  | (n, v) :: t => if i <? n then v else rget t (i - n)
  end.

Fixpoint rtake (k : N) (r : runs) : runs :=
  match r with
  | [] => []
  | (n, v) :: t => if k <=? n then [(k, v)] else (n, v) :: rtake (k - n) t
  end.

Fixpoint rdrop (k : N) (r : runs) : runs :=
  match r with
  | [] => []
  | (n, v) :: t => if k <? n then (n - k, v) :: t else rdrop (k - n) t
  end.

Definition rzeros (n : N) : runs := [(n, 0)].

(* canonical form = what vw.RLE produces: maximal runs, no empty run *)
Definition rcons (x : N * N) (acc : runs) : runs :=
  let '(n, v) := x in
  if n =? 0 then acc
  else match acc with
       | (m, w) :: t => if v =? w then (n + m, w) :: t else (n, v) :: acc
       | [] => [(n, v)]
       end.
Definition canon (r : runs) : runs := fold_right rcons [] r.

(* ---------- error classes (what the caller can distinguish) ---------- *)
Definition E_OK : N := 0.       (* nil *)
Definition E_EOF : N := 1.      (* io.EOF *)
Definition E_INVAL : N := 2.    (* core.ErrInvalidArgument *)
Definition E_OTHER : N := 3.    (* any other error (Seek's fmt.Errorf) *)
Definition E_FAULT : N := 4.    (* core.ErrRPC: the injected tractserver read fault, every replica failed *)

Record variant := { fix16 : bool; fix17 : bool; fix17b : bool }.
Definition as_found : variant := {| fix16 := false; fix17 := false; fix17b := false |}.
(* the tree with the two committed fixes *)
Definition head_tree : variant := {| fix16 := true; fix17 := true; fix17b := false |}.
Definition repaired : variant := {| fix16 := true; fix17 := true; fix17b := true |}.

(* ---------- mem_tractserver_talker.go ---------- *)
(* Write: grow with zeros if needed, then overwrite [off, off+len b) *)
Definition ts_write (t : runs) (off : N) (b : runs) : runs :=
  let need := off + rlen b in
  let t' := if rlen t <? need then t ++ rzeros (need - rlen t) else t in
  rtake off t' ++ b ++ rdrop need t'.

(* Read/ReadInto: (bytes read, error, data) *)
Definition ts_read (t : runs) (off len : N) : N * N * runs :=
  if rlen t <? off then (0, E_EOF, [])
  else if rlen t <? off + len then (rlen t - off, E_EOF, rdrop off t)
  else (len, E_OK, rtake len (rdrop off t)).

(* client.go readOneTractReplicated: tractResult{wanted, read, err} and thisB after zero padding *)
Definition read_one (t : runs) (off len : N) : (N * N * N) * runs :=
  let '(r, e, d) := ts_read t off len in
  ((len, r, e), d ++ rzeros (len - r)).

(* ---------- client.go getNextRange: (thisOffset, len thisB); the caller advances position by the length ---------- *)
Definition next_range (tl blen offset pos : N) : N * N :=
  let thisOff := (offset + pos) mod tl in
  let l := tl - thisOff in
  (thisOff, if blen - pos <? l then blen - pos else l).

(* ---------- client state ---------- *)
Record cstate := mkst {
  tracts : N -> runs;     (* mem tractserver: data[TractID] of tract 0,1,... (nil where nothing was created) *)
  ntr : N;                (* mem curator: len(bi.tracts) = NumTracts *)
  cache_on : bool;        (* !cli.cacheDisabled *)
  cache : list N;         (* tract indices present in the tract cache for this blob *)
  pos : Z;                (* Blob.offset *)
  rbuf : runs;            (* bufio.Reader: buf[r:w] *)
  rerr : N;               (* bufio.Reader: sticky err *)
  rpcs : N                (* number of curator GetTracts RPCs issued so far (observable through a counting talker) *)
}.

Definition init_state (c : bool) : cstate :=
  mkst (fun _ => []) 0 c [] 0%Z [] E_OK 0.

Definition set_tracts (st : cstate) (ts : N -> runs) (n : N) : cstate :=
  mkst ts n (cache_on st) (cache st) (pos st) (rbuf st) (rerr st) (rpcs st).
Definition set_pos (st : cstate) (p : Z) : cstate :=
  mkst (tracts st) (ntr st) (cache_on st) (cache st) p (rbuf st) (rerr st) (rpcs st).
Definition set_buf (st : cstate) (b : runs) (e : N) : cstate :=
  mkst (tracts st) (ntr st) (cache_on st) (cache st) (pos st) b e (rpcs st).
Definition set_cache_on (st : cstate) (c : bool) : cstate :=
  mkst (tracts st) (ntr st) c (cache st) (pos st) (rbuf st) (rerr st) (rpcs st).

Definition upd (T : N -> runs) (j : N) (t : runs) : N -> runs := fun q => if q =? j then t else T q.

Definition memN (x : N) (l : list N) : bool := existsb (N.eqb x) l.
Definition range (start cnt : N) : list N :=
  map (fun i => start + N.of_nat i) (seq 0 (N.to_nat cnt)).

(* client.go getTracts + tract_cache.go get/put + mem_curator_talker.go GetTracts:
   returns (index of the first tract returned, how many) *)
Definition get_tracts (st : cstate) (start end_ : N) : (N * N) * cstate :=
  if cache_on st && forallb (fun i => memN i (cache st)) (range start (end_ - start))
  then ((start, end_ - start), st)
  else
    let n := ntr st in
    let s := N.min start n in
    let e := N.min end_ n in
    let c' := if cache_on st then cache st ++ range s (e - s) else cache st in
    ((s, e - s), mkst (tracts st) (ntr st) (cache_on st) c' (pos st) (rbuf st) (rerr st) (rpcs st + 1)).

(* ---------- readAt ---------- *)
(* one goroutine per returned tract j, j+1, ...: getNextRange, then readOneTract.
   [flt j] = every replica of tract j fails this attempt (read-fault oracle): readOneTractReplicated then leaves
   tractResult{0, 0, err} and does not touch thisB (the model puts zeros there; those bytes are never delivered). *)
Definition no_fault : N -> bool := fun _ => false.

Fixpoint read_tracts (tl : N) (cnt : nat) (j : N) (T : N -> runs) (flt : N -> bool) (k offset pos : N)
  : list ((N * N * N) * runs) :=
  match cnt with
  | O => []
  | S c =>
      let '(toff, tlen) := next_range tl k offset pos in
      (if flt j then ((0, 0, E_FAULT), rzeros tlen) else read_one (T j) toff tlen)
        :: read_tracts tl c (j + 1) T flt k offset (pos + tlen)
  end.

(* the loop "Figure out how much succeeded" *)
Fixpoint fold_results (padAll : bool) (rs : list (N * N * N)) (read err : N) : N * N :=
  match rs with
  | [] => (read, err)
  | (wanted, r, e) :: rest =>
      if e =? E_OK then fold_results padAll rest (read + r) E_OK
      else if e =? E_EOF then
        match rest with
        | [] => if padAll then fold_results padAll rest (read + wanted) E_OK else (read + r, E_EOF)
        | _ => fold_results padAll rest (read + wanted) E_OK
        end
      else (read, e)
  end.

(* one execution of readAt's body *)
Definition read_at_try (v : variant) (tl : N) (flt : N -> bool) (st : cstate) (off : Z) (k : N) : (N * N * runs) * cstate :=
  if (off <? 0)%Z then ((0, E_INVAL, []), st)
  else if k =? 0 then ((0, E_OK, []), st)
  else
    let o := Z.to_N off in
    let start := o / tl in
    let end_ := (o + k + tl - 1) / tl in
    let '((first, cnt), st1) := get_tracts st start (end_ + 1) in
    if cnt =? 0 then ((0, E_EOF, []), st1)
    else
      let padAll := cnt =? end_ + 1 - start in
      let cnt' := if padAll then cnt - 1 else cnt in
      let rs := read_tracts tl (N.to_nat cnt') first (tracts st1) flt k o 0 in
      let '(n, e) := fold_results padAll (map fst rs) 0 E_OK in
      let e' := if fix16 v && (e =? E_OK) && (n <? k) then E_EOF else e in
      ((n, e', rtake n (concat (map snd rs))), st1).

(* readAt without faults *)
Definition read_at (v : variant) (tl : N) (st : cstate) (off : Z) (k : N) : (N * N * runs) * cstate :=
  read_at_try v tl no_fault st off k.

(* readAt under the read-fault oracle. fl = list of (tract index, kind): kind 1 = every replica of the tract fails
   for the whole call; kind 3 = every replica fails during the first execution of readAt only (kind 2 = all replicas
   but one fail, is invisible: the read succeeds on the healthy one). A real error with tractsWereCached invalidates
   the blob's cache entry and calls readAt again (once: the second call's tracts come from the curator).
   tractsWereCached is recognised by "no GetTracts RPC was issued". *)
Definition fault_at (fl : list (N * N)) (attempt : N) : N -> bool :=
  fun j => existsb (fun x => (fst x =? j) && ((snd x =? 1) || ((snd x =? 3) && (attempt =? 0)))) fl.

Definition drop_cache (st : cstate) : cstate :=
  mkst (tracts st) (ntr st) (cache_on st) [] (pos st) (rbuf st) (rerr st) (rpcs st).

Definition read_at_f (v : variant) (tl : N) (fl : list (N * N)) (st : cstate) (off : Z) (k : N)
  : (N * N * runs) * cstate :=
  let '((n, e, d), st1) := read_at_try v tl (fault_at fl 0) st off k in
  if (e =? E_FAULT) && (rpcs st1 =? rpcs st)
  then read_at_try v tl (fault_at fl 1) (drop_cache st1) off k
  else ((n, e, d), st1).

(* ---------- writeAt ---------- *)
(* one goroutine per tract: Write (existing tract) or Create (new tract = empty data, then Write) *)
Fixpoint write_tracts (tl : N) (cnt : nat) (j : N) (T : N -> runs) (b : runs) (offset pos : N) : (N -> runs) * N :=
  match cnt with
  | O => (T, pos)
  | S c =>
      let '(toff, tlen) := next_range tl (rlen b) offset pos in
      let thisB := rtake tlen (rdrop pos b) in
      write_tracts tl c (j + 1) (upd T j (ts_write (T j) toff thisB)) b offset (pos + tlen)
  end.

(* createEmptyTracts: Create(tract, nil, 0) for each hole tract *)
Fixpoint create_empty (cnt : nat) (j : N) (T : N -> runs) : N -> runs :=
  match cnt with
  | O => T
  | S c => create_empty c (j + 1) (upd T j (ts_write (T j) 0 []))
  end.

Definition write_at (tl : N) (st : cstate) (off : Z) (b : runs) : (N * N) * cstate :=
  if (off <? 0)%Z then ((0, E_INVAL), st)
  else if rlen b =? 0 then ((0, E_OK), st)
  else
    let o := Z.to_N off in
    let start := o / tl in
    let end_ := (o + rlen b + tl - 1) / tl in
    let n := ntr st in
    (* writeExistingTracts on [start, min end n) *)
    let '(st1, writePos, start1, b1, o1) :=
      if start <? n then
        let e := N.min end_ n in
        let '(_, st') := get_tracts st start e in
        let '(T1, wp) := write_tracts tl (N.to_nat (e - start)) start (tracts st') b o 0 in
        (set_tracts st' T1 n, wp, n, rdrop wp b, o + wp)
      else (st, 0, start, b, o) in
    if n <? end_ then
      (* createEmptyTracts [n, start1) then createWriteTracts [start1, end) (ExtendBlob + AckExtendBlob) *)
      let Th := create_empty (N.to_nat (start1 - n)) n (tracts st1) in
      let '(T2, cp) := write_tracts tl (N.to_nat (end_ - start1)) start1 Th b1 o1 0 in
      ((writePos + cp, E_OK), set_tracts st1 T2 end_)
    else ((writePos, E_OK), st1).

(* ---------- writeAt under per-replica tractserver write faults ---------- *)
(* fl = list of (tract index, code), code = 100 * kind + replica slot; kind 1 = that replica's tractserver fails
   the write for the whole call, kind 3 = only during the first execution of writeExistingTracts (the create paths
   run once). The client keeps one result slot per (tract, replica), tract-major, and
   "the write only succeeds if every tract write succeeded": the FIRST non-OK slot of the WHOLE array is returned. *)
Definition wfault_hit (fl : list (N * N)) (attempt t r : N) : bool :=
  existsb (fun x => (fst x =? t) && (snd x mod 100 =? r) &&
                    ((snd x / 100 =? 1) || ((snd x / 100 =? 3) && (attempt =? 0)))) fl.

Definition slot_results (fl : list (N * N)) (attempt repl first cnt : N) : list N :=
  flat_map (fun t => map (fun r => if wfault_hit fl attempt t r then E_FAULT else E_OK) (range 0 repl))
           (range first cnt).

Fixpoint scan_slots (rs : list N) : N :=
  match rs with
  | [] => E_OK
  | e :: r => if e =? E_OK then scan_slots r else e
  end.

(* curator-side faults: cf = list of (call, code); call 1 = StatBlob, 2 = GetTracts, 3 = ExtendBlob, 4 = AckExtendBlob,
   5 = the master's LookupPartition; code = which + 10 * errkind; which = 0 / 1: the first / second such call of the
   operation fails, 9: every one; errkind 0 = ErrRPC (retriable, class E_FAULT), otherwise a non-retriable error
   (class E_OTHER). The harness empties the lookup cache before such an operation, so no call is retried by statBlob /
   readAt's "maybe the wrong curator" logic. *)
Definition C_STAT : N := 1.  Definition C_GET : N := 2.  Definition C_EXTEND : N := 3.
Definition C_ACK : N := 4.   Definition C_LOOKUP : N := 5.

Definition cerr (cf : list (N * N)) (call which : N) : option N :=
  match find (fun x => (fst x =? call) && ((snd x mod 10 =? which) || (snd x mod 10 =? 9))) cf with
  | Some x => Some (if snd x / 10 =? 0 then E_FAULT else E_OTHER)
  | None => None
  end.

(* first failure of a sequence of steps *)
Definition orelse (a b : option N) : option N := match a with Some e => Some e | None => b end.
Definition ts_fail (fl : list (N * N)) (attempt repl first cnt : N) : option N :=
  let e := scan_slots (slot_results fl attempt repl first cnt) in if e =? E_OK then None else Some e.

(* writeAt with faults armed. The model keeps ONE copy per tract, so it represents only states in which all replicas
   agree: a failed writeExistingTracts (after which replicas may differ inside the written range) leaves the model's
   tracts unchanged, and the harness re-issues the same write without faults before any other operation.
   - statBlob: lookup, StatBlob; an error returns (0, err).
   - writeExistingTracts: getTracts (a curator error returns (0, err)); a failing replica slot with tractsWereCached
     invalidates the cache entry and runs the whole function again (fresh GetTracts); a second failure (or an
     uncached first one) returns (0, err).
   - createEmptyTracts / createWriteTracts run once: ExtendBlob, the tractserver creates, AckExtendBlob; EACH step's
     error is returned (the ack's too: nothing is acknowledged to the caller unless the curator committed the
     tracts), writeAt then returns (writePos, err): the part written to existing tracts stays, hole tracts already
     acknowledged stay. *)
Definition write_create_part (tl repl : N) (fl cf : list (N * N)) (n start end_ o : N) (off : Z) (b : runs) (s : cstate)
  : (N * N) * cstate :=
      if n <? end_ then
        if n <? start then
          (* a hole: createEmptyTracts [n, start), then createWriteTracts [start, end) *)
          match orelse (cerr cf C_EXTEND 0) (orelse (ts_fail fl 0 repl n (start - n)) (cerr cf C_ACK 0)) with
          | Some e => ((0, e), s)
          | None =>
              let s1 := set_tracts s (create_empty (N.to_nat (start - n)) n (tracts s)) start in
              match orelse (cerr cf C_EXTEND 1) (orelse (ts_fail fl 0 repl start (end_ - start)) (cerr cf C_ACK 1)) with
              | Some e => ((0, e), s1)
              | None => write_at tl s off b
              end
          end
        else
          match orelse (cerr cf C_EXTEND 0) (orelse (ts_fail fl 0 repl n (end_ - n)) (cerr cf C_ACK 0)) with
          | Some e =>
              if start <? n then
                (* the part in existing tracts was written, the new tracts failed *)
                let '((wp, _), s') := write_at tl s off (rtake (n * tl - o) b) in ((wp, e), s')
              else ((0, e), s)
          | None => write_at tl s off b
          end
      else write_at tl s off b.

Definition write_at_f (tl repl : N) (fl cf : list (N * N)) (st : cstate) (off : Z) (b : runs) : (N * N) * cstate :=
  if (off <? 0)%Z then ((0, E_INVAL), st)
  else if rlen b =? 0 then ((0, E_OK), st)
  else
    let o := Z.to_N off in
    let start := o / tl in
    let end_ := (o + rlen b + tl - 1) / tl in
    let n := ntr st in
    let create_part := write_create_part tl repl fl cf n start end_ o off b in
    match orelse (cerr cf C_LOOKUP 0) (cerr cf C_STAT 0) with
    | Some e => ((0, e), st)
    | None =>
      if start <? n then
        let e := N.min end_ n in
        let '(_, stg) := get_tracts st start e in
        let cached := rpcs stg =? rpcs st in
        match (if cached then None else cerr cf C_GET 0) with
        | Some er => ((0, er), st)
        | None =>
          match ts_fail fl 0 repl start (e - start) with
          | Some er =>
              if cached then
                (* tractsWereCached: invalidate, run writeExistingTracts again *)
                let st1 := drop_cache stg in
                match cerr cf C_GET 0 with
                | Some e2 => ((0, e2), st1)
                | None =>
                    match ts_fail fl 1 repl start (e - start) with
                    | Some e2 => let '(_, st2) := get_tracts st1 start e in ((0, e2), st2)
                    | None => create_part st1
                    end
                end
              else ((0, er), stg)
          | None => create_part st
          end
        end
      else create_part st
    end.

(* ---------- byteLength ---------- *)
Definition byte_length (tl : N) (st : cstate) : N * cstate :=
  let n := ntr st in
  if n =? 0 then (0, st)
  else
    let '(_, st1) := get_tracts st (n - 1) n in
    ((n - 1) * tl + rlen (tracts st1 (n - 1)), st1).

(* readAt / byteLength with curator faults armed (lookup cache emptied by the harness first): a failing lookup or
   StatBlob returns the error; a failing GetTracts (only issued when the tracts are not cached) returns (0, err) *)
Definition read_at_c (v : variant) (tl : N) (cf : list (N * N)) (st : cstate) (off : Z) (k : N)
  : (N * N * runs) * cstate :=
  if (off <? 0)%Z || (k =? 0) then read_at v tl st off k
  else match cerr cf C_LOOKUP 0 with
       | Some e => ((0, e, []), st)
       | None =>
           let '(r, st1) := read_at v tl st off k in
           if rpcs st1 =? rpcs st then (r, st1)
           else match cerr cf C_GET 0 with Some e => ((0, e, []), st) | None => (r, st1) end
       end.

Definition byte_length_c (tl : N) (cf : list (N * N)) (st : cstate) : (N * N) * cstate :=
  match orelse (cerr cf C_LOOKUP 0) (cerr cf C_STAT 0) with
  | Some e => ((0, e), st)
  | None =>
      let '(l, st1) := byte_length tl st in
      if rpcs st1 =? rpcs st then ((l, E_OK), st1)
      else match cerr cf C_GET 0 with Some e => ((0, e), st) | None => ((l, E_OK), st1) end
  end.

(* ---------- blob.go: Blob ---------- *)
Definition blob_read (v : variant) (tl : N) (st : cstate) (k : N) : (N * N * runs) * cstate :=
  let '((n, e, d), st1) := read_at v tl st (pos st) k in
  ((n, e, d), if (e =? E_OK) || (e =? E_EOF) then set_pos st1 (pos st1 + Z.of_N n) else st1).

Definition blob_read_f (v : variant) (tl : N) (fl : list (N * N)) (st : cstate) (k : N) : (N * N * runs) * cstate :=
  let '((n, e, d), st1) := read_at_f v tl fl st (pos st) k in
  ((n, e, d), if (e =? E_OK) || (e =? E_EOF) then set_pos st1 (pos st1 + Z.of_N n) else st1).

Definition blob_write (tl : N) (st : cstate) (b : runs) : (N * N) * cstate :=
  let '((n, e), st1) := write_at tl st (pos st) b in
  ((n, e), if e =? E_OK then set_pos st1 (pos st1 + Z.of_N n) else st1).

(* Seek: (returned offset, error class) *)
Definition blob_seek (tl : N) (st : cstate) (off whence : Z) : (Z * N) * cstate :=
  let fin (st' : cstate) (newOff : Z) :=
    if (newOff <? 0)%Z then ((0%Z, E_OTHER), st') else ((newOff, E_OK), set_pos st' newOff) in
  if (whence =? 0)%Z then fin st off
  else if (whence =? 1)%Z then fin st (pos st + off)%Z
  else if (whence =? 2)%Z then
    let '(len, st1) := byte_length tl st in fin st1 (Z.of_N len + off)%Z
  else ((0%Z, E_OTHER), st).

(* ---------- blob.go: ReadaheadBlob = bufio.NewReaderSize(blob, TractLength) ---------- *)
(* bufio.Reader.Read; readErr() returns the sticky error and clears it *)
Definition ra_read (v : variant) (tl : N) (st : cstate) (k : N) : (N * N * runs) * cstate :=
  if k =? 0 then
    if 0 <? rlen (rbuf st) then ((0, E_OK, []), st)
    else ((0, rerr st, []), set_buf st (rbuf st) E_OK)
  else
    let deliver (st' : cstate) :=
      let n := N.min k (rlen (rbuf st')) in
      ((n, E_OK, rtake n (rbuf st')), set_buf st' (rdrop n (rbuf st')) (rerr st')) in
    if rlen (rbuf st) =? 0 then
      if negb (rerr st =? E_OK) then ((0, rerr st, []), set_buf st [] E_OK)
      else if tl <=? k then
        (* large read, empty buffer: read directly into p *)
        let '((n, e, d), st1) := blob_read v tl st k in
        ((n, e, d), set_buf st1 [] E_OK)
      else
        (* one read of the whole buffer *)
        let '((n, e, d), st1) := blob_read v tl st tl in
        if n =? 0 then ((0, e, []), set_buf st1 [] E_OK)
        else deliver (set_buf st1 d e)
    else deliver st.

(* ReadaheadBlob.Seek. As found: Reset (discard buffer and sticky error), then Blob.Seek - also when the Seek
   then fails. With F17: SEEK_CUR is taken relative to Blob.offset - Buffered(). With F17b: Blob.Seek first, Reset
   only if it succeeded. *)
Definition ra_seek (v : variant) (tl : N) (st : cstate) (off whence : Z) : (Z * N) * cstate :=
  let off' := if fix17 v && (whence =? 1)%Z then (off - Z.of_N (rlen (rbuf st)))%Z else off in
  if fix17b v then
    let '((r, e), st1) := blob_seek tl st off' whence in
    ((r, e), if e =? E_OK then set_buf st1 [] E_OK else st1)
  else blob_seek tl (set_buf st [] E_OK) off' whence.

(* ---------- operations and uniform results ---------- *)
Inductive op :=
| OWriteAt (off : Z) (d : runs)
| OReadAt (off : Z) (k : N)
| OWrite (d : runs)
| ORead (k : N)
| OSeek (off whence : Z)
| OLen
| ORaRead (k : N)
| ORaSeek (off whence : Z)
| ORaLen
| OCache (on : bool)
| OReadAtF (off : Z) (k : N) (fl : list (N * N))   (* ReadAt while the listed tractserver read faults are armed *)
| OReadF (k : N) (fl : list (N * N))               (* Read under faults *)
| OWriteAtF (repl : N) (off : Z) (d : runs) (fl cf : list (N * N))  (* WriteAt while per-replica write faults fl / curator faults cf are armed *)
| OReadAtC (off : Z) (k : N) (cf : list (N * N))   (* ReadAt while curator faults are armed *)
| OLenC (cf : list (N * N))                        (* ByteLength while curator faults are armed *)
| ODropCache         (* tractCache.invalidate(blob): the harness does this when the blob's tracts move to RS storage *)
| OReopen            (* Client.Open: a fresh Blob (offset 0) and a fresh ReadaheadBlob on it *)
| ORaNew.            (* NewReadaheadBlob on the current Blob *)

Record res := mkres {
  r_n : Z;        (* byte count / returned offset / length *)
  r_err : N;      (* error class *)
  r_data : runs;  (* bytes delivered (reads) *)
  r_pos : Z;      (* Blob.offset afterwards *)
  r_buf : N;      (* bufio Buffered() afterwards *)
  r_rpc : N       (* GetTracts RPCs so far *)
}.

Definition mk (st : cstate) (n : Z) (e : N) (d : runs) : res * cstate :=
  (mkres n e d (pos st) (rlen (rbuf st)) (rpcs st), st).

Definition step (v : variant) (tl : N) (st : cstate) (o : op) : res * cstate :=
  match o with
  | OWriteAt off d => let '((n, e), st1) := write_at tl st off d in mk st1 (Z.of_N n) e []
  | OReadAt off k => let '((n, e, d), st1) := read_at v tl st off k in mk st1 (Z.of_N n) e d
  | OWrite d => let '((n, e), st1) := blob_write tl st d in mk st1 (Z.of_N n) e []
  | ORead k => let '((n, e, d), st1) := blob_read v tl st k in mk st1 (Z.of_N n) e d
  | OSeek off w => let '((r, e), st1) := blob_seek tl st off w in mk st1 r e []
  | OLen => let '(l, st1) := byte_length tl st in mk st1 (Z.of_N l) E_OK []
  | ORaRead k => let '((n, e, d), st1) := ra_read v tl st k in mk st1 (Z.of_N n) e d
  | ORaSeek off w => let '((r, e), st1) := ra_seek v tl st off w in mk st1 r e []
  | ORaLen => let '(l, st1) := byte_length tl st in mk st1 (Z.of_N l) E_OK []
  | OReadAtF off k fl => let '((n, e, d), st1) := read_at_f v tl fl st off k in mk st1 (Z.of_N n) e d
  | OReadF k fl => let '((n, e, d), st1) := blob_read_f v tl fl st k in mk st1 (Z.of_N n) e d
  | OWriteAtF repl off d fl cf => let '((n, e), st1) := write_at_f tl repl fl cf st off d in mk st1 (Z.of_N n) e []
  | OReadAtC off k cf => let '((n, e, d), st1) := read_at_c v tl cf st off k in mk st1 (Z.of_N n) e d
  | OLenC cf => let '((l, e), st1) := byte_length_c tl cf st in mk st1 (Z.of_N l) e []
  | ODropCache => mk (drop_cache st) 0%Z E_OK []
  | OCache on => mk (set_cache_on st on) 0%Z E_OK []
  | OReopen =>
      (* openOnce: an uncached curators.GetTracts(0,0) (one RPC); tractCache.put of no tracts *)
      mk (mkst (tracts st) (ntr st) (cache_on st) (cache st) 0%Z [] E_OK (rpcs st + 1)) 0%Z E_OK []
  | ORaNew => mk (set_buf st [] E_OK) 0%Z E_OK []
  end.

Fixpoint run (v : variant) (tl : N) (st : cstate) (ops : list op) : list res :=
  match ops with
  | [] => []
  | o :: r => let '(x, st1) := step v tl st o in x :: run v tl st1 r
  end.

(* ---------- the specification: a sparse file ---------- *)
(* content = for each offset the byte most recently written there, 0 where nothing was written;
   length = the furthest byte ever written *)
Record sfile := mksf { slen : N; sget : N -> N; spos : Z }.

Definition sf_empty : sfile := mksf 0 (fun _ => 0) 0%Z.

Definition sf_write (f : sfile) (off : N) (d : runs) : sfile :=
  if rlen d =? 0 then f
  else mksf (N.max (slen f) (off + rlen d))
            (fun i => if (off <=? i) && (i <? off + rlen d) then rget d (i - off) else sget f i)
            (spos f).

(* what a read of k bytes at offset off must return: count, error class *)
Definition sf_read_n (f : sfile) (off k : N) : N := N.min k (slen f - off).
Definition sf_read_err (f : sfile) (off k : N) : N :=
  if k =? 0 then E_OK else if slen f <? off + k then E_EOF else E_OK.

Record sres := mksres {
  s_n : Z; s_err : N; s_dlen : N; s_data : N -> N; s_pos : Z;
  s_full_tail : bool   (* this is a read that starts inside the file and runs past an end that is a tract multiple *)
}.

Definition full_tail (tl : N) (f : sfile) (off k : N) : bool :=
  (0 <? slen f) && (slen f mod tl =? 0) && (off <? slen f) && (slen f <? off + k).

Definition sf_set_pos (f : sfile) (p : Z) : sfile := mksf (slen f) (sget f) p.

Definition sstep (tl : N) (f : sfile) (o : op) : sres * sfile :=
  let plain (f' : sfile) (n : Z) (e : N) := (mksres n e 0 (fun _ => 0) (spos f') false, f') in
  let rd (f' : sfile) (off : Z) (k : N) (advance : bool) :=
    if (off <? 0)%Z then plain f' 0%Z E_INVAL
    else
      let o := Z.to_N off in
      let n := sf_read_n f' o k in
      let f'' := if advance then sf_set_pos f' (spos f' + Z.of_N n) else f' in
      (mksres (Z.of_N n) (sf_read_err f' o k) n (fun i => sget f' (o + i)) (spos f'') (full_tail tl f' o k), f'') in
  let wr (f' : sfile) (off : Z) (d : runs) (advance : bool) :=
    if (off <? 0)%Z then plain f' 0%Z E_INVAL
    else
      let f1 := sf_write f' (Z.to_N off) d in
      let f2 := if advance then sf_set_pos f1 (spos f1 + Z.of_N (rlen d)) else f1 in
      plain f2 (Z.of_N (rlen d)) E_OK in
  let sk (newOff : Z) :=
    if (newOff <? 0)%Z then plain f 0%Z E_OTHER else plain (sf_set_pos f newOff) newOff E_OK in
  match o with
  | OWriteAt off d => wr f off d false
  | OReadAt off k => rd f off k false
  | OWrite d => wr f (spos f) d true
  | ORead k => rd f (spos f) k true
  | OSeek off w =>
      if (w =? 0)%Z then sk off
      else if (w =? 1)%Z then sk (spos f + off)%Z
      else if (w =? 2)%Z then sk (Z.of_N (slen f) + off)%Z
      else plain f 0%Z E_OTHER
  | OLen => plain f (Z.of_N (slen f)) E_OK
  | OReopen => plain (sf_set_pos f 0%Z) 0%Z E_OK
  | _ => plain f 0%Z E_OK      (* OCache, ORaNew: no effect on a file; Ra* ops are specified separately *)
  end.

Fixpoint srun (tl : N) (f : sfile) (ops : list op) : list sres :=
  match ops with
  | [] => []
  | o :: r => let '(x, f1) := sstep tl f o in x :: srun tl f1 r
  end.

Definition direct_op (o : op) : bool :=
  match o with ORaRead _ | ORaSeek _ _ | ORaLen | OReadAtF _ _ _ | OReadF _ _ | OWriteAtF _ _ _ _ _ | OReadAtC _ _ _ | OLenC _ | ODropCache => false | _ => true end.

(* ---------- wire format ---------- *)
(* ops:  0 fix16 fix17 cacheOn [fix17b]   (first line of a case: which code variant, initial cache flag)
         1 off nruns (len val)...          WriteAt        < n err pos rpcs
         2 off k                           ReadAt         < n err pos rpcs nruns (len val)...
         3 nruns (len val)...              Write          < n err pos rpcs
         4 k                               Read           < n err pos rpcs nruns (len val)...
         5 off whence                      Seek           < ret err pos rpcs
         6                                 ByteLength     < len err pos rpcs
         7 k                               RA.Read        < n err pos buffered rpcs nruns (len val)...
         8 off whence                      RA.Seek        < ret err pos buffered rpcs
         9                                 RA.ByteLength  < len err pos rpcs
         10 on                             EnableCache    < 0
         11                                Reopen         < 0 rpcs
         12                                NewReadahead   < 0
         13 off k nf (tract kind)...       ReadAt with read faults armed   < as 2
         14 k nf (tract kind)...           Read with read faults armed     < as 4
         15 repl off nruns (len val)... nf (tract code)... [nc (call code)...]   WriteAt with write / curator faults armed   < as 1
         16                                drop the blob's tract cache entry < 0
         17 off k nc (call code)...        ReadAt with curator faults armed     < as 2
         18 nc (call code)...              ByteLength with curator faults armed < as 6        *)
Fixpoint dec_pairs (n : nat) (l : list Z) : option runs :=
  match n with
  | O => match l with [] => Some [] | _ => None end
  | S n' => match l with
            | a :: b :: r => match dec_pairs n' r with
                             | Some p => Some ((Z.to_N a, Z.to_N b) :: p)
                             | None => None end
            | _ => None end
  end.
(* n pairs, then whatever follows *)
Fixpoint dec_pairs_rest (n : nat) (l : list Z) : option (runs * list Z) :=
  match n with
  | O => Some ([], l)
  | S n' => match l with
            | a :: b :: r => match dec_pairs_rest n' r with
                             | Some (p, rest) => Some ((Z.to_N a, Z.to_N b) :: p, rest)
                             | None => None end
            | _ => None end
  end.

Definition dec_runs (l : list Z) : option runs :=
  match l with
  | n :: r => if (n <? 0)%Z then None else dec_pairs (Z.to_nat n) r
  | [] => None
  end.

Definition dec_op (l : list Z) : option op :=
  match l with
  | 1%Z :: off :: r => match dec_runs r with Some d => Some (OWriteAt off d) | None => None end
  | [2%Z; off; k] => if (k <? 0)%Z then None else Some (OReadAt off (Z.to_N k))
  | 3%Z :: r => match dec_runs r with Some d => Some (OWrite d) | None => None end
  | [4%Z; k] => if (k <? 0)%Z then None else Some (ORead (Z.to_N k))
  | [5%Z; off; w] => Some (OSeek off w)
  | [6%Z] => Some OLen
  | [7%Z; k] => if (k <? 0)%Z then None else Some (ORaRead (Z.to_N k))
  | [8%Z; off; w] => Some (ORaSeek off w)
  | [9%Z] => Some ORaLen
  | [10%Z; on] => Some (OCache (negb (on =? 0)%Z))
  | [11%Z] => Some OReopen
  | [12%Z] => Some ORaNew
  | 13%Z :: off :: k :: r => if (k <? 0)%Z then None else
      match dec_runs r with Some fl => Some (OReadAtF off (Z.to_N k) fl) | None => None end
  | 15%Z :: repl :: off :: nr :: r =>
      if (nr <? 0)%Z || (repl <? 0)%Z then None else
      match dec_pairs_rest (Z.to_nat nr) r with
      | Some (d, nf :: rest) =>
          if (nf <? 0)%Z then None else
          match dec_pairs_rest (Z.to_nat nf) rest with
          | Some (fl, []) => Some (OWriteAtF (Z.to_N repl) off d fl [])
          | Some (fl, rest2) => match dec_runs rest2 with
                                | Some cf => Some (OWriteAtF (Z.to_N repl) off d fl cf)
                                | None => None end
          | None => None end
      | Some (_, []) => None
      | None => None end
  | [16%Z] => Some ODropCache
  | 17%Z :: off :: k :: r => if (k <? 0)%Z then None else
      match dec_runs r with Some cf => Some (OReadAtC off (Z.to_N k) cf) | None => None end
  | 18%Z :: r => match dec_runs r with Some cf => Some (OLenC cf) | None => None end
  | 14%Z :: k :: r => if (k <? 0)%Z then None else
      match dec_runs r with Some fl => Some (OReadF (Z.to_N k) fl) | None => None end
  | _ => None
  end.

Definition enc_runs (r : runs) : list Z :=
  let c := canon r in
  Z.of_nat (length c) :: flat_map (fun x => [Z.of_N (fst x); Z.of_N (snd x)]) c.

Definition enc_res (o : op) (x : res) : list Z :=
  let hdr := [r_n x; Z.of_N (r_err x); r_pos x; Z.of_N (r_rpc x)] in
  match o with
  | OReadAt _ _ | ORead _ | OReadAtF _ _ _ | OReadF _ _ | OReadAtC _ _ _ => hdr ++ enc_runs (r_data x)
  | ORaRead _ => [r_n x; Z.of_N (r_err x); r_pos x; Z.of_N (r_buf x); Z.of_N (r_rpc x)] ++ enc_runs (r_data x)
  | ORaSeek _ _ => [r_n x; Z.of_N (r_err x); r_pos x; Z.of_N (r_buf x); Z.of_N (r_rpc x)]
  | OCache _ | ORaNew | ODropCache => [0%Z]
  | OReopen => [0%Z; Z.of_N (r_rpc x)]
  | _ => hdr
  end.

Fixpoint run_wire (v : variant) (tl : N) (st : cstate) (ops : list (list Z)) : list (list Z) :=
  match ops with
  | [] => []
  | l :: r =>
      match dec_op l with
      | Some o => let '(x, st1) := step v tl st o in enc_res o x :: run_wire v tl st1 r
      | None => [(-1)%Z] :: run_wire v tl st r
      end
  end.

