(* C15/Model.v — the C15 model instantiated at the tract length regenerated from the source tree.
   All definitions are in C15/Core.v (which does not depend on the generated constants). *)
From Coq Require Import List NArith ZArith Bool.
From BLB Require Import Gen.Consts.
From BLB Require Export C15.Core.
Import ListNotations.
Open Scope N_scope.

(* Generic driver entry point: ops of one case -> expected observation lines.
   The first line of a case is the configuration [0 fix16 fix17 cacheOn] or [0 fix16 fix17 cacheOn fix17b]. *)
Definition run_case (ops : list (list Z)) : list (list Z) :=
  let go (f16 f17 c f17b : Z) (r : list (list Z)) :=
    [0%Z] :: run_wire {| fix16 := negb (f16 =? 0)%Z; fix17 := negb (f17 =? 0)%Z; fix17b := negb (f17b =? 0)%Z |}
                      c15_TractLength (init_state (negb (c =? 0)%Z)) r in
  match ops with
  | [0%Z; f16; f17; c] :: r => go f16 f17 c 0%Z r
  | [0%Z; f16; f17; c; f17b] :: r => go f16 f17 c f17b r
  | _ => map (fun _ => [(-1)%Z]) ops
  end.
