(* C15/ProofsFault.v — tractserver read faults: a tract that no replica could deliver is never masked.
   (readAt's result scan: the first real error wins and stops the scan.) *)
From Coq Require Import List NArith ZArith Bool Lia ZifyN ZifyNat ZifyBool.
From BLB Require Import C15.Core C15.ProofsBytes C15.ProofsClient C15.ProofsStep.
Import ListNotations.
Open Scope N_scope.

Definition benign (h : N * N * N) : Prop := snd h = E_OK \/ snd h = E_EOF.
Definition counted (h : N * N * N) : N := if snd h =? E_OK then snd (fst h) else fst (fst h).

Lemma fold_eof_continue : forall padAll w r l acc, l <> [] ->
  fold_results padAll ((w, r, E_EOF) :: l) acc E_OK = fold_results padAll l (acc + w) E_OK.
Proof. intros padAll w r l acc Hl. cbn [fold_results]. destruct l; [contradiction|reflexivity]. Qed.

(* the scan over per-tract results: everything before the first real error is counted (a short tract in full,
   because it is not the last result), the error is returned, nothing after it matters *)
Lemma fold_first_error_wins_lemma : forall padAll pre w r e rest acc,
  Forall benign pre -> e <> E_OK -> e <> E_EOF ->
  fold_results padAll (pre ++ (w, r, e) :: rest) acc E_OK =
  (fold_right (fun h a => counted h + a) 0 pre + acc, e).
Proof.
  intros padAll pre w r e rest. induction pre as [|[[w0 r0] e0] pre IH]; intros acc Hb He1 He2.
  - cbn [app fold_results fold_right]. destruct (N.eqb_spec e E_OK); [contradiction|].
    destruct (N.eqb_spec e E_EOF); [contradiction|]. reflexivity.
  - inversion Hb as [|h t Hh Ht]; subst. cbn [app fold_right]. unfold counted at 1. cbn [fst snd].
    destruct Hh as [Hh|Hh]; cbn [snd] in Hh; subst e0.
    + cbn [fold_results]. change (E_OK =? E_OK) with true. cbv iota. rewrite IH by auto. f_equal. lia.
    + rewrite fold_eof_continue by (destruct pre; discriminate).
      change (E_EOF =? E_OK) with false. cbv iota. rewrite IH by auto. f_equal. lia.
Qed.

(* tracts not hit by the oracle are read exactly as without faults *)
Lemma read_tracts_ext : forall tl T flt k o cnt j p,
  (forall q, j <= q < j + N.of_nat cnt -> flt q = false) ->
  read_tracts tl cnt j T flt k o p = read_tracts tl cnt j T no_fault k o p.
Proof.
  intros tl T flt k o. induction cnt as [|c IH]; intros j p H; cbn [read_tracts]; auto.
  destruct (next_range tl k o p) as [toff tlen]. rewrite (H j) by lia. change (no_fault j) with false.
  rewrite IH; auto. intros q Hq. apply H. lia.
Qed.

(* if a tract among those read fails on every replica, the scan returns that error; the bytes it counts are stored
   bytes of the blob from the start of the range, ending before the failed tract *)
Lemma read_tracts_faulted : forall tl T flt k o padAll, 0 < tl ->
  forall cnt j p acc,
  (exists q, j <= q < j + N.of_nat cnt /\ flt q = true) ->
  p < k -> j * tl <= o + p -> o + p < (j + 1) * tl ->
  (j + N.of_nat cnt - 1) * tl < o + k ->
  let rs := read_tracts tl cnt j T flt k o p in
  let D := concat (map snd rs) in
  exists n,
    fold_results padAll (map fst rs) acc E_OK = (acc + n, E_FAULT) /\
    n <= rlen D /\ (forall y, y < n -> rget D y = tget tl T (o + p + y)) /\
    o + p + n <= N.max (o + p) ((j + N.of_nat cnt - 1) * tl).
Proof.
  intros tl T flt k o padAll Htl. induction cnt as [|c IH]; intros j p acc Hex Hp Hj1 Hj2 He.
  - destruct Hex as (q & Hq & _). lia.
  - cbn [read_tracts].
    pose proof (next_range_spec tl k o p j Htl Hp Hj1 Hj2) as Hn.
    destruct (next_range tl k o p) as [toff tlen]. destruct Hn as (Htoff & Htlen & Hsum).
    destruct (flt j) eqn:Fj.
    + (* this tract fails: the scan stops here *)
      exists 0. cbn [map fst snd concat fold_results].
      change (E_FAULT =? E_OK) with false. change (E_FAULT =? E_EOF) with false. cbv iota.
      split; [f_equal; lia|]. split; [lia|]. split; [intros; lia | lia].
    + (* this tract is read; a later one fails, so this is not the last result and is counted in full *)
      assert (Hc : (c > 0)%nat).
      { destruct Hex as (q & Hq & Fq). destruct (N.eq_dec q j) as [->|]; [congruence|lia]. }
      assert (Hex' : exists q, j + 1 <= q < j + 1 + N.of_nat c /\ flt q = true).
      { destruct Hex as (q & Hq & Fq). exists q. split; auto. destruct (N.eq_dec q j) as [->|]; [congruence|lia]. }
      assert (Hmore : (j + 1) * tl < o + k).
      { assert ((j + 1) * tl <= (j + N.of_nat (S c) - 1) * tl) by (apply N.mul_le_mono_r; lia). lia. }
      assert (Hs : o + (p + tlen) = (j + 1) * tl) by lia.
      specialize (IH (j + 1) (p + tlen) (acc + tlen) Hex').
      destruct IH as (n & I1 & I2 & I3 & I4); try lia;
        try (replace (j + 1 + N.of_nat c - 1) with (j + N.of_nat (S c) - 1) by lia; exact He).
      pose proof (read_one_spec (T j) toff tlen) as Hr.
      destruct (read_one (T j) toff tlen) as [[[w r] e] piece]. destruct Hr as (Hw & Hrr & Hee & Hpl & Hpg).
      set (rest := read_tracts tl c (j + 1) T flt k o (p + tlen)) in *.
      assert (Hrest : map fst rest <> []).
      { unfold rest. destruct c; [lia|]. cbn [read_tracts]. destruct (next_range tl k o (p + tlen)). cbn [map]. discriminate. }
      exists (tlen + n). cbn [map fst snd concat]. rewrite rlen_app, Hpl.
      assert (Hfold : fold_results padAll ((w, r, e) :: map fst rest) acc E_OK =
                      fold_results padAll (map fst rest) (acc + tlen) E_OK).
      { subst w r e.
        destruct (N.ltb_spec (rlen (T j)) (toff + tlen)).
        - rewrite fold_eof_continue by exact Hrest. reflexivity.
        - cbn [fold_results]. change (E_OK =? E_OK) with true. cbv iota. f_equal. lia. }
      rewrite Hfold, I1.
      replace (j + 1 + N.of_nat c - 1) with (j + N.of_nat (S c) - 1) in I4 by lia.
      assert (HL : (j + 1) * tl <= (j + N.of_nat (S c) - 1) * tl) by (apply N.mul_le_mono_r; lia).
      split; [f_equal; lia|]. split; [lia|]. split.
      * intros y Hy. rewrite rget_app, Hpl. destruct (N.ltb_spec y tlen).
        -- rewrite Hpg by auto. unfold tget.
           destruct (div_mod_tract tl (o + p + y) j Htl) as [Hd Hm]; try lia.
           rewrite Hd, Hm. f_equal. lia.
        -- rewrite I3 by lia. f_equal. lia.
      * lia.
Qed.

Lemma existsb_range : forall flt a c, existsb flt (range a c) = true <-> exists q, a <= q < a + c /\ flt q = true.
Proof.
  intros. rewrite existsb_exists. split; intros (q & H1 & H2); exists q; split; auto; apply in_range; auto.
Qed.

Lemma existsb_range_false : forall flt a c, existsb flt (range a c) = false -> forall q, a <= q < a + c -> flt q = false.
Proof.
  intros flt a c H q Hq. destruct (flt q) eqn:E; auto.
  assert (existsb flt (range a c) = true) by (apply existsb_range; exists q; auto). congruence.
Qed.

(* one execution of readAt under an arbitrary fault oracle: either no tract it reads is hit and the result is the
   fault-free one, or the error is returned with a count not beyond the blob's end whose bytes are the stored ones *)
Lemma read_at_try_faults : forall v tl flt st off k r st',
  0 < tl -> wf tl (tracts st) (ntr st) -> cache_ok st -> (0 <= off)%Z -> 0 < k ->
  read_at_try v tl flt st off k = (r, st') ->
  let o := Z.to_N off in let len := blen tl (tracts st) (ntr st) in
  (r, st') = read_at_try v tl no_fault st off k \/
  (snd (fst r) = E_FAULT /\ fst (fst r) <= N.min k (len - o) /\ rlen (snd r) = fst (fst r) /\
   forall y, y < fst (fst r) -> rget (snd r) y = tget tl (tracts st) (o + y)).
Proof.
  intros v tl flt st off k r st' Htl Hwf Hc Hoff Hk H o len.
  unfold read_at_try in *.
  destruct (Z.ltb_spec off 0) as [Ho0|Ho0]; [lia|].
  destruct (N.eqb_spec k 0) as [Hk0|Hk0]; [lia|].
  fold o in H. fold o. set (start := o / tl) in *. set (e := (o + k + tl - 1) / tl) in *.
  set (n := ntr st) in *.
  destruct (tract_of tl o Htl) as (S1 & S2 & _). fold start in S1, S2.
  destruct (ceil_tract tl (o + k) Htl ltac:(lia)) as (E1 & E2 & E3).
  replace ((o + k + tl - 1) / tl) with e in * by (unfold e; f_equal; lia).
  destruct (blen_bounds tl (tracts st) n Htl Hwf) as (B1 & B2 & B3). fold len in B1, B2, B3.
  destruct (get_tracts st start (e + 1)) as [[f c] st0] eqn:Hg.
  assert (Hse : start < e).
  { destruct (N.lt_ge_cases start e) as [|Hge]; auto.
    assert (e * tl <= start * tl) by (apply N.mul_le_mono_r; lia). lia. }
  destruct (get_tracts_spec st start (e + 1) f c st0 Hc ltac:(lia) Hg) as (Gf & Gc & G1 & _).
  fold n in Gf, Gc. clear Hg Hc. destruct Hwf as (W1 & W2 & W3). clear W1 W2.
  clearbody start e n len o.
  destruct (N.eqb_spec c 0) as [Hc0|Hc0]; [left; symmetry; exact H|].
  assert (Hsn : start < n) by lia. specialize (B2 ltac:(lia)).
  assert (Hf : f = start) by lia. rewrite Hf, G1 in *. clear Hf Gf.
  set (cnt' := if c =? e + 1 - start then c - 1 else c) in *.
  assert (Hcnt : 0 < cnt' /\ start + cnt' <= e /\ start + cnt' <= n).
  { unfold cnt'. destruct (N.eqb_spec c (e + 1 - start)); lia. }
  destruct Hcnt as (C1 & C2 & C3).
  destruct (existsb flt (range start cnt')) eqn:Ex.
  - (* a tract that is read fails on every replica *)
    right. apply existsb_range in Ex.
    assert (HL1 : (start + cnt' - 1) * tl <= (e - 1) * tl) by (apply N.mul_le_mono_r; lia).
    assert (HL2 : (start + cnt' - 1) * tl <= (n - 1) * tl) by (apply N.mul_le_mono_r; lia).
    pose proof (read_tracts_faulted tl (tracts st) flt k o (c =? e + 1 - start) Htl (N.to_nat cnt') start 0 0) as F.
    rewrite N2Nat.id, !N.add_0_r in F. cbv zeta in F.
    destruct F as (m & F1 & F2 & F3 & F4); auto; try lia.
    rewrite F1 in H. rewrite N.add_0_l in H.
    change (E_FAULT =? E_OK) with false in H. rewrite andb_false_r, andb_false_l in H.
    inversion H; subst r st'. clear H. cbn [fst snd].
    split; [reflexivity|]. split; [lia|]. split; [rewrite rlen_rtake; lia|].
    intros y Hy. rewrite rget_rtake. destruct (N.ltb_spec y m); [|lia]. apply F3; auto.
  - (* no tract that is read is hit *)
    left. rewrite (read_tracts_ext tl (tracts st) flt k o (N.to_nat cnt') start 0) in H; [symmetry; exact H|].
    intros q Hq. apply (existsb_range_false flt start cnt' Ex). lia.
Qed.

(* the state after readAt does not depend on the fault oracle *)
Lemma read_at_try_state : forall v tl flt st off k,
  snd (read_at_try v tl flt st off k) = snd (read_at_try v tl no_fault st off k).
Proof.
  intros. unfold read_at_try. destruct (off <? 0)%Z; auto. destruct (k =? 0); auto.
  destruct (get_tracts st (Z.to_N off / tl) ((Z.to_N off + k + tl - 1) / tl + 1)) as [[f c] st0].
  destruct (c =? 0); auto.
  destruct (fold_results _ (map fst (read_tracts _ _ _ _ flt _ _ _)) 0 E_OK) as [n1 e1].
  destruct (fold_results _ (map fst (read_tracts _ _ _ _ no_fault _ _ _)) 0 E_OK) as [n2 e2]. reflexivity.
Qed.

(* what a read under faults may return, against the sparse file f: either the injected error, claiming at most the
   bytes the file has in the range, all of them right (no claim beyond n); or exactly the fault-free answer: the
   file's count and bytes, end-of-file exactly when the range runs past the true end (F16 exception for as_found) *)
Definition fault_ok (v : variant) (tl : N) (f : sfile) (o k : N) (r : N * N * runs) : Prop :=
  let '(n, e, d) := r in
  rlen d = n /\ (forall y, y < n -> rget d y = sget f (o + y)) /\
  ((e = E_FAULT /\ n <= sf_read_n f o k) \/
   (n = sf_read_n f o k /\ e = (if negb (fix16 v) && full_tail tl f o k then E_OK else sf_read_err f o k))).

Lemma read_at_try_fault_ok : forall v tl flt st f off k r st', 0 < tl -> R tl st f -> (0 <= off)%Z -> 0 < k ->
  read_at_try v tl flt st off k = (r, st') ->
  fault_ok v tl f (Z.to_N off) k r /\ R tl st' f /\ pos st' = pos st.
Proof.
  intros v tl flt st f off k r st' Htl HR Hoff Hk H.
  assert (HR' := HR). destruct HR' as (Hwf & Hc & Hl & Hg & Hp & Hp0).
  destruct (read_at_try v tl no_fault st off k) as [[[n0 e0] d0] st0] eqn:H0.
  destruct (read_at_R v tl st f off k n0 e0 d0 st0 Htl HR Hoff H0) as (Q1 & Q2 & Q3 & Q4 & Q5 & Q6).
  assert (Hst : st' = st0).
  { pose proof (read_at_try_state v tl flt st off k) as S. rewrite H, H0 in S. exact S. }
  subst st'. split; [|split; assumption].
  destruct (read_at_try_faults v tl flt st off k r st0 Htl Hwf Hc Hoff Hk H) as [E|(F1 & F2 & F3 & F4)].
  - rewrite H0 in E. injection E as ->. unfold fault_ok. split; [exact Q3|]. split; [exact Q4|]. right. split; assumption.
  - destruct r as [[n e] d]. cbn [fst snd] in *. unfold fault_ok. split; [exact F3|]. split.
    + intros y Hy. rewrite F4 by auto. apply Hg.
    + left. split; [exact F1|]. unfold sf_read_n. rewrite <- Hl. exact F2.
Qed.

Lemma R_drop_cache : forall tl st f, R tl st f -> R tl (drop_cache st) f.
Proof.
  intros tl st f (A & B & C & D & E & F). unfold R, drop_cache, cache_ok. cbn. repeat split; auto; try apply A.
  intros i [].
Qed.

Lemma read_at_f_fault_ok : forall v tl fl st f off k r st', 0 < tl -> R tl st f -> (0 <= off)%Z -> 0 < k ->
  read_at_f v tl fl st off k = (r, st') ->
  fault_ok v tl f (Z.to_N off) k r /\ R tl st' f /\ pos st' = pos st.
Proof.
  intros v tl fl st f off k r st' Htl HR Hoff Hk H. unfold read_at_f in H.
  destruct (read_at_try v tl (fault_at fl 0) st off k) as [[[n1 e1] d1] st1] eqn:H1.
  destruct (read_at_try_fault_ok v tl _ st f off k _ st1 Htl HR Hoff Hk H1) as (A1 & A2 & A3).
  destruct ((e1 =? E_FAULT) && (rpcs st1 =? rpcs st)).
  - destruct (read_at_try_fault_ok v tl _ (drop_cache st1) f off k r st' Htl (R_drop_cache tl st1 f A2) Hoff Hk H) as (B1 & B2 & B3).
    split; [exact B1|]. split; [exact B2|]. rewrite B3. exact A3.
  - injection H as <- <-. auto.
Qed.

(* ---------- write faults ---------- *)
Lemma scan_slots_ok : forall rs, scan_slots rs = E_OK <-> Forall (fun e => e = E_OK) rs.
Proof.
  induction rs as [|e r IH]; cbn [scan_slots].
  - split; auto.
  - destruct (N.eqb_spec e E_OK) as [->|Hne].
    + rewrite IH. split; intro H; [constructor; auto | inversion H; auto].
    + split; intro H; [congruence | inversion H; congruence].
Qed.

Lemma get_tracts_R : forall tl st f a b r st', R tl st f -> a < b -> get_tracts st a b = (r, st') -> R tl st' f.
Proof.
  intros tl st f a b [fi c] st' (A & B & C & D & E & F) Hab H.
  destruct (get_tracts_spec st a b fi c st' B Hab H) as (_ & _ & G1 & G2 & G3 & _ & _ & _ & G7).
  unfold R. rewrite G1, G2, G3. tauto.
Qed.

Definition nok (x : option N) : Prop := forall e, x = Some e -> e <> E_OK.

Lemma nok_cerr : forall cf c w, nok (cerr cf c w).
Proof.
  intros cf c w e H. unfold cerr in H. destruct (find _ cf) as [x|]; [|discriminate].
  injection H as <-. destruct (snd x / 10 =? 0); discriminate.
Qed.

Lemma nok_ts : forall fl a repl f c, nok (ts_fail fl a repl f c).
Proof.
  intros fl a repl f c e H. unfold ts_fail in H.
  destruct (N.eqb_spec (scan_slots (slot_results fl a repl f c)) E_OK); [discriminate|]. injection H as <-. auto.
Qed.

Lemma nok_orelse : forall a b, nok a -> nok b -> nok (orelse a b).
Proof. intros a b Ha Hb e H. destruct a as [x|]; cbn in H; [apply Ha; auto | apply Hb; auto]. Qed.

Lemma nok_none : nok None.
Proof. intros e H. discriminate. Qed.

(* an acknowledged write under any set of armed tractserver write faults and curator faults is the fault-free
   write: every byte is in place and committed *)
Lemma write_at_f_ack : forall tl repl fl cf st f off b n st', 0 < tl -> R tl st f -> (0 <= off)%Z ->
  write_at_f tl repl fl cf st off b = ((n, E_OK), st') ->
  n = rlen b /\ R tl st' (sf_write f (Z.to_N off) b).
Proof.
  intros tl repl fl cf st f off b n st' Htl HR Hoff H. unfold write_at_f in H.
  destruct (Z.ltb_spec off 0) as [Ho|Ho]; [lia|].
  destruct (N.eqb_spec (rlen b) 0) as [Hb|Hb].
  { injection H as <- <-. unfold sf_write. rewrite Hb. cbn. auto. }
  set (o := Z.to_N off) in *. set (start := o / tl) in *. set (e := (o + rlen b + tl - 1) / tl) in *.
  assert (Hw : forall s, R tl s f -> write_at tl s off b = (n, E_OK, st') -> n = rlen b /\ R tl st' (sf_write f o b)).
  { intros s HRs Hc. destruct (write_at_R tl s f off b n E_OK st' Htl HRs Hoff Hc) as (H1 & _ & _ & H4). auto. }
  (* a step that failed cannot be followed by an acknowledgement *)
  assert (Hno : forall (x : option N) k s, nok x -> forall er, x = Some er -> (k, er, s) = (n, E_OK, st') -> False).
  { intros x k s Hx er Hx' Heq. injection Heq as _ He _. exact (Hx er Hx' He). }
  set (create_part := write_create_part tl repl fl cf (ntr st) start e o off b) in H.
  assert (Hcreate : forall s, R tl s f -> create_part s = (n, E_OK, st') -> n = rlen b /\ R tl st' (sf_write f o b)).
  { intros s HRs Hc. unfold create_part, write_create_part in Hc. clear H create_part.
    destruct (ntr st <? e); [|apply (Hw s); auto].
    destruct (ntr st <? start).
    - destruct (orelse (cerr cf C_EXTEND 0) (orelse (ts_fail fl 0 repl (ntr st) (start - ntr st)) (cerr cf C_ACK 0))) as [er|] eqn:E1.
      + exfalso. eapply (Hno _ _ _ _ er E1 Hc). Unshelve.
        apply nok_orelse; [apply nok_cerr | apply nok_orelse; [apply nok_ts | apply nok_cerr]].
      + destruct (orelse (cerr cf C_EXTEND 1) (orelse (ts_fail fl 0 repl start (e - start)) (cerr cf C_ACK 1))) as [er|] eqn:E2.
        * exfalso. eapply (Hno _ _ _ _ er E2 Hc). Unshelve.
          apply nok_orelse; [apply nok_cerr | apply nok_orelse; [apply nok_ts | apply nok_cerr]].
        * apply (Hw s); auto.
    - destruct (orelse (cerr cf C_EXTEND 0) (orelse (ts_fail fl 0 repl (ntr st) (e - ntr st)) (cerr cf C_ACK 0))) as [er|] eqn:E1.
      + exfalso.
        assert (Hn : nok (orelse (cerr cf C_EXTEND 0) (orelse (ts_fail fl 0 repl (ntr st) (e - ntr st)) (cerr cf C_ACK 0)))).
        { apply nok_orelse; [apply nok_cerr | apply nok_orelse; [apply nok_ts | apply nok_cerr]]. }
        destruct (start <? ntr st).
        * destruct (write_at tl s off (rtake (ntr st * tl - o) b)) as [[wp x] s']. exact (Hno _ _ _ Hn er E1 Hc).
        * exact (Hno _ _ _ Hn er E1 Hc).
      + apply (Hw s); auto. }
  clearbody create_part.
  destruct (orelse (cerr cf C_LOOKUP 0) (cerr cf C_STAT 0)) as [er|] eqn:E0.
  { exfalso. refine (Hno _ _ _ _ er E0 H). apply nok_orelse; apply nok_cerr. }
  destruct (start <? ntr st) eqn:Hs; [|apply (Hcreate st); auto].
  destruct (get_tracts st start (N.min e (ntr st))) as [r1 stg] eqn:Hg.
  assert (Hlt : start < N.min e (ntr st)).
  { apply N.ltb_lt in Hs. destruct (tract_of tl o Htl) as (S1 & S2 & _). fold start in S1, S2.
    destruct (ceil_tract tl (o + rlen b) Htl ltac:(lia)) as (E1 & E2 & E3).
    replace ((o + rlen b + tl - 1) / tl) with e in * by (unfold e; f_equal; lia).
    assert (start < e); [|lia].
    destruct (N.lt_ge_cases start e) as [|Hge]; auto.
    assert (e * tl <= start * tl) by (apply N.mul_le_mono_r; lia). lia. }
  pose proof (get_tracts_R tl st f _ _ r1 stg HR Hlt Hg) as HRg.
  destruct (if rpcs stg =? rpcs st then None else cerr cf C_GET 0) as [er|] eqn:E1.
  { exfalso. refine (Hno _ _ _ _ er E1 H). destruct (rpcs stg =? rpcs st); [apply nok_none | apply nok_cerr]. }
  destruct (ts_fail fl 0 repl start (N.min e (ntr st) - start)) as [er|] eqn:E2; [|apply (Hcreate st); auto].
  destruct (rpcs stg =? rpcs st).
  - destruct (cerr cf C_GET 0) as [e2|] eqn:E3.
    { exfalso. exact (Hno _ _ _ (nok_cerr cf C_GET 0) e2 E3 H). }
    destruct (ts_fail fl 1 repl start (N.min e (ntr st) - start)) as [e2|] eqn:E4.
    + destruct (get_tracts (drop_cache stg) start (N.min e (ntr st))) as [r2 st2].
      exfalso. exact (Hno _ _ _ (nok_ts fl 1 repl _ _) e2 E4 H).
    + apply (Hcreate (drop_cache stg)); auto. apply R_drop_cache; auto.
  - exfalso. exact (Hno _ _ _ (nok_ts fl 0 repl _ _) er E2 H).
Qed.
