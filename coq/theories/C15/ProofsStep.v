(* C15/ProofsStep.v — every client operation refines the sparse file (step and run level). *)
From Coq Require Import List NArith ZArith Bool Lia ZifyN ZifyNat ZifyBool.
From BLB Require Import C15.Core C15.ProofsBytes C15.ProofsClient.
Import ListNotations.
Open Scope N_scope.

(* ---------- byteLength ---------- *)
Lemma byte_length_spec : forall tl st l st', cache_ok st -> byte_length tl st = (l, st') ->
  l = blen tl (tracts st) (ntr st) /\ tracts st' = tracts st /\ ntr st' = ntr st /\ same_handle st st' /\ cache_ok st'.
Proof.
  intros tl st l st' Hc H. unfold byte_length in H. unfold blen.
  destruct (N.eqb_spec (ntr st) 0) as [E|E].
  - inversion H; subst. unfold same_handle. tauto.
  - destruct (get_tracts st (ntr st - 1) (ntr st)) as [[f c] st0] eqn:Hg.
    destruct (get_tracts_spec st (ntr st - 1) (ntr st) f c st0 Hc ltac:(lia) Hg) as (_ & _ & G1 & G2 & G3 & G4 & G5 & G6 & G7).
    inversion H; subst l st'. rewrite G1. unfold same_handle. tauto.
Qed.

(* ---------- the refinement relation between a client state and a sparse file ---------- *)
Definition R (tl : N) (st : cstate) (f : sfile) : Prop :=
  wf tl (tracts st) (ntr st) /\ cache_ok st /\
  blen tl (tracts st) (ntr st) = slen f /\ (forall x, tget tl (tracts st) x = sget f x) /\
  pos st = spos f /\ (0 <= pos st)%Z.

(* a client result agrees with the sparse file's, except that the code as found reports no error for a
   read in the F16 input class *)
Definition res_ok (v : variant) (c : res) (s : sres) : Prop :=
  r_n c = s_n s /\ r_pos c = s_pos s /\
  r_err c = (if negb (fix16 v) && s_full_tail s then E_OK else s_err s) /\
  rlen (r_data c) = s_dlen s /\ forall y, y < s_dlen s -> rget (r_data c) y = s_data s y.

Lemma R_init : forall tl c, R tl (init_state c) sf_empty.
Proof.
  intros. unfold R, init_state, sf_empty, wf, cache_ok, blen, tget. cbn.
  repeat split; auto; try lia.
Qed.

Lemma full_tail_eq : forall tl f o k, full_tail tl f o k = full_tail_in tl (slen f) o k.
Proof. reflexivity. Qed.

(* positional write and read against the file *)
Lemma write_at_R : forall tl st f off d n e st', 0 < tl -> R tl st f -> (0 <= off)%Z ->
  write_at tl st off d = ((n, e), st') ->
  n = rlen d /\ e = E_OK /\ pos st' = pos st /\
  R tl st' (sf_write f (Z.to_N off) d).
Proof.
  intros tl st f off d n e st' Htl (Hwf & Hc & Hl & Hg & Hp & Hp0) Hoff H.
  destruct (N.eqb_spec (rlen d) 0) as [E|E].
  - unfold write_at in H. destruct (Z.ltb_spec off 0); [lia|]. rewrite E, N.eqb_refl in H.
    inversion H; subst. unfold sf_write. rewrite E, N.eqb_refl. repeat (split; [reflexivity|]). unfold R. tauto.
  - destruct (write_at_spec tl st off d (n, e) st' Htl Hwf Hc Hoff ltac:(lia) H) as (Hr & Ht & Hn & (S1 & S2 & S3 & S4) & Hc').
    inversion Hr; subst n e.
    destruct (tract_written_file tl (Z.to_N off) d (tracts st) (ntr st) (tracts st') Htl ltac:(lia) Hwf Ht) as (W & B & G).
    rewrite <- Hn in W, B.
    split; [reflexivity|]. split; [reflexivity|]. split; [exact S1|].
    unfold R, sf_write. destruct (N.eqb_spec (rlen d) 0); [lia|]. cbn [slen sget spos].
    split; [exact W|]. split; [exact Hc'|]. split; [rewrite B, Hl; reflexivity|].
    split; [intro x; rewrite G, Hg; reflexivity|]. rewrite S1. split; assumption.
Qed.

Lemma read_at_R : forall v tl st f off k n e d st', 0 < tl -> R tl st f -> (0 <= off)%Z ->
  read_at v tl st off k = ((n, e, d), st') ->
  let o := Z.to_N off in
  n = sf_read_n f o k /\
  e = (if negb (fix16 v) && full_tail tl f o k then E_OK else sf_read_err f o k) /\
  rlen d = n /\ (forall y, y < n -> rget d y = sget f (o + y)) /\
  pos st' = pos st /\ R tl st' f.
Proof.
  intros v tl st f off k n e d st' Htl (Hwf & Hc & Hl & Hg & Hp & Hp0) Hoff H o.
  unfold sf_read_n, sf_read_err. rewrite full_tail_eq. rewrite <- Hl.
  destruct (N.eqb_spec k 0) as [E|E].
  - unfold read_at, read_at_try in H. destruct (Z.ltb_spec off 0); [lia|]. subst k. cbn in H.
    inversion H; subst.
    split; [lia|]. split.
    { cbn [N.eqb]. destruct (negb (fix16 v) && _); reflexivity. }
    split; [reflexivity|]. split; [intros; lia|]. split; [reflexivity|]. unfold R. tauto.
  - destruct (read_at_spec v tl st off k (n, e, d) st' Htl Hwf Hc Hoff ltac:(lia) H)
      as (R1 & R2 & R3 & R4 & T1 & T2 & (S1 & S2 & S3 & S4) & Hc').
    cbn [fst snd] in R1, R2, R3, R4. fold o in R1, R3, R4.
    split; [exact R1|]. split.
    { rewrite R4. destruct (blen tl (tracts st) (ntr st) <? o + k) eqn:E2; auto.
      unfold full_tail_in. rewrite E2, andb_false_r, andb_false_r. reflexivity. }
    split; [exact R2|]. split; [intros y Hy; rewrite R3 by auto; apply Hg|].
    split; [exact S1|]. unfold R. rewrite T1, T2, S1. tauto.
Qed.

Lemma R_set_pos : forall tl st f p, R tl st f -> (0 <= p)%Z -> R tl (set_pos st p) (sf_set_pos f p).
Proof. intros tl st f p (A & B & C & D & E & F) Hp. unfold R, set_pos, sf_set_pos, cache_ok in *. cbn. tauto. Qed.
Lemma R_set_buf : forall tl st f b e, R tl st f -> R tl (set_buf st b e) f.
Proof. intros tl st f b e (A & B & C & D & E & F). unfold R, set_buf, cache_ok in *. cbn. tauto. Qed.
Lemma R_set_cache : forall tl st f c, R tl st f -> R tl (set_cache_on st c) f.
Proof. intros tl st f c (A & B & C & D & E & F). unfold R, set_cache_on, cache_ok in *. cbn. tauto. Qed.

Lemma byte_length_R : forall tl st f l st', R tl st f -> byte_length tl st = (l, st') ->
  l = slen f /\ pos st' = pos st /\ R tl st' f.
Proof.
  intros tl st f l st' (A & B & C & D & E & F) H.
  destruct (byte_length_spec tl st l st' B H) as (H1 & H2 & H3 & (S1 & S2 & S3 & S4) & H5).
  split; [congruence|]. split; [exact S1|]. unfold R. rewrite H2, H3, S1. tauto.
Qed.

Ltac inv H := inversion H; subst; clear H.

Lemma step_refines : forall v tl st f o c st' s f', 0 < tl -> R tl st f -> direct_op o = true ->
  step v tl st o = (c, st') -> sstep tl f o = (s, f') -> res_ok v c s /\ R tl st' f'.
Proof.
  intros v tl st f o c st' s f' Htl HR Hd Hc Hs.
  assert (HR' := HR). destruct HR' as (Hwf & Hca & Hl & Hg & Hp & Hp0).
  destruct o; cbn [direct_op] in Hd; try discriminate; cbn [step sstep] in Hc, Hs.
  - (* WriteAt *)
    destruct (write_at tl st off d) as [[n e] st1] eqn:Hw. unfold mk in Hc. (injection Hc as Hc1 Hc2; subst c st').
    destruct (Z.ltb_spec off 0) as [Ho|Ho].
    + unfold write_at in Hw. destruct (Z.ltb_spec off 0); [|lia]. (injection Hw as <- <- <-). (injection Hs as Hs1 Hs2; subst s f').
      unfold res_ok. cbn. rewrite andb_false_r. repeat (split; auto); try (intros; lia).
    + destruct (write_at_R tl st f off d n e st1 Htl HR Ho Hw) as (-> & -> & Hpos & HR1). (injection Hs as Hs1 Hs2; subst s f').
      split; [|exact HR1]. unfold res_ok. cbn. rewrite andb_false_r.
      split; [reflexivity|]. split; [destruct HR1 as (_ & _ & _ & _ & Q & _); exact Q|].
      repeat (split; auto); try (intros; lia).
  - (* ReadAt *)
    destruct (read_at v tl st off k) as [[[n e] d] st1] eqn:Hr. unfold mk in Hc. (injection Hc as Hc1 Hc2; subst c st').
    destruct (Z.ltb_spec off 0) as [Ho|Ho].
    + unfold read_at, read_at_try in Hr. destruct (Z.ltb_spec off 0); [|lia]. (injection Hr as <- <- <- <-). (injection Hs as Hs1 Hs2; subst s f').
      unfold res_ok. cbn. rewrite andb_false_r. repeat (split; auto); try (intros; lia).
    + destruct (read_at_R v tl st f off k n e d st1 Htl HR Ho Hr) as (Hn & He & Hdl & Hdg & Hpos & HR1). (injection Hs as Hs1 Hs2; subst s f').
      rewrite Hn in Hdl, Hdg. rewrite Hn, He.
      split; [|exact HR1]. unfold res_ok. cbn.
      split; [reflexivity|]. split; [destruct HR1 as (_ & _ & _ & _ & Q & _); exact Q|].
      split; [reflexivity|]. split; auto.
  - (* Write *)
    unfold blob_write in Hc. destruct (write_at tl st (pos st) d) as [[n e] st1] eqn:Hw.
    destruct (write_at_R tl st f (pos st) d n e st1 Htl HR Hp0 Hw) as (-> & -> & Hpos & HR1).
    change (E_OK =? E_OK) with true in Hc. unfold mk in Hc. (injection Hc as Hc1 Hc2; subst c st').
    rewrite <- Hp in Hs. destruct (Z.ltb_spec (pos st) 0); [lia|]. (injection Hs as Hs1 Hs2; subst s f').
    assert (HR2 : R tl (set_pos st1 (pos st1 + Z.of_N (rlen d))) (sf_set_pos (sf_write f (Z.to_N (pos st)) d) (pos st1 + Z.of_N (rlen d)))).
    { apply R_set_pos; auto. lia. }
    assert (Hsp : spos (sf_write f (Z.to_N (pos st)) d) = pos st1).
    { destruct HR1 as (_ & _ & _ & _ & Q & _). congruence. }
    rewrite Hsp. split; [|exact HR2].
    unfold res_ok. cbn. rewrite andb_false_r. repeat (split; auto); try (intros; lia).
  - (* Read *)
    unfold blob_read in Hc. destruct (read_at v tl st (pos st) k) as [[[n e] d] st1] eqn:Hr.
    destruct (read_at_R v tl st f (pos st) k n e d st1 Htl HR Hp0 Hr) as (Hn & He & Hdl & Hdg & Hpos & HR1).
    assert (Hee : (e =? E_OK) || (e =? E_EOF) = true).
    { rewrite He. destruct (negb (fix16 v) && full_tail tl f (Z.to_N (pos st)) k); [reflexivity|].
      unfold sf_read_err. destruct (k =? 0); [reflexivity|].
      destruct (slen f <? Z.to_N (pos st) + k); reflexivity. }
    rewrite Hee in Hc. unfold mk in Hc. (injection Hc as Hc1 Hc2; subst c st').
    rewrite <- Hp in Hs. destruct (Z.ltb_spec (pos st) 0); [lia|]. (injection Hs as Hs1 Hs2; subst s f').
    cbn [spos sf_set_pos]. rewrite Hpos. rewrite <- Hn.
    split; [|apply R_set_pos; auto; lia].
    rewrite He.
    unfold res_ok. cbn. repeat (split; auto).
  - (* Seek *)
    unfold blob_seek in Hc.
    destruct (Z.eqb_spec whence 0).
    { rewrite <- Hp in *. destruct (Z.ltb_spec off 0); unfold mk in Hc; (injection Hc as Hc1 Hc2; subst c st'); (injection Hs as Hs1 Hs2; subst s f').
      - split; [|exact HR]. unfold res_ok. cbn. rewrite andb_false_r. repeat (split; auto); try (intros; lia).
      - split; [|apply R_set_pos; auto]. unfold res_ok. cbn. rewrite andb_false_r. repeat (split; auto); try (intros; lia). }
    destruct (Z.eqb_spec whence 1).
    { rewrite <- Hp in *. destruct (Z.ltb_spec (pos st + off) 0); unfold mk in Hc; (injection Hc as Hc1 Hc2; subst c st'); (injection Hs as Hs1 Hs2; subst s f').
      - split; [|exact HR]. unfold res_ok. cbn. rewrite andb_false_r. repeat (split; auto); try (intros; lia).
      - split; [|apply R_set_pos; auto]. unfold res_ok. cbn. rewrite andb_false_r. repeat (split; auto); try (intros; lia). }
    destruct (Z.eqb_spec whence 2).
    { destruct (byte_length tl st) as [l st1] eqn:Hb.
      destruct (byte_length_R tl st f l st1 HR Hb) as (-> & Hpos & HR1).
      assert (Hsp : spos f = pos st1) by congruence.
      destruct (Z.ltb_spec (Z.of_N (slen f) + off) 0); unfold mk in Hc; (injection Hc as Hc1 Hc2; subst c st'); (injection Hs as Hs1 Hs2; subst s f').
      - split; [|exact HR1]. unfold res_ok. cbn. rewrite andb_false_r. repeat (split; auto); try (intros; lia).
      - split; [|apply R_set_pos; auto]. unfold res_ok. cbn. rewrite andb_false_r. repeat (split; auto); try (intros; lia). }
    unfold mk in Hc. (injection Hc as Hc1 Hc2; subst c st'). (injection Hs as Hs1 Hs2; subst s f'). split; [|exact HR].
    unfold res_ok. cbn. rewrite andb_false_r. repeat (split; auto); try (intros; lia).
  - (* ByteLength *)
    destruct (byte_length tl st) as [l st1] eqn:Hb.
    destruct (byte_length_R tl st f l st1 HR Hb) as (-> & Hpos & HR1).
    unfold mk in Hc. (injection Hc as Hc1 Hc2; subst c st'). (injection Hs as Hs1 Hs2; subst s f'). split; [|exact HR1].
    unfold res_ok. cbn. rewrite andb_false_r. repeat (split; auto); try congruence; try (intros; lia).
  - (* EnableCache *)
    unfold mk in Hc. (injection Hc as Hc1 Hc2; subst c st'). (injection Hs as Hs1 Hs2; subst s f'). split; [|apply R_set_cache; auto].
    unfold res_ok. cbn. rewrite andb_false_r. repeat (split; auto); try (intros; lia).
  - (* Reopen *)
    unfold mk in Hc. (injection Hc as Hc1 Hc2; subst c st'). (injection Hs as Hs1 Hs2; subst s f'). split.
    + unfold res_ok. cbn. rewrite andb_false_r. repeat (split; auto); try (intros; lia).
    + unfold R, sf_set_pos, cache_ok in *. cbn. repeat (split; auto). lia.
  - (* NewReadahead *)
    unfold mk in Hc. (injection Hc as Hc1 Hc2; subst c st'). (injection Hs as Hs1 Hs2; subst s f'). split; [|apply R_set_buf; auto].
    unfold res_ok. cbn. rewrite andb_false_r. repeat (split; auto); try (intros; lia).
Qed.

Lemma run_refines : forall v tl ops st f, 0 < tl -> R tl st f -> forallb direct_op ops = true ->
  Forall2 (res_ok v) (run v tl st ops) (srun tl f ops).
Proof.
  intros v tl. induction ops as [|o r IH]; intros st f Htl HR Hd; cbn [run srun]; [constructor|].
  cbn [forallb] in Hd. apply andb_true_iff in Hd. destruct Hd as [Hd1 Hd2].
  destruct (step v tl st o) as [c st1] eqn:Hc. destruct (sstep tl f o) as [s f1] eqn:Hs.
  destruct (step_refines v tl st f o c st1 s f1 Htl HR Hd1 Hc Hs) as [Hok HR1].
  constructor; auto.
Qed.

(* two results are the same for the caller: count/offset, error class, cursor, and the bytes delivered *)
Definition res_same (a b : res) : Prop :=
  r_n a = r_n b /\ r_err a = r_err b /\ r_pos a = r_pos b /\
  rlen (r_data a) = rlen (r_data b) /\ forall y, rget (r_data a) y = rget (r_data b) y.

Definition same_but_cache (o1 o2 : op) : Prop :=
  o1 = o2 \/ exists b1 b2, o1 = OCache b1 /\ o2 = OCache b2.

Lemma srun_cache_blind : forall tl ops1 ops2 f, Forall2 same_but_cache ops1 ops2 -> srun tl f ops1 = srun tl f ops2.
Proof.
  intros tl ops1 ops2 f H. revert f. induction H as [|o1 o2 r1 r2 Ho Hr IH]; intro f; cbn [srun]; auto.
  destruct Ho as [->|(b1 & b2 & -> & ->)].
  - destruct (sstep tl f o2) as [s f1]. rewrite IH. reflexivity.
  - cbn [sstep]. rewrite IH. reflexivity.
Qed.

Lemma direct_cache_blind : forall ops1 ops2, Forall2 same_but_cache ops1 ops2 ->
  forallb direct_op ops1 = true -> forallb direct_op ops2 = true.
Proof.
  intros ops1 ops2 H. induction H as [|o1 o2 r1 r2 Ho Hr IH]; cbn [forallb]; auto.
  intro Hd. apply andb_true_iff in Hd. destruct Hd as [H1 H2]. rewrite IH by auto.
  destruct Ho as [->|(b1 & b2 & -> & ->)]; [rewrite H1|]; reflexivity.
Qed.

Lemma res_ok_same : forall v a b s, res_ok v a s -> res_ok v b s -> res_same a b.
Proof.
  intros v a b s (A1 & A2 & A3 & A4 & A5) (B1 & B2 & B3 & B4 & B5). unfold res_same.
  repeat split; try congruence. intro y. destruct (N.lt_ge_cases y (s_dlen s)).
  - rewrite A5, B5 by auto. reflexivity.
  - rewrite (rget_beyond (r_data a)) by lia. rewrite (rget_beyond (r_data b)) by lia. reflexivity.
Qed.

Lemma cache_transparent_lemma : forall v tl c1 c2 ops1 ops2, 0 < tl ->
  Forall2 same_but_cache ops1 ops2 -> forallb direct_op ops1 = true ->
  Forall2 res_same (run v tl (init_state c1) ops1) (run v tl (init_state c2) ops2).
Proof.
  intros v tl c1 c2 ops1 ops2 Htl Hs Hd.
  pose proof (run_refines v tl ops1 (init_state c1) sf_empty Htl (R_init tl c1) Hd) as H1.
  pose proof (run_refines v tl ops2 (init_state c2) sf_empty Htl (R_init tl c2) (direct_cache_blind _ _ Hs Hd)) as H2.
  rewrite (srun_cache_blind tl ops1 ops2 sf_empty Hs) in H1.
  revert H2. generalize (run v tl (init_state c2) ops2). induction H1 as [|a s ra rs Ha Hr IH]; intros l H2.
  - inversion H2. constructor.
  - inversion H2 as [|b s' rb rs' Hb Hrb]; subst. constructor; [eapply res_ok_same; eauto | apply IH; auto].
Qed.

(* ---------- states reached, the wrapper's logical position ---------- *)
Fixpoint exec (v : variant) (tl : N) (st : cstate) (ops : list op) : cstate :=
  match ops with [] => st | o :: r => exec v tl (snd (step v tl st o)) r end.

(* where the wrapper's reader stands: the Blob's cursor minus what is still buffered *)
Definition lpos (st : cstate) : Z := (pos st - Z.of_N (rlen (rbuf st)))%Z.

Lemma res_ok_repaired_err : forall l1 l2, Forall2 (res_ok repaired) l1 l2 -> map r_err l1 = map s_err l2.
Proof.
  intros l1 l2 H. induction H as [|a s ra rs Ha Hr IH]; cbn [map]; auto.
  destruct Ha as (_ & _ & He & _). cbn in He. rewrite He, IH. reflexivity.
Qed.
