(* C15/ProofsCanon.v — the canonical run-length encoding (what is compared on the wire) is determined by the bytes:
   pointwise-equal byte strings have equal canonical encodings. *)
From Coq Require Import List NArith ZArith Bool Lia ZifyN ZifyNat ZifyBool.
From BLB Require Import C15.Core C15.ProofsBytes.
Import ListNotations.
Open Scope N_scope.

(* normal form: no empty run, neighbouring runs carry different values *)
Fixpoint nf (r : runs) : Prop :=
  match r with
  | [] => True
  | (n, v) :: t => 0 < n /\ (match t with (_, w) :: _ => v <> w | [] => True end) /\ nf t
  end.

Lemma nf_rcons : forall x acc, nf acc -> nf (rcons x acc).
Proof.
  intros [n v] acc H. unfold rcons. destruct (N.eqb_spec n 0); auto.
  destruct acc as [|[m w] t].
  - cbn. repeat split; auto; lia.
  - destruct (N.eqb_spec v w).
    + subst. cbn in *. destruct H as (H1 & H2 & H3). repeat split; auto; lia.
    + cbn in *. repeat split; auto; try lia; apply H.
Qed.

Lemma nf_canon : forall r, nf (canon r).
Proof. induction r as [|x r IH]; [exact I|]. unfold canon in *. cbn [fold_right]. apply nf_rcons. exact IH. Qed.

Lemma nf_unique : forall a b, nf a -> nf b -> rlen a = rlen b -> (forall i, rget a i = rget b i) -> a = b.
Proof.
  induction a as [|[n v] a IH]; intros b Ha Hb Hl Hg.
  - destruct b as [|[m w] b]; auto. cbn in Hb, Hl. lia.
  - destruct b as [|[m w] b]; [cbn in Ha, Hl; lia|].
    cbn [nf] in Ha, Hb. destruct Ha as (An & Aadj & Anf). destruct Hb as (Bm & Badj & Bnf).
    assert (Hv : v = w).
    { specialize (Hg 0). cbn [rget] in Hg.
      destruct (N.ltb_spec 0 n), (N.ltb_spec 0 m); try lia; try exact Hg. }
    subst w.
    assert (Hnm : n = m).
    { destruct (N.lt_trichotomy n m) as [L|[E|L]]; auto; exfalso.
      - (* a's first run is shorter: the next run of a must carry v too, or a ends early *)
        specialize (Hg n). cbn [rget] in Hg.
        destruct (N.ltb_spec n n), (N.ltb_spec n m); try lia. rewrite N.sub_diag in Hg.
        destruct a as [|[n2 v2] a2].
        + cbn [rlen] in Hl. lia.
        + cbn [nf] in Anf. destruct Anf as (A2 & _). cbn [rget] in Hg.
          destruct (N.ltb_spec 0 n2); [|lia]. congruence.
      - specialize (Hg m). cbn [rget] in Hg.
        destruct (N.ltb_spec m m), (N.ltb_spec m n); try lia. rewrite N.sub_diag in Hg.
        destruct b as [|[m2 w2] b2].
        + cbn [rlen] in Hl. lia.
        + cbn [nf] in Bnf. destruct Bnf as (B2 & _). cbn [rget] in Hg.
          destruct (N.ltb_spec 0 m2); [|lia]. congruence. }
    subst m. f_equal. apply IH; auto.
    + cbn [rlen] in Hl. lia.
    + intro i. specialize (Hg (n + i)). cbn [rget] in Hg.
      destruct (N.ltb_spec (n + i) n); [lia|]. replace (n + i - n) with i in Hg by lia. exact Hg.
Qed.

Lemma canon_ext : forall a b, rlen a = rlen b -> (forall i, rget a i = rget b i) -> canon a = canon b.
Proof.
  intros a b Hl Hg. apply nf_unique; try apply nf_canon.
  - rewrite !rlen_canon. exact Hl.
  - intro i. rewrite !rget_canon. apply Hg.
Qed.

Lemma enc_runs_ext : forall a b, rlen a = rlen b -> (forall i, rget a i = rget b i) -> enc_runs a = enc_runs b.
Proof. intros a b Hl Hg. unfold enc_runs. rewrite (canon_ext a b Hl Hg). reflexivity. Qed.
