(* C15/ProofsBytes.v — facts about run-length encoded byte strings and the in-memory tractserver's Write/Read. *)
From Coq Require Import List NArith ZArith Bool Lia ZifyN ZifyNat ZifyBool.
From BLB Require Import C15.Core.
Import ListNotations.
Open Scope N_scope.

Lemma rlen_app : forall a b, rlen (a ++ b) = rlen a + rlen b.
Proof. induction a as [|[n v] a IH]; intros; cbn [rlen app]; [lia | rewrite IH; lia]. Qed.

Lemma rget_beyond : forall r i, rlen r <= i -> rget r i = 0.
Proof.
  induction r as [|[n v] r IH]; intros i H; cbn [rget rlen] in *; auto.
  destruct (N.ltb_spec i n); [lia | apply IH; lia].
Qed.

Lemma rget_app : forall a b i, rget (a ++ b) i = if i <? rlen a then rget a i else rget b (i - rlen a).
Proof.
  induction a as [|[n v] a IH]; intros; cbn [rget rlen app].
  - destruct (N.ltb_spec i 0); [lia|]. rewrite N.sub_0_r. reflexivity.
  - rewrite IH. destruct (N.ltb_spec i n), (N.ltb_spec (i - n) (rlen a)), (N.ltb_spec i (n + rlen a)); try lia; auto.
    f_equal. lia.
Qed.

Lemma rlen_rtake : forall r k, rlen (rtake k r) = N.min k (rlen r).
Proof.
  induction r as [|[n v] r IH]; intros; cbn [rtake rlen]; [lia|].
  destruct (N.leb_spec k n); cbn [rlen]; [lia | rewrite IH; lia].
Qed.

Lemma rget_rtake : forall r k i, rget (rtake k r) i = if i <? k then rget r i else 0.
Proof.
  induction r as [|[n v] r IH]; intros; cbn [rtake rget].
  - destruct (i <? k); reflexivity.
  - destruct (N.leb_spec k n); cbn [rget].
    + destruct (N.ltb_spec i k), (N.ltb_spec i n); try lia; auto.
    + rewrite IH. destruct (N.ltb_spec i n), (N.ltb_spec i k), (N.ltb_spec (i - n) (k - n)); try lia; auto.
Qed.

Lemma rlen_rdrop : forall r k, rlen (rdrop k r) = rlen r - k.
Proof.
  induction r as [|[n v] r IH]; intros; cbn [rdrop rlen]; [lia|].
  destruct (N.ltb_spec k n); cbn [rlen]; [lia | rewrite IH; lia].
Qed.

Lemma rget_rdrop : forall r k i, rget (rdrop k r) i = rget r (k + i).
Proof.
  induction r as [|[n v] r IH]; intros; cbn [rdrop rget]; auto.
  destruct (N.ltb_spec k n); cbn [rget].
  - destruct (N.ltb_spec i (n - k)), (N.ltb_spec (k + i) n); try lia; auto. f_equal. lia.
  - rewrite IH. destruct (N.ltb_spec (k + i) n); try lia. f_equal. lia.
Qed.

Lemma rlen_rzeros : forall n, rlen (rzeros n) = n.
Proof. intros. unfold rzeros. cbn [rlen]. lia. Qed.

Lemma rget_rzeros : forall n i, rget (rzeros n) i = 0.
Proof. intros. unfold rzeros. cbn [rget]. destruct (i <? n); reflexivity. Qed.

(* canonical form denotes the same bytes *)
Lemma rlen_rcons : forall x acc, rlen (rcons x acc) = fst x + rlen acc.
Proof.
  intros [n v] acc. unfold rcons. destruct (N.eqb_spec n 0); cbn [fst]; [lia|].
  destruct acc as [|[m w] t]; cbn [rlen]; [lia|]. destruct (v =? w); cbn [rlen]; lia.
Qed.

Lemma rget_rcons : forall x acc i, rget (rcons x acc) i = rget (x :: acc) i.
Proof.
  intros [n v] acc i. unfold rcons. destruct (N.eqb_spec n 0).
  - subst. cbn [rget]. destruct (N.ltb_spec i 0); [lia|]. rewrite N.sub_0_r. reflexivity.
  - destruct acc as [|[m w] t]; auto. destruct (N.eqb_spec v w); auto. subst.
    cbn [rget]. destruct (N.ltb_spec i (n + m)), (N.ltb_spec i n), (N.ltb_spec (i - n) m); try lia; auto.
    f_equal. lia.
Qed.

Lemma rlen_canon : forall r, rlen (canon r) = rlen r.
Proof.
  induction r as [|[n v] r IH]; auto. unfold canon in *. cbn [fold_right]. rewrite rlen_rcons, IH. reflexivity.
Qed.

Lemma rget_canon : forall r i, rget (canon r) i = rget r i.
Proof.
  induction r as [|[n v] r IH]; intros; auto. unfold canon in *. cbn [fold_right]. rewrite rget_rcons.
  cbn [rget]. rewrite IH. reflexivity.
Qed.

(* ---------- the in-memory tractserver ---------- *)
Lemma rlen_ts_write : forall t off b, rlen (ts_write t off b) = N.max (rlen t) (off + rlen b).
Proof.
  intros. unfold ts_write.
  destruct (N.ltb_spec (rlen t) (off + rlen b));
    rewrite ?rlen_app, ?rlen_rtake, ?rlen_rdrop, ?rlen_app, ?rlen_rzeros; lia.
Qed.

Lemma rget_ts_write : forall t off b i,
  rget (ts_write t off b) i = if (off <=? i) && (i <? off + rlen b) then rget b (i - off) else rget t i.
Proof.
  intros. unfold ts_write.
  set (t' := if rlen t <? off + rlen b then t ++ rzeros (off + rlen b - rlen t) else t).
  assert (Hl : off + rlen b <= rlen t') by
    (unfold t'; destruct (N.ltb_spec (rlen t) (off + rlen b)); rewrite ?rlen_app, ?rlen_rzeros; lia).
  assert (Hg : forall j, rget t' j = rget t j).
  { intro j. unfold t'. destruct (N.ltb_spec (rlen t) (off + rlen b)); auto.
    rewrite rget_app. destruct (N.ltb_spec j (rlen t)); auto.
    rewrite rget_rzeros. symmetry. apply rget_beyond. lia. }
  rewrite !rget_app, rlen_rtake, rget_rtake, rget_rdrop, Hg.
  replace (N.min off (rlen t')) with off by lia.
  destruct (N.ltb_spec i off), (N.leb_spec off i), (N.ltb_spec i (off + rlen b)), (N.ltb_spec (i - off) (rlen b));
    cbn [andb]; try lia; auto.
  rewrite Hg. f_equal. lia.
Qed.

(* what readOneTractReplicated leaves in thisB: the window [off, off+len) of the zero-extended tract *)
Lemma read_one_spec : forall t off len,
  let '((w, r, e), p) := read_one t off len in
  w = len /\ r = N.min len (rlen t - off) /\
  e = (if rlen t <? off + len then E_EOF else E_OK) /\
  rlen p = len /\ forall i, i < len -> rget p i = rget t (off + i).
Proof.
  intros. unfold read_one, ts_read.
  destruct (rlen t <? off) eqn:E1; destruct (rlen t <? off + len) eqn:E2;
    rewrite ?N.ltb_lt, ?N.ltb_ge in E1, E2; try (exfalso; lia);
    (split; [reflexivity | split; [try lia | split; [reflexivity | split]]]).
  - cbn [app]. rewrite rlen_rzeros. lia.
  - intros. cbn [app]. rewrite rget_rzeros. symmetry. apply rget_beyond. lia.
  - rewrite rlen_app, rlen_rdrop, rlen_rzeros. lia.
  - intros. rewrite rget_app, rlen_rdrop, rget_rdrop, rget_rzeros.
    destruct (N.ltb_spec i (rlen t - off)); auto. symmetry. apply rget_beyond. lia.
  - rewrite rlen_app, rlen_rtake, rlen_rdrop, rlen_rzeros. lia.
  - intros. rewrite rget_app, rlen_rtake, rlen_rdrop, rget_rtake, rget_rdrop, rget_rzeros.
    destruct (N.ltb_spec i (N.min len (rlen t - off))), (N.ltb_spec i len); try lia; auto.
Qed.

(* ---------- tract arithmetic ---------- *)
Lemma div_mod_tract : forall tl g j, 0 < tl -> j * tl <= g -> g < (j + 1) * tl -> g / tl = j /\ g mod tl = g - j * tl.
Proof.
  intros tl g j Ht H1 H2.
  assert (g / tl = j).
  { symmetry. apply (N.div_unique g tl j (g - j * tl)); lia. }
  split; auto.
  pose proof (N.div_mod' g tl). rewrite H in H0. lia.
Qed.

Lemma tract_of : forall tl x, 0 < tl -> (x / tl) * tl <= x /\ x < (x / tl + 1) * tl /\ x mod tl < tl /\ x = (x / tl) * tl + x mod tl.
Proof.
  intros. pose proof (N.div_mod' x tl). pose proof (N.mod_lt x tl). lia.
Qed.

Lemma ceil_tract : forall tl y, 0 < tl -> 0 < y ->
  let e := (y + tl - 1) / tl in (e - 1) * tl < y /\ y <= e * tl /\ 1 <= e.
Proof.
  intros tl y Ht Hy e.
  pose proof (N.div_mod' (y + tl - 1) tl). pose proof (N.mod_lt (y + tl - 1) tl). fold e in H.
  assert (1 <= e).
  { destruct (N.eq_dec e 0) as [E|E]; [|lia]. rewrite E in H. lia. }
  nia.
Qed.

Lemma mul_lt_tract : forall tl a b, 0 < tl -> a < b -> (a + 1) * tl <= b * tl.
Proof. intros. nia. Qed.
