(* C07B/Props.v — stand-alone wrapper so that `bin/check C07B` can run part B of C07 on its own.
   The property-level theorems live in C07/FileProps.v; they are restated here and proved by `exact`. *)
From Coq Require Import List ZArith NArith.
From BLB Require Import C07.FileFS C07.FileModel.
Import ListNotations.

(* [FULL] every state reachable under the crash quantifier of the property is a power loss state of some prefix of the trace *)
Theorem crash_prefix_sub_cache :
  forall tr s0 c, dir_consistent s0 -> crash_prefix tr s0 c ->
    exists k, k <= length tr /\ crash_cache (run (firstn k tr) s0) c.
Proof. exact crash_prefix_sub_cache_lemma. Qed.
Print Assumptions crash_prefix_sub_cache.
