(* Extraction of the C01 (Cluster) model. ExtrOcamlBasic only; numbers stay Coq inductives. *)
From Coq Require Import Extraction ExtrOcamlBasic.
From BLB Require Import C01.Model.
Extraction Language OCaml.
Set Extraction Output Directory ".".
Extraction "model.ml" run_case.
