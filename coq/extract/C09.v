(* Extraction of the C09 model (Store sequential model + wire layer). ExtrOcamlBasic only. *)
From Coq Require Import Extraction ExtrOcamlBasic.
From BLB Require Import C09.Model.
Extraction Language OCaml.
Set Extraction Output Directory ".".
Extraction "model.ml" run_case.
