From Coq Require Import Extraction ExtrOcamlBasic.
From BLB Require Import C14.Model.
Extraction "model.ml" run_case.
