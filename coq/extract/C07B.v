(* Extraction of the C07 part B (file level) model. ExtrOcamlBasic only; numbers stay Coq inductives. *)
From Coq Require Import Extraction ExtrOcamlBasic.
From BLB Require Import C07.FileModel.
Extraction Language OCaml.
Set Extraction Output Directory ".".
Extraction "model.ml" run_case.
