(* Extraction of the C04 model (Cluster model + fault events + recovery bookkeeping; Store model for the disk scenarios).
   ExtrOcamlBasic only; numbers stay Coq inductives. *)
From Coq Require Import Extraction ExtrOcamlBasic.
From BLB Require Import C04.Model.
Extraction Language OCaml.
Set Extraction Output Directory ".".
Extraction "model.ml" run_case.
