(* Extraction of the C04 model: Cluster model + fault events + recovery bookkeeping, Store model for the disk
   scenarios, relational RS judgements for the erasure-coded cases (entry point run_case_all, C04/Entry.v).
   ExtrOcamlBasic only; numbers stay Coq inductives. *)
From Coq Require Import Extraction ExtrOcamlBasic.
From BLB Require Import C04.Entry.
Extraction Language OCaml.
Set Extraction Output Directory ".".
Extraction "model.ml" run_case_all.
