(* Extraction of the C05 model (Cluster model + GC layer). ExtrOcamlBasic only; numbers stay Coq inductives. *)
From Coq Require Import Extraction ExtrOcamlBasic.
From BLB Require Import C05.Model.
Extraction Language OCaml.
Set Extraction Output Directory ".".
Extraction "model.ml" run_case.
