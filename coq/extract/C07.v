(* Extraction of the C07 model. ExtrOcamlBasic only; numbers stay Coq inductives. *)
From Coq Require Import Extraction ExtrOcamlBasic.
From BLB Require Import C07.Model.
Extraction Language OCaml.
Set Extraction Output Directory ".".
Extraction "model.ml" c07_run_case.
