(* Extraction of the C10 model (curator half). ExtrOcamlBasic only; numbers stay Coq inductives. *)
From Coq Require Import Extraction ExtrOcamlBasic.
From BLB Require Import C10.Model.
Extraction Language OCaml.
Set Extraction Output Directory ".".
Extraction "model.ml" run_case.
