(* Extraction of the C03 model (history checker). ExtrOcamlBasic only; numbers stay Coq inductives. *)
From Coq Require Import Extraction ExtrOcamlBasic.
From BLB Require Import C03.Model.
Extraction Language OCaml.
Set Extraction Output Directory ".".
Extraction "model.ml" run_case.
